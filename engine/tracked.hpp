// Instrumented element type for lifetime properties (C03) and as the non-trivial T of the container harnesses.
// Every special member consults a registry keyed by address.  Illegal transitions end the case with a failure:
//   construct over a live object, destroy / assign / read a non-live object, copy or move FROM a non-live object.
// After the owner is gone the registry must be empty (vf::lt::check_empty).
#pragma once
#include "verif.hpp"

#include <unordered_map>

namespace vf::lt {

enum class St : unsigned char { live, moved_from };

struct Registry {
    std::unordered_map<void const*, St> objs;
    std::uint64_t constructed{0}, destroyed{0}, copies{0}, moves{0}, assigns{0};
    std::string first_violation;
};
inline auto reg() -> Registry&
{
    static Registry r;
    return r;
}
inline void reset()
{
    auto& r = reg();
    r.objs.clear();
    r.constructed = r.destroyed = r.copies = r.moves = r.assigns = 0;
    r.first_violation.clear();
}
// violations are latched; the harness polls `violation()` after every op (and the registry keeps working so the
// remaining destructors do not cascade into crashes)
inline void violate(char const* what)
{
    auto& r = reg();
    if (r.first_violation.empty()) { r.first_violation = what; }
}
inline auto violation() -> std::string const& { return reg().first_violation; }
inline auto live_count() -> std::size_t { return reg().objs.size(); }
inline auto check_empty() -> std::string
{
    auto& r = reg();
    if (!r.first_violation.empty()) { return "lifetime: " + r.first_violation; }
    if (!r.objs.empty()) { return "lifetime: " + std::to_string(r.objs.size()) + " element(s) still alive after the owner was destroyed (constructed " + std::to_string(r.constructed) + ", destroyed " + std::to_string(r.destroyed) + ")"; }
    if (r.constructed != r.destroyed) { return "lifetime: constructed " + std::to_string(r.constructed) + " != destroyed " + std::to_string(r.destroyed); }
    return "";
}

inline void on_construct(void const* p)
{
    auto& r = reg();
    if (r.objs.count(p) != 0) { violate("constructor ran on storage that already holds a live object"); }
    r.objs[p] = St::live;
    ++r.constructed;
}
inline void on_destroy(void const* p)
{
    auto& r = reg();
    auto it = r.objs.find(p);
    if (it == r.objs.end()) {
        violate("destructor ran on storage that holds no live object (double destroy or never constructed)");
        return;
    }
    r.objs.erase(it);
    ++r.destroyed;
}
inline auto is_live(void const* p) -> bool { return reg().objs.count(p) != 0; }
inline void need_live(void const* p, char const* what)
{
    if (!is_live(p)) { violate(what); }
}
inline void mark_moved(void const* p)
{
    auto it = reg().objs.find(p);
    if (it != reg().objs.end()) { it->second = St::moved_from; }
}
inline void mark_live(void const* p)
{
    auto it = reg().objs.find(p);
    if (it != reg().objs.end()) { it->second = St::live; }
}

inline constexpr int moved_value = -7777;

enum class Kind { copy_move, move_only, copy_only };

template <Kind K>
struct Tracked {
    int v{0};

    Tracked() noexcept : v{0} { on_construct(this); }
    Tracked(int x) noexcept : v{x} { on_construct(this); } // NOLINT implicit on purpose (converting construction paths)

    Tracked(Tracked const& o) noexcept
        requires(K != Kind::move_only)
        : v{o.v}
    {
        need_live(&o, "copy constructor reads a source that is not a live object");
        on_construct(this);
        ++reg().copies;
    }
    Tracked(Tracked&& o) noexcept
        requires(K != Kind::copy_only)
        : v{o.v}
    {
        need_live(&o, "move constructor reads a source that is not a live object");
        on_construct(this);
        o.v = moved_value;
        mark_moved(&o);
        ++reg().moves;
    }
    auto operator=(Tracked const& o) noexcept -> Tracked&
        requires(K != Kind::move_only)
    {
        need_live(this, "copy assignment ran on storage that holds no live object");
        need_live(&o, "copy assignment reads a source that is not a live object");
        v = o.v;
        mark_live(this);
        ++reg().assigns;
        return *this;
    }
    auto operator=(Tracked&& o) noexcept -> Tracked&
        requires(K != Kind::copy_only)
    {
        need_live(this, "move assignment ran on storage that holds no live object");
        need_live(&o, "move assignment reads a source that is not a live object");
        if (this != &o) {
            v   = o.v;
            o.v = moved_value;
            mark_live(this);
            mark_moved(&o);
        }
        ++reg().assigns;
        return *this;
    }
    ~Tracked() noexcept { on_destroy(this); }

    [[nodiscard]] auto get() const noexcept -> int
    {
        need_live(this, "member function ran on storage that holds no live object");
        return v;
    }
    friend auto operator==(Tracked const& a, Tracked const& b) noexcept -> bool { return a.get() == b.get(); }
    friend auto operator<(Tracked const& a, Tracked const& b) noexcept -> bool { return a.get() < b.get(); }
    friend auto operator!=(Tracked const& a, Tracked const& b) noexcept -> bool { return a.get() != b.get(); }
    friend auto operator>(Tracked const& a, Tracked const& b) noexcept -> bool { return a.get() > b.get(); }
    friend auto operator<=(Tracked const& a, Tracked const& b) noexcept -> bool { return a.get() <= b.get(); }
    friend auto operator>=(Tracked const& a, Tracked const& b) noexcept -> bool { return a.get() >= b.get(); }
};

using TCM = Tracked<Kind::copy_move>;
using TMO = Tracked<Kind::move_only>;
using TCO = Tracked<Kind::copy_only>;

template <typename T>
inline auto val(T const& t) -> int
{
    if constexpr (requires { t.get(); }) {
        return t.get();
    } else {
        return static_cast<int>(t);
    }
}

} // namespace vf::lt
