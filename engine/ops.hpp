// Operation-history cases: a configuration id plus a list of raw ops.  Arguments are raw; run_case maps them
// into the currently valid range, so every history (and every shrink / mutation of one) is valid by construction.
#pragma once
#include "verif.hpp"

namespace vf {

struct RawOp {
    std::uint32_t code{0}, a{0}, b{0}, c{0};
};
struct OpsCase {
    std::uint32_t cfg{0};
    std::vector<RawOp> ops;
};

// "cfg|code a b c|code a b c|..."   (bin/check's ddmin removes `|`-separated ops)
inline auto show_case(OpsCase const& k) -> std::string
{
    std::string s = std::to_string(k.cfg);
    for (auto const& o : k.ops) {
        s += "|" + std::to_string(o.code) + " " + std::to_string(o.a) + " " + std::to_string(o.b) + " " + std::to_string(o.c);
    }
    return s;
}
inline auto parse_ops(std::string const& s) -> OpsCase
{
    OpsCase k;
    std::stringstream ss(s);
    std::string tok;
    bool first = true;
    while (std::getline(ss, tok, '|')) {
        if (first) {
            k.cfg = static_cast<std::uint32_t>(std::strtoul(tok.c_str(), nullptr, 10));
            first = false;
            continue;
        }
        RawOp o;
        unsigned long a = 0, b = 0, c = 0, d = 0;
        std::sscanf(tok.c_str(), "%lu %lu %lu %lu", &a, &b, &c, &d);
        o.code = static_cast<std::uint32_t>(a);
        o.a    = static_cast<std::uint32_t>(b);
        o.b    = static_cast<std::uint32_t>(c);
        o.c    = static_cast<std::uint32_t>(d);
        k.ops.push_back(o);
    }
    return k;
}
inline auto digest(OpsCase const& k) -> std::uint64_t
{
    auto h = mix(1469598103934665603ULL, k.cfg);
    for (auto const& o : k.ops) {
        h = mix(h, o.code);
        h = mix(h, o.a);
        h = mix(h, o.b);
        h = mix(h, o.c);
    }
    return h;
}

// Enumerate all histories of exactly `depth` ops over `alphabet` (each entry a concrete RawOp); f(OpsCase const&)
template <typename F>
inline void enum_histories(std::uint32_t cfg, std::vector<RawOp> const& alphabet, int depth, F&& f)
{
    OpsCase k;
    k.cfg = cfg;
    k.ops.resize(static_cast<std::size_t>(depth));
    std::vector<std::size_t> idx(static_cast<std::size_t>(depth), 0);
    std::uint64_t n = 0;
    while (true) {
        if (ctx().mine(n)) {
            for (int i = 0; i < depth; ++i) { k.ops[static_cast<std::size_t>(i)] = alphabet[idx[static_cast<std::size_t>(i)]]; }
            f(k);
        }
        ++n;
        int p = depth - 1;
        while (p >= 0) {
            if (++idx[static_cast<std::size_t>(p)] < alphabet.size()) { break; }
            idx[static_cast<std::size_t>(p)] = 0;
            --p;
        }
        if (p < 0) { break; }
    }
}

} // namespace vf
