// Shared engine for all harnesses (see design/engine_contract.md).
//
// A harness TU includes the etl headers it needs, then this header, and defines
//     void        vf_run(vf::Ctx&);                                  // exploration (enumeration and/or rapidcheck)
//     std::string vf_replay(std::string const& sub, std::string const& cs);  // "" = ok, otherwise mismatch detail
// The harness executable is driven by bin/check:
//     harness --mode run    --tier quick|thorough --seed N --shard i/k --out frag.json [--exclude a,b] [--memory-only]
//     harness --mode replay --sub NAME --case 'STRING' --out frag.json
// Exit codes: 0 ok, 10 mismatch (frag.failure holds sub/case/detail), anything else = crash (frag may hold the
// in-flight case written by the sanitizer death callback).
#pragma once

#include <algorithm>
#include <cstdint>
#include <cstdio>
#include <cstdlib>
#include <cstring>
#include <functional>
#include <map>
#include <set>
#include <sstream>
#include <string>
#include <unordered_set>
#include <vector>

#include <fcntl.h>
#include <signal.h>
#include <unistd.h>

extern "C" void __sanitizer_set_death_callback(void (*)(void)) __attribute__((weak));

namespace vf {

struct Ctx {
    std::string mode{"run"};
    std::string tier{"quick"};
    std::uint64_t seed{1};
    int shard{0};
    int nshards{1};
    std::string out{"frag.json"};
    std::string sub;
    std::string cs;
    std::set<std::string> exclude;
    bool memory_only{false};
    [[nodiscard]] auto thorough() const -> bool { return tier == "thorough"; }
    [[nodiscard]] auto excluded(char const* tag) const -> bool { return exclude.count(tag) != 0; }
    // true if work item i belongs to this shard
    [[nodiscard]] auto mine(std::uint64_t i) const -> bool { return static_cast<int>(i % static_cast<unsigned>(nshards)) == shard; }
};

inline auto ctx() -> Ctx&
{
    static Ctx c;
    return c;
}

// ------------------------------------------------------------------ small utilities
inline auto fnv(void const* p, std::size_t n, std::uint64_t h = 1469598103934665603ULL) -> std::uint64_t
{
    auto const* b = static_cast<unsigned char const*>(p);
    for (std::size_t i = 0; i < n; ++i) {
        h ^= b[i];
        h *= 1099511628211ULL;
    }
    return h;
}
inline auto fnv(std::string const& s, std::uint64_t h = 1469598103934665603ULL) -> std::uint64_t { return fnv(s.data(), s.size(), h); }
template <typename T>
inline auto mix(std::uint64_t h, T v) -> std::uint64_t
{
    return fnv(&v, sizeof(v), h);
}

struct Rng { // splitmix64; every random choice outside rapidcheck comes from here, seeded from VERIF_SEED
    std::uint64_t s;
    explicit Rng(std::uint64_t seed) : s{seed * 0x9E3779B97F4A7C15ULL + 0x1234567ULL} { }
    auto next() -> std::uint64_t
    {
        std::uint64_t z = (s += 0x9E3779B97F4A7C15ULL);
        z               = (z ^ (z >> 30)) * 0xBF58476D1CE4E5B9ULL;
        z               = (z ^ (z >> 27)) * 0x94D049BB133111EBULL;
        return z ^ (z >> 31);
    }
    auto below(std::uint64_t n) -> std::uint64_t { return n == 0 ? 0 : next() % n; }
    auto range(std::int64_t lo, std::int64_t hi) -> std::int64_t { return lo + static_cast<std::int64_t>(below(static_cast<std::uint64_t>(hi - lo + 1))); }
};

inline auto json_escape(std::string const& s) -> std::string
{
    std::string o;
    for (unsigned char c : s) {
        if (c == '"' || c == '\\') {
            o += '\\';
            o += static_cast<char>(c);
        } else if (c < 0x20 || c >= 0x7f) {
            char b[8];
            std::snprintf(b, sizeof b, "\\u%04x", c);
            o += b;
        } else {
            o += static_cast<char>(c);
        }
    }
    return o;
}

// ------------------------------------------------------------------ statistics
struct Stats {
    std::uint64_t evaluations{0};
    std::uint64_t nontrivial_enumerated{0}; // counted directly (enumeration without repetition)
    std::unordered_set<std::uint64_t> digests;
    bool digest_cap_hit{false};
    std::map<std::string, std::pair<std::uint64_t, std::uint64_t>> classes; // name -> (hits, total)
    std::map<std::string, std::uint64_t> excluded_known;
    std::map<std::string, std::uint64_t> counters;
    std::map<std::string, std::vector<std::string>> samples; // per sub
    std::map<std::string, std::uint64_t> sample_seen;
    std::map<std::string, std::uint64_t> sub_evals;
    std::uint64_t functional_mismatch_ignored{0};
    bool exhaustive{true};
};
inline auto stats() -> Stats&
{
    static Stats s;
    return s;
}
inline void eval(char const* sub, std::uint64_t n = 1)
{
    stats().evaluations += n;
    stats().sub_evals[sub] += n;
}
inline void nontrivial(std::uint64_t digest)
{
    auto& s = stats();
    if (s.digests.size() < (1U << 20)) { // cap: keeps a shard well under 100 MB; beyond it the count is a lower bound
        s.digests.insert(digest);
    } else {
        s.digest_cap_hit = true;
    }
}
inline void nontrivial_count(std::uint64_t n = 1) { stats().nontrivial_enumerated += n; }
inline void label(char const* name, bool hit)
{
    auto& c = stats().classes[name];
    c.first += hit ? 1 : 0;
    c.second += 1;
}
// batched form for hot loops: add `hits` of `total` observations to a class
inline void label(char const* name, std::uint64_t hits, std::uint64_t total)
{
    auto& c = stats().classes[name];
    c.first += hits;
    c.second += total;
}
inline void count(char const* name, std::uint64_t n = 1) { stats().counters[name] += n; }
inline void excluded_known(char const* tag, std::uint64_t n = 1) { stats().excluded_known[tag] += n; }
// keep a few written-out cases per sub-property: the first 2 and then reservoir up to 4
inline void sample(char const* sub, std::function<std::string()> const& mk)
{
    auto& st   = stats();
    auto& v    = st.samples[sub];
    auto& seen = st.sample_seen[sub];
    ++seen;
    if (v.size() < 3) {
        v.push_back(mk());
    } else if ((seen & (seen - 1)) == 0) { // powers of two: cheap, deterministic spread
        v[2] = mk();
    }
}

// ------------------------------------------------------------------ fragment writer
struct Failure {
    bool set{false};
    std::string sub, cs, detail;
};
inline auto failure() -> Failure&
{
    static Failure f;
    return f;
}

inline void write_frag_fd(int fd, char const* kind)
{
    // async-signal-tolerant enough: called from the death callback with plain write()
    auto& st = stats();
    std::string o;
    o += "{\"kind\":\"";
    o += kind;
    o += "\",\"mode\":\"" + ctx().mode + "\",\"tier\":\"" + ctx().tier + "\",\"seed\":" + std::to_string(ctx().seed);
    o += ",\"shard\":" + std::to_string(ctx().shard) + ",\"nshards\":" + std::to_string(ctx().nshards);
    o += ",\"evaluations\":" + std::to_string(st.evaluations);
    o += ",\"nontrivial_enumerated\":" + std::to_string(st.nontrivial_enumerated);
    o += ",\"digest_cap_hit\":" + std::string(st.digest_cap_hit ? "true" : "false");
    o += ",\"exhaustive\":" + std::string(st.exhaustive ? "true" : "false");
    o += ",\"functional_mismatch_ignored\":" + std::to_string(st.functional_mismatch_ignored);
    o += ",\"digests\":[";
    {
        bool first = true;
        for (auto d : st.digests) {
            if (!first) { o += ','; }
            first = false;
            o += std::to_string(d);
        }
    }
    o += "],\"classes\":{";
    {
        bool first = true;
        for (auto const& [k, v] : st.classes) {
            if (!first) { o += ','; }
            first = false;
            o += "\"" + json_escape(k) + "\":[" + std::to_string(v.first) + "," + std::to_string(v.second) + "]";
        }
    }
    o += "},\"counters\":{";
    {
        bool first = true;
        for (auto const& [k, v] : st.counters) {
            if (!first) { o += ','; }
            first = false;
            o += "\"" + json_escape(k) + "\":" + std::to_string(v);
        }
    }
    o += "},\"sub_evals\":{";
    {
        bool first = true;
        for (auto const& [k, v] : st.sub_evals) {
            if (!first) { o += ','; }
            first = false;
            o += "\"" + json_escape(k) + "\":" + std::to_string(v);
        }
    }
    o += "},\"excluded_known\":{";
    {
        bool first = true;
        for (auto const& [k, v] : st.excluded_known) {
            if (!first) { o += ','; }
            first = false;
            o += "\"" + json_escape(k) + "\":" + std::to_string(v);
        }
    }
    o += "},\"samples\":{";
    {
        bool first = true;
        for (auto const& [k, v] : st.samples) {
            if (!first) { o += ','; }
            first = false;
            o += "\"" + json_escape(k) + "\":[";
            for (std::size_t i = 0; i < v.size(); ++i) {
                if (i) { o += ','; }
                o += "\"" + json_escape(v[i]) + "\"";
            }
            o += "]";
        }
    }
    o += "},\"failure\":";
    auto& f = failure();
    if (f.set) {
        o += "{\"sub\":\"" + json_escape(f.sub) + "\",\"case\":\"" + json_escape(f.cs) + "\",\"detail\":\"" + json_escape(f.detail) + "\"}";
    } else {
        o += "null";
    }
    o += "}\n";
    std::size_t off = 0;
    while (off < o.size()) {
        auto n = ::write(fd, o.data() + off, o.size() - off);
        if (n <= 0) { break; }
        off += static_cast<std::size_t>(n);
    }
}
inline void write_frag(char const* kind)
{
    int fd = ::open(ctx().out.c_str(), O_WRONLY | O_CREAT | O_TRUNC, 0644);
    if (fd >= 0) {
        write_frag_fd(fd, kind);
        ::close(fd);
    }
}

// ------------------------------------------------------------------ in-flight case (for crashes / sanitizer aborts)
struct Inflight {
    char const* sub{nullptr};
    void const* obj{nullptr};
    std::string (*show)(void const*){nullptr};
};
inline auto inflight() -> Inflight&
{
    static Inflight i;
    return i;
}
template <typename Case>
struct Flight { // RAII: marks `c` as the case being executed
    Inflight saved;
    Flight(char const* sub, Case const& c) : saved{inflight()}
    {
        inflight() = Inflight{sub, &c, +[](void const* p) { return show_case(*static_cast<Case const*>(p)); }};
    }
    ~Flight() { inflight() = saved; }
    Flight(Flight const&)                    = delete;
    auto operator=(Flight const&) -> Flight& = delete;
};

inline bool g_dying = false;
inline void on_death()
{
    if (g_dying) { return; }
    g_dying = true;
    auto& f = failure();
    if (!f.set && inflight().obj != nullptr) {
        f.set    = true;
        f.sub    = inflight().sub;
        f.cs     = inflight().show(inflight().obj);
        f.detail = "crash: sanitizer report, trap or fatal signal while executing this case (see harness log)";
    }
    write_frag("crash");
}
inline void on_signal(int sig)
{
    on_death();
    ::signal(sig, SIG_DFL);
    ::raise(sig);
}

// ------------------------------------------------------------------ reporting a mismatch
// In `run` mode the first mismatch ends the process (exit 10) unless a shrinking driver (rapidcheck) is active,
// in which case the driver records the smallest failing case it saw.
inline bool g_shrinking = false;
[[noreturn]] inline void die_with_failure(std::string const& sub, std::string const& cs, std::string const& detail)
{
    auto& f  = failure();
    f.set    = true;
    f.sub    = sub;
    f.cs     = cs;
    f.detail = detail;
    write_frag("failure");
    std::fprintf(stderr, "MISMATCH sub=%s case=%s detail=%s\n", sub.c_str(), cs.c_str(), detail.c_str());
    std::fflush(nullptr);
    std::_Exit(10);
}

// mismatches that belong to another property are only counted in --memory-only mode
template <typename Case>
inline void mismatch(char const* sub, Case const& c, std::string const& detail)
{
    if (ctx().memory_only && detail.find("lifetime:") == std::string::npos) {
        ++stats().functional_mismatch_ignored;
        return;
    }
    die_with_failure(sub, show_case(c), detail);
}

// ------------------------------------------------------------------ contract handler plumbing
// Harnesses are built with contract checks ON.  By default a firing contract on a call the generator
// considers valid is a failure of the in-flight case.
struct ContractHit {
    char const* file;
    int line;
    char const* expr;
};
inline void (*g_contract_hook)(ContractHit const&) = nullptr;

[[noreturn]] inline void contract_fired(char const* file, int line, char const* expr)
{
    ContractHit h{file, line, expr};
    if (g_contract_hook != nullptr) { g_contract_hook(h); }
    if (ctx().memory_only) {
        // C02 memory mode: a contract that fires on a generated call is C05's question (spurious firing), not a memory
        // error.  The handler must not return and the object may be half-modified, so this shard stops here, cleanly.
        count("memory_only.stopped_at_contract");
        write_frag("contract-stop");
        std::fflush(nullptr);
        std::_Exit(0);
    }
    std::string d = "contract handler fired on a call the generator considers valid: ";
    {
        std::string f = file ? file : "?";
        auto at       = f.rfind("/include/etl/");
        d += at == std::string::npos ? f : f.substr(at + 9); // path relative to the include dir: independent of TETL_ROOT
    }
    d += ":" + std::to_string(line) + " ";
    d += (expr ? expr : "");
    auto& inf = inflight();
    if (inf.obj != nullptr) { die_with_failure(inf.sub, inf.show(inf.obj), d); }
    die_with_failure("?", "?", d);
}

} // namespace vf

#if defined(TETL_ENABLE_CUSTOM_ASSERT_HANDLER)
namespace etl {
template <typename Assertion>
[[noreturn]] auto assert_handler(Assertion const& msg) -> void
{
    vf::contract_fired(msg.file, msg.line, msg.expression);
}
} // namespace etl
#endif

// libubsan carries its own copy of sanitizer_common, so its fatal reports do not run the ASan death callback:
// hook the report itself (all UBSan checks are built -fno-sanitize-recover, so every report is fatal).
#if !defined(VF_NO_MAIN)
    #define VF_HAS_UBSAN_HOOK 1
extern "C" void __ubsan_on_report(void) { vf::on_death(); }
#endif

// ------------------------------------------------------------------ to be provided by the harness
void vf_run(vf::Ctx&);
std::string vf_replay(std::string const& sub, std::string const& cs);

#if !defined(VF_NO_MAIN)
int main(int argc, char** argv)
{
    auto& c = vf::ctx();
    for (int i = 1; i < argc; ++i) {
        std::string a = argv[i];
        auto val      = [&]() -> std::string { return i + 1 < argc ? std::string(argv[++i]) : std::string(); };
        if (a == "--mode") {
            c.mode = val();
        } else if (a == "--tier") {
            c.tier = val();
        } else if (a == "--seed") {
            c.seed = std::strtoull(val().c_str(), nullptr, 10);
        } else if (a == "--shard") {
            auto v = val();
            std::sscanf(v.c_str(), "%d/%d", &c.shard, &c.nshards);
        } else if (a == "--out") {
            c.out = val();
        } else if (a == "--sub") {
            c.sub = val();
        } else if (a == "--case") {
            c.cs = val();
        } else if (a == "--memory-only") {
            c.memory_only = true;
        } else if (a == "--exclude") {
            std::stringstream ss(val());
            std::string t;
            while (std::getline(ss, t, ',')) {
                if (!t.empty()) { c.exclude.insert(t); }
            }
        }
    }
    if (c.seed == 0) { c.seed = 1; }
    if (&__sanitizer_set_death_callback != nullptr) { __sanitizer_set_death_callback(vf::on_death); }
    // SEGV/BUS/FPE are left to the sanitizer runtime (it reports and then calls the death callback)
    for (int s : {SIGILL, SIGABRT, SIGTRAP}) { ::signal(s, vf::on_signal); }

    if (c.mode == "replay") {
        auto d = vf_replay(c.sub, c.cs);
        if (!d.empty()) { vf::die_with_failure(c.sub, c.cs, d); }
        vf::write_frag("replay-ok");
        std::printf("REPLAY-OK\n");
        return 0;
    }
    vf_run(c);
    vf::write_frag("run");
    return 0;
}
#endif
