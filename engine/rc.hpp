// rapidcheck driver: generated OpsCase histories (shrunk by removing ops and shrinking arguments) and generic
// generated cases.  rapidcheck is configured programmatically (seed / cases / size come from bin/check).
#pragma once
#include "ops.hpp"

#include <rapidcheck.h>
#include <cstdlib>

namespace vf {

// Raw argument generator biased to boundaries: small numbers, and "all ones" (maps to size / npos after modulo).
inline auto gen_arg() -> rc::Gen<std::uint32_t>
{
    return rc::gen::weightedOneOf<std::uint32_t>({
        {6, rc::gen::inRange<std::uint32_t>(0, 8)},
        {2, rc::gen::inRange<std::uint32_t>(0, 300)},
        {1, rc::gen::element<std::uint32_t>(0xFFFFFFFFU, 0xFFFFFFFEU, 255U, 256U, 15U, 16U)},
        {1, rc::gen::arbitrary<std::uint32_t>()},
    });
}

inline auto gen_op(std::uint32_t ncodes) -> rc::Gen<RawOp>
{
    // resize(): rapidcheck's inRange collapses towards the lower bound at small sizes; op codes and arguments must not
    return rc::gen::resize(100, rc::gen::map(rc::gen::tuple(rc::gen::inRange<std::uint32_t>(0, ncodes), gen_arg(), gen_arg(), gen_arg()), [](auto const& t) {
        return RawOp{std::get<0>(t), std::get<1>(t), std::get<2>(t), std::get<3>(t)};
    }));
}

inline auto gen_ops_case(std::uint32_t ncfg, std::uint32_t ncodes, int max_ops) -> rc::Gen<OpsCase>
{
    // length is drawn explicitly so histories are long even at small rapidcheck sizes
    return rc::gen::mapcat(rc::gen::resize(100, rc::gen::inRange<int>(1, max_ops + 1)), [=](int len) {
        return rc::gen::map(rc::gen::tuple(rc::gen::resize(100, rc::gen::inRange<std::uint32_t>(0, ncfg)), rc::gen::container<std::vector<RawOp>>(static_cast<std::size_t>(len), gen_op(ncodes))),
            [](auto const& t) {
                return OpsCase{std::get<0>(t), std::get<1>(t)};
            });
    });
}

// Shrinkable history generator: rapidcheck's container shrinking for fixed-count containers only shrinks elements, so
// shrink by hand: remove chunks of ops, then shrink arguments toward 0.
inline auto shrink_ops(OpsCase const& k) -> rc::Seq<OpsCase>
{
    std::vector<OpsCase> out;
    auto n = k.ops.size();
    for (std::size_t chunk = n; chunk >= 1; chunk /= 2) {
        for (std::size_t start = 0; start + chunk <= n; start += chunk) {
            OpsCase c = k;
            c.ops.erase(c.ops.begin() + static_cast<std::ptrdiff_t>(start), c.ops.begin() + static_cast<std::ptrdiff_t>(start + chunk));
            out.push_back(std::move(c));
        }
        if (chunk == 1) { break; }
    }
    for (std::size_t i = 0; i < n; ++i) {
        auto try_field = [&](std::uint32_t RawOp::*f) {
            auto v = k.ops[i].*f;
            if (v == 0) { return; }
            for (std::uint32_t nv : {0U, v / 2, v - 1}) {
                if (nv == v) { continue; }
                OpsCase c    = k;
                c.ops[i].*f = nv;
                out.push_back(std::move(c));
            }
        };
        try_field(&RawOp::a);
        try_field(&RawOp::b);
        try_field(&RawOp::c);
    }
    return rc::seq::fromContainer(std::move(out));
}

inline auto gen_history(std::uint32_t ncfg, std::uint32_t ncodes, int max_ops) -> rc::Gen<OpsCase>
{
    auto g = rc::gen::noShrink(gen_ops_case(ncfg, ncodes, max_ops));
    return rc::gen::shrink(std::move(g), [](OpsCase const& k) { return shrink_ops(k); });
}

// Run `cases` generated cases of `gen` through `prop` (returns "" if ok, detail otherwise).  On failure rapidcheck
// shrinks; the smallest failing case seen is recorded and the process exits 10.
template <typename Case, typename Prop>
inline void rc_check(char const* sub, rc::Gen<Case> gen, int cases, int max_size, Prop prop)
{
    rc::detail::TestParams params;
    params.seed       = ctx().seed * 1000003ULL + fnv(std::string(sub));
    params.maxSuccess = cases;
    params.maxSize    = max_size;
    rc::detail::TestMetadata md;
    md.id          = sub;
    md.description = sub;
    std::string last_cs, last_detail;
    bool any_fail = false;
    // Shrink budget: rapidcheck has no limit on shrink steps, and a change that makes most histories fail can keep it
    // walking `v - 1` argument candidates for many minutes.  After the first failure at most `shrink_budget` further
    // evaluations are judged; beyond that every candidate is reported as passing, which ends the shrink at the smallest
    // failing case seen so far (still a real failing case - it is re-confirmed by replay before VIOLATION is printed).
    std::uint64_t evals_after_fail = 0;
    std::uint64_t shrink_budget    = 20000;
    if (char const* e = std::getenv("VERIF_SHRINK_BUDGET")) { shrink_budget = std::strtoull(e, nullptr, 10); }
    auto saved    = ctx().memory_only;
    auto result   = rc::detail::checkTestable(
        [&]() {
            auto c = *gen;
            if (any_fail && ++evals_after_fail > shrink_budget) { return; }
            Flight<Case> fl(sub, c);
            auto d = prop(c);
            if (!d.empty() && ctx().memory_only && d.find("lifetime:") == std::string::npos) {
                // C02 memory mode: functional mismatches belong to the owning property; only sanitizer reports,
                // traps and crashes (which never return here) count - and lifetime-registry violations (an object
                // read, assigned or destroyed outside its lifetime is undefined behaviour even when the storage is
                // inline and the sanitizers cannot see it)
                ++stats().functional_mismatch_ignored;
                d.clear();
            }
            if (!d.empty()) {
                any_fail    = true;
                last_cs     = show_case(c);
                last_detail = d;
                RC_FAIL(d);
            }
        },
        md, params);
    (void)saved;
    if (!result.template is<rc::detail::SuccessResult>()) {
        if (any_fail) {
            // after shrinking, rapidcheck re-runs nothing: the last *failing* execution is the minimum it accepted
            die_with_failure(sub, last_cs, last_detail);
        }
        std::ostringstream os;
        rc::detail::printResultMessage(result, os);
        die_with_failure(sub, "?", "rapidcheck gave up / generator failure: " + os.str());
    }
}

} // namespace vf

namespace rc {
template <>
struct Arbitrary<vf::OpsCase> {
    static Gen<vf::OpsCase> arbitrary() { return vf::gen_history(1, 16, 20); }
};
inline void showValue(vf::OpsCase const& k, std::ostream& os) { os << vf::show_case(k); }
} // namespace rc
