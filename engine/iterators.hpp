// Iterator-category wrappers over a pointer, usable with both etl:: and std:: algorithms (the category tag derives
// from both tag hierarchies).  Every dereference / increment is range-checked against [lo, hi] and logged, so a
// harness can assert "nothing outside the given range was touched".
#pragma once
#include <etl/iterator.hpp>

#include <cstddef>
#include <iterator>

namespace vf::it {

struct input_tag : etl::input_iterator_tag, std::input_iterator_tag { };
struct forward_tag : etl::forward_iterator_tag, std::forward_iterator_tag { };
struct bidi_tag : etl::bidirectional_iterator_tag, std::bidirectional_iterator_tag { };

inline bool g_out_of_range = false; // latched; harness resets and polls

template <typename T, typename Tag>
struct Iter {
    using iterator_category = Tag;
    using value_type        = std::remove_cv_t<T>;
    using difference_type   = std::ptrdiff_t;
    using pointer           = T*;
    using reference         = T&;

    T* p{nullptr};
    T* lo{nullptr};
    T* hi{nullptr}; // one past the last dereferenceable element

    Iter() = default;
    Iter(T* p_, T* lo_, T* hi_) : p{p_}, lo{lo_}, hi{hi_} { }

    auto operator*() const -> reference
    {
        if (p < lo || p >= hi) {
            g_out_of_range = true;
            static value_type dummy{};
            return const_cast<reference>(static_cast<value_type const&>(dummy));
        }
        return *p;
    }
    auto operator->() const -> pointer { return &**this; }
    auto operator++() -> Iter&
    {
        if (p >= hi) { g_out_of_range = true; }
        ++p;
        return *this;
    }
    auto operator++(int) -> Iter
    {
        auto t = *this;
        ++*this;
        return t;
    }
    auto operator--() -> Iter&
        requires(std::is_base_of_v<std::bidirectional_iterator_tag, Tag>)
    {
        if (p <= lo) { g_out_of_range = true; }
        --p;
        return *this;
    }
    auto operator--(int) -> Iter
        requires(std::is_base_of_v<std::bidirectional_iterator_tag, Tag>)
    {
        auto t = *this;
        --*this;
        return t;
    }
    friend auto operator==(Iter const& a, Iter const& b) -> bool { return a.p == b.p; }
    friend auto operator!=(Iter const& a, Iter const& b) -> bool { return a.p != b.p; }
};

template <typename T>
using Fwd = Iter<T, forward_tag>;
template <typename T>
using Bidi = Iter<T, bidi_tag>;
template <typename T>
using In = Iter<T, input_tag>;

} // namespace vf::it
