#!/usr/bin/env python3
"""E4 generator for property C19: emits the table of etl::extents<IndexType, Extents...> instantiations one
translation unit of props/C19_mdspan.cpp checks.

    python3 gen/C19_gen.py --part K --nparts N --out <builddir> --seed S --tier quick|thorough

writes <builddir>/C19_types_<K>.inc, one line per type:

    C19_TYPE("i8[2,d,3]", std::int8_t, 2, D, 3)

The *quick* table is the same for every seed (so that a replay never depends on VERIF_SEED):
    every static/dynamic pattern of rank 0..3 over static values {0,2,3} (85 patterns) and every static/dynamic mask of
    rank 4 (16 patterns, static values rotated through {2,3,0}), each with one index type (two for rank 1 and 2) chosen
    by rotation so that each of the 8 index types int8..uint64 meets every rank and many masks;  plus the patterns
    [], [d], [d,d], [2,d] with all 8 index types, [3], [d,3] with 4, [d,d,d] with int8/uint8, [d,d,d,d] with
    int8/uint8/uint64.  Three quarters of the rank-3/4 rotation patterns are "light" (C19_TYPE_L: no mdspan<left/right>
    and mdarray suites).  About 155 types: one full type costs ~3-4 s of compile time with ASan+UBSan.
The *thorough* table adds a seeded sample of 300 further types (rank 1..4, static values 0..4, any index type).
Types whose static extents alone are not representable (std: Mandates) are never emitted.
Every type named by a saved case (replay/C19, violations/C19, known_findings.json probes) of harness C19_mdspan_<K> is
added to part K with the full suite, so a replay of a case found with another seed or tier always finds its instantiation.
Python 3 standard library only; deterministic in (seed, tier, part, nparts, saved cases).
"""
import argparse
import glob
import json
import os
import random
import re
import sys

VERIF = os.path.dirname(os.path.dirname(os.path.abspath(__file__)))

ITYPES = [("i8", "std::int8_t", 127), ("u8", "std::uint8_t", 255), ("i16", "std::int16_t", 32767),
          ("u16", "std::uint16_t", 65535), ("i32", "std::int32_t", 2**31 - 1), ("u32", "std::uint32_t", 2**32 - 1),
          ("i64", "std::int64_t", 2**63 - 1), ("u64", "std::uint64_t", 2**64 - 1)]
IBYNAME = {t[0]: t for t in ITYPES}


def name_of(it, pat):
    return "%s[%s]" % (it, ",".join("d" if p is None else str(p) for p in pat))


def static_ok(it, pat):
    """static extents representable; if there is no dynamic extent the whole index space must be representable"""
    mx = IBYNAME[it][2]
    if any(p is not None and p > mx for p in pat):
        return False
    if all(p is not None for p in pat):
        prod = 1
        for p in pat:
            prod *= p
        if prod > mx:
            return False
    return True


def patterns(rank, values):
    if rank == 0:
        return [()]
    out = []
    for head in patterns(rank - 1, values):
        for v in values:
            out.append(head + (v,))
    return out


def quick_table():
    """returns [(index type, pattern, full)]:  pattern coverage (every pattern, index type by rotation) + index-type
    coverage (representative patterns of every rank with all / half of the 8 index types).
    full=True : every sub-check;  full=False ("light") : extents + the three layout mappings + mdspan over layout_stride,
    i.e. without the mdspan<left/right> and mdarray suites, whose code does not depend on the static/dynamic pattern
    beyond what the mapping and extents checks already exercise (they cost 70 % of the compile time of a type)."""
    types = []

    def add(it, pat, full):
        for i, t in enumerate(types):
            if t[0] == it and t[1] == pat:
                types[i] = (it, pat, t[2] or full)
                return
        types.append((it, pat, full))

    allit = [t[0] for t in ITYPES]
    k = 0
    for rank in range(0, 4):
        for pat in patterns(rank, [0, 2, 3, None]):
            n = {0: 8, 1: 2, 2: 2, 3: 1}[rank]
            for j in range(n):
                add(ITYPES[(k + 3 * j) % 8][0], pat, rank <= 2 or k % 4 == 1)
            k += 1
    rot = [2, 3, 0]
    for mask in range(16):
        pat = tuple(None if (mask >> (3 - i)) & 1 else rot[(mask + i) % 3] for i in range(4))
        add(ITYPES[(mask * 3 + 1) % 8][0], pat, mask % 4 == 2)
    for pat in [(None,), (None, None), (2, None)]:
        for it in allit:
            add(it, pat, True)
    for pat in [(3,), (None, 3)]:
        for it in ("i8", "u16", "i32", "u64"):
            add(it, pat, True)
    for it in ("i8", "u8"):
        add(it, (None, None, None), True)
    for it in ("i8", "u8", "u64"):
        add(it, (None, None, None, None), True)
    return types


def thorough_extra(seed, have):
    rng = random.Random(0xC19 * 1000003 + seed)
    out = []
    seen = set(have)
    guard = 0
    while len(out) < 300 and guard < 100000:
        guard += 1
        rank = rng.choice([1, 2, 3, 3, 4, 4, 4])
        pat = tuple(rng.choice([None, None, 0, 1, 2, 3, 4]) for _ in range(rank))
        it = rng.choice(ITYPES)[0]
        key = (it, pat)
        if key in seen or not static_ok(it, pat):
            continue
        seen.add(key)
        out.append((it, pat, True))
    return out


TYPE_RE = re.compile(r"^(i8|u8|i16|u16|i32|u32|i64|u64)\[([0-9d,]*)\]$")


def parse_name(s):
    m = TYPE_RE.match(s)
    if not m:
        return None
    body = m.group(2)
    pat = tuple() if body == "" else tuple(None if x == "d" else int(x) for x in body.split(","))
    if len(pat) > 4 or any(p is not None and p > 64 for p in pat):
        return None
    return (m.group(1), pat)


def saved_case_types(part):
    """types named by saved cases whose harness is this part (C19_mdspan_<part>)"""
    mine = "C19_mdspan_%d" % part
    cases = []
    for d in ("replay", "violations"):
        for p in sorted(glob.glob(os.path.join(VERIF, d, "C19", "*.json"))):
            try:
                with open(p) as f:
                    j = json.load(f)
                if str(j.get("harness", "")) == mine:
                    cases.append(str(j.get("case", "")))
            except Exception:
                pass
    try:
        with open(os.path.join(VERIF, "known_findings.json")) as f:
            for kf in json.load(f).get("findings", []):
                pr = kf.get("probe", {})
                if isinstance(pr, dict) and str(pr.get("harness", "")) == mine:
                    cases.append(str(pr.get("case", "")))
    except Exception:
        pass
    out = []
    for cs in cases:
        t = parse_name(cs.split(" ")[0]) if cs else None
        if t is not None and static_ok(*t) and t not in out:
            out.append(t)
    return out


def main():
    ap = argparse.ArgumentParser()
    ap.add_argument("--part", type=int, default=0)
    ap.add_argument("--nparts", type=int, default=1)
    ap.add_argument("--out", required=True)
    ap.add_argument("--seed", type=int, default=1)
    ap.add_argument("--tier", default="quick")
    ap.add_argument("--list", action="store_true")
    a = ap.parse_args()

    types = [t for t in quick_table() if static_ok(t[0], t[1])]
    if a.tier == "thorough":
        types = [(it, pat, True) for it, pat, _ in types]  # thorough: every sub-check for every type
        types += thorough_extra(a.seed, [(it, pat) for it, pat, _ in types])
    # full types first, then light ones, each round-robin over the parts: every part gets the same mix of cost
    order = [t for t in types if t[2]] + [t for t in types if not t[2]]
    mine = [t for i, t in enumerate(order) if i % a.nparts == a.part]
    for it, pat in saved_case_types(a.part):
        mine = [t for t in mine if not (t[0] == it and t[1] == pat)] + [(it, pat, True)]
    lines = ["// generated by gen/C19_gen.py --part %d --nparts %d --seed %d --tier %s : %d types (of %d)" % (a.part, a.nparts, a.seed, a.tier, len(mine), len(types))]
    for it, pat, full in mine:
        args = "".join(", " + ("D" if p is None else str(p)) for p in pat)
        lines.append('%s("%s", %s%s)' % ("C19_TYPE" if full else "C19_TYPE_L", name_of(it, pat), IBYNAME[it][1], args))
    path = os.path.join(a.out, "C19_types_%d.inc" % a.part)
    tmp = path + ".tmp%d" % os.getpid()
    with open(tmp, "w") as f:
        f.write("\n".join(lines) + "\n")
    os.replace(tmp, path)
    if a.list:
        print("\n".join(lines))
    return 0


if __name__ == "__main__":
    sys.exit(main())
