#!/usr/bin/env python3
"""E4 generator for property C19: emits the table of etl::extents<IndexType, Extents...> instantiations one
translation unit of props/C19_mdspan.cpp checks.

    python3 gen/C19_gen.py --part K --nparts N --out <builddir> --seed S --tier quick|thorough

writes <builddir>/C19_types_<K>.inc, one line per type:

    C19_TYPE("i8[2,d,3]", std::int8_t, 2, D, 3)

The *quick* table is the same for every seed (so that a replay never depends on VERIF_SEED):
    every static/dynamic pattern of rank 1..3 over static values {0,2,3} (84 patterns) and every static/dynamic mask of
    rank 4 (16 patterns, static values rotated through {2,3,0}), each once, index type by rotation so that each of the
    8 index types int8..uint64 meets every rank and many masks;  rank 0 with int8/uint64;  [d] and [d,d] with all 8
    index types, [2,d] with two more, [d,d,d,d] with int8/uint8.  About 120 types at three instantiation levels (see
    quick_table): the compile time of one FULL type is ~3-4 s and ~25 MB of compiler memory with ASan+UBSan, and the
    property is limited to 6 translation units, so the expensive suites go to a representative subset.
The *thorough* table raises every quick type by one level and adds a seeded sample of --extra (100) further types
    (rank 1..4, static values 0..4, any index type; a third FULL, the rest LIGHT).
Types whose static extents alone are not representable (std: Mandates) are never emitted.
Every part additionally gets its share of the C19_WIDE / C19_EQ entries (see wide_and_eq_entries).
Every type named by a saved case (replay/C19, violations/C19, known_findings.json probes) of harness C19_mdspan_<K> is
added to part K with the full suite, so a replay of a case found with another seed or tier always finds its instantiation.
Python 3 standard library only; deterministic in (seed, tier, part, nparts, saved cases).
"""
import argparse
import glob
import json
import os
import random
import re
import sys

VERIF = os.path.dirname(os.path.dirname(os.path.abspath(__file__)))

ITYPES = [("i8", "std::int8_t", 127), ("u8", "std::uint8_t", 255), ("i16", "std::int16_t", 32767),
          ("u16", "std::uint16_t", 65535), ("i32", "std::int32_t", 2**31 - 1), ("u32", "std::uint32_t", 2**32 - 1),
          ("i64", "std::int64_t", 2**63 - 1), ("u64", "std::uint64_t", 2**64 - 1)]
IBYNAME = {t[0]: t for t in ITYPES}


def name_of(it, pat):
    return "%s[%s]" % (it, ",".join("d" if p is None else str(p) for p in pat))


def static_ok(it, pat):
    """static extents representable; if there is no dynamic extent the whole index space must be representable"""
    mx = IBYNAME[it][2]
    if any(p is not None and p > mx for p in pat):
        return False
    if all(p is not None for p in pat):
        prod = 1
        for p in pat:
            prod *= p
        if prod > mx:
            return False
    return True


def patterns(rank, values):
    if rank == 0:
        return [()]
    out = []
    for head in patterns(rank - 1, values):
        for v in values:
            out.append(head + (v,))
    return out


FULL, LIGHT, CORE = 2, 1, 0
MACRO = {FULL: "C19_TYPE", LIGHT: "C19_TYPE_L", CORE: "C19_TYPE_C"}


def quick_table():
    """returns [(index type, pattern, level)].  Levels (what is instantiated for the type):
       CORE  : extents (all constructors, conversions) + layout_left/right mappings               (~27 % of FULL)
       LIGHT : CORE + layout_stride (all stride variants) + mdspan over layout_stride + transpose   (~43 % of FULL)
       FULL  : LIGHT + mdspan over layout_left/right (all constructors, conversion) + mdarray
    The static/dynamic pattern of an extents type only matters inside etl::extents (storage of the dynamic extents,
    _dynamic_index, constructors); mappings, mdspan and mdarray reach it through extent()/fwd_prod/rev_prod.  So every
    pattern gets at least CORE, and the expensive suites are instantiated for a representative subset."""
    types = []

    def add(it, pat, level):
        for i, t in enumerate(types):
            if t[0] == it and t[1] == pat:
                types[i] = (it, pat, max(t[2], level))
                return
        types.append((it, pat, level))

    allit = [t[0] for t in ITYPES]
    add("i8", (), FULL)
    add("u64", (), FULL)
    k = 0
    for rank in range(1, 4):
        for pat in patterns(rank, [0, 2, 3, None]):
            it = ITYPES[k % 8][0]
            if rank == 1:
                level = LIGHT
            elif rank == 2:
                level = FULL if k % 2 == 0 else LIGHT
            else:
                level = FULL if k % 8 == 1 else LIGHT if k % 8 == 5 else CORE
            add(it, pat, level)
            k += 1
    rot = [2, 3, 0]
    for mask in range(16):
        pat = tuple(None if (mask >> (3 - i)) & 1 else rot[(mask + i) % 3] for i in range(4))
        level = FULL if mask in (2, 7, 13) else LIGHT if mask in (4, 9, 14) else CORE
        add(ITYPES[(mask * 3 + 1) % 8][0], pat, level)
    # index-type coverage
    for it in allit:
        add(it, (None,), FULL)
        add(it, (None, None), FULL if it in ("i8", "u16", "i32", "u64") else LIGHT)
    add("u8", (2, None), FULL)
    add("i64", (2, None), FULL)
    add("i8", (None, None, None, None), FULL)
    add("u8", (None, None, None, None), LIGHT)
    return types


def thorough_extra(seed, have, count):
    rng = random.Random(0xC19 * 1000003 + seed)
    out = []
    seen = set(have)
    guard = 0
    while len(out) < count and guard < 100000:
        guard += 1
        rank = rng.choice([1, 2, 3, 3, 4, 4, 4])
        pat = tuple(rng.choice([None, None, 0, 1, 2, 3, 4]) for _ in range(rank))
        it = rng.choice(ITYPES)[0]
        key = (it, pat)
        if key in seen or not static_ok(it, pat):
            continue
        seen.add(key)
        out.append((it, pat, FULL if len(out) % 3 == 0 else LIGHT))
    return out


def wide_and_eq_entries():
    """value-range checks (same for every seed and tier), spread round-robin over the parts:
       C19_WIDE : extents types whose dynamic extents take LARGE values (pure arithmetic against 128-bit closed forms)
       C19_EQ   : pairs of extents types compared with operator== / != (different index types, patterns, ranks)"""
    wide = []
    for it, _, _ in ITYPES:
        for rank in (1, 2, 3, 4):
            wide.append((it, (None,) * rank))
    for it in ("i16", "u16", "i32", "u32", "i64", "u64"):
        wide.append((it, (None, 3, None)))
    for it in ("i32", "u32", "i64", "u64"):
        wide.append((it, (1000, None)))
    eq = []
    names = [t[0] for t in ITYPES]
    for i, a in enumerate(names):
        for b in names[i:]:
            eq.append(((a, (None,)), (b, (None,))))
    for a, b in [("u8", "i32"), ("i8", "u16"), ("u16", "i64"), ("i32", "u64"), ("u32", "i64"), ("i16", "u32"), ("u8", "u64"), ("i64", "u64"), ("i32", "i32")]:
        eq.append(((a, (None, None)), (b, (None, None))))
        eq.append(((a, (None, None)), (b, (300, None))))
        eq.append(((a, (None, 3)), (b, (None, None))))
        eq.append(((a, (44, None)), (b, (300, None))))
        eq.append(((a, (None,)), (b, (None, None))))
        eq.append(((a, (None, None)), (b, (None,))))
        eq.append(((a, ()), (b, (None,))))
        eq.append(((a, ()), (b, ())))
    return wide, eq


def cxx_extents(it, pat):
    return "etl::extents<%s%s>" % (IBYNAME[it][1], "".join(", " + ("D" if p is None else str(p)) for p in pat))


TYPE_RE = re.compile(r"^(i8|u8|i16|u16|i32|u32|i64|u64)\[([0-9d,]*)\]$")


def parse_name(s):
    m = TYPE_RE.match(s)
    if not m:
        return None
    body = m.group(2)
    pat = tuple() if body == "" else tuple(None if x == "d" else int(x) for x in body.split(","))
    if len(pat) > 4 or any(p is not None and p > 64 for p in pat):
        return None
    return (m.group(1), pat)


def saved_case_types(part):
    """types named by saved cases whose harness is this part (C19_mdspan_<part>)"""
    mine = "C19_mdspan_%d" % part
    cases = []
    for d in ("replay", "violations"):
        for p in sorted(glob.glob(os.path.join(VERIF, d, "C19", "*.json"))):
            try:
                with open(p) as f:
                    j = json.load(f)
                if str(j.get("harness", "")) == mine and str(j.get("sub", "")) not in ("wide", "equality", "ctad"):
                    cases.append(str(j.get("case", "")))
            except Exception:
                pass
    try:
        with open(os.path.join(VERIF, "known_findings.json")) as f:
            for kf in json.load(f).get("findings", []):
                pr = kf.get("probe", {})
                if isinstance(pr, dict) and str(pr.get("harness", "")) == mine:
                    cases.append(str(pr.get("case", "")))
    except Exception:
        pass
    out = []
    for cs in cases:
        t = parse_name(cs.split(" ")[0]) if cs else None
        if t is not None and static_ok(*t) and t not in out:
            out.append(t)
    return out


def main():
    ap = argparse.ArgumentParser()
    ap.add_argument("--part", type=int, default=0)
    ap.add_argument("--nparts", type=int, default=1)
    ap.add_argument("--out", required=True)
    ap.add_argument("--seed", type=int, default=1)
    ap.add_argument("--tier", default="quick")
    ap.add_argument("--extra", type=int, default=100, help="thorough: size of the seeded sample of further types")
    ap.add_argument("--list", action="store_true")
    a = ap.parse_args()

    types = [t for t in quick_table() if static_ok(t[0], t[1])]
    if a.tier == "thorough":
        types = [(it, pat, min(FULL, lv + 1)) for it, pat, lv in types]  # one level up for every quick type
        types += thorough_extra(a.seed, [(it, pat) for it, pat, _ in types], a.extra)
    # sorted by level, then round-robin over the parts: every part gets the same mix of cost
    order = [t for lv in (FULL, LIGHT, CORE) for t in types if t[2] == lv]
    mine = [t for i, t in enumerate(order) if i % a.nparts == a.part]
    for it, pat in saved_case_types(a.part):
        mine = [t for t in mine if not (t[0] == it and t[1] == pat)] + [(it, pat, FULL)]
    lines = ["// generated by gen/C19_gen.py --part %d --nparts %d --seed %d --tier %s : %d types (of %d)" % (a.part, a.nparts, a.seed, a.tier, len(mine), len(types))]
    for it, pat, lv in mine:
        args = "".join(", " + ("D" if p is None else str(p)) for p in pat)
        lines.append('%s("%s", %s%s)' % (MACRO[lv], name_of(it, pat), IBYNAME[it][1], args))
    wide, eq = wide_and_eq_entries()
    for i, (it, pat) in enumerate(wide):
        if i % a.nparts == a.part:
            args = "".join(", " + ("D" if p is None else str(p)) for p in pat)
            lines.append('C19_WIDE("%s", %s%s)' % (name_of(it, pat), IBYNAME[it][1], args))
    for i, (x, y) in enumerate(eq):
        if (i + 2) % a.nparts == a.part:
            lines.append('C19_EQ("eq:%s~%s", (%s), (%s))' % (name_of(*x), name_of(*y), cxx_extents(*x), cxx_extents(*y)))
    path = os.path.join(a.out, "C19_types_%d.inc" % a.part)
    tmp = path + ".tmp%d" % os.getpid()
    with open(tmp, "w") as f:
        f.write("\n".join(lines) + "\n")
    os.replace(tmp, path)
    if a.list:
        print("\n".join(lines))
    return 0


if __name__ == "__main__":
    sys.exit(main())
