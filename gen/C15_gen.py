#!/usr/bin/env python3
"""gen/C15_gen.py -- generated-program engine (E4) for property C15.

    python3 gen/C15_gen.py --part P --out BUILDDIR --seed N --tier quick|thorough [--std-check] [--no-prepass]

Writes  BUILDDIR/C15_<P>.cfg.hpp  (mode switches) and  BUILDDIR/C15_<P>.gen.hpp  (type zoo, the aliases of the
generated types and the obligation table: ONE obligation per source line) for props/C15_traits.cpp.

Type grammar: a base zoo (arithmetic types, void, nullptr_t, enums, classes of every special-member flavour,
unions, function types incl. cv/ref/noexcept qualified ones, member pointers) closed under the decorators
const, volatile, *, &, &&, [3], [] to depth 2.  A decorator is applied ONLY where the language allows it and
where it does not merely re-spell an existing type.  Every trait carries a domain predicate that encodes the
precondition of the *std* trait (complete type etc.), so the std side of every obligation is well-formed.

Hard errors: after writing the table the generator runs `g++ -fsyntax-only` on the harness TU (pre-pass), reads
the `<gen.hpp>:LINE` locations from GCC's instantiation backtraces, blanks those lines, repeats until the TU is
clean, re-checks the removed lines with only the std side (namespace etl = std) and records them in the table
`c15_ill[]`, which the harness reports at RUN TIME ("etl::X<T> is ill-formed although std::X<T> is valid").
If the etl headers do not compile even with an empty table the part is built in degraded mode and reports that.
"""
import argparse
import glob
import hashlib
import json
import os
import random
import re
import subprocess
import sys
from fractions import Fraction

VERIF = os.path.dirname(os.path.dirname(os.path.abspath(__file__)))
TETL_ROOT = os.environ.get("TETL_ROOT", "/repo")

# ------------------------------------------------------------------------------------------------ zoo (C++ text)
ZOO_CPP = r'''
namespace z {
struct Incomplete;
enum E0 { e0a, e0b };
enum EU8 : unsigned char { eu8a };
enum EI64 : long long { ei64a = -1 };
enum ENeg { eneg = -1, epos = 1 };
enum class SE { a, b };
enum class SE16 : short { a };
enum class SEU64 : unsigned long { a };
enum class SEB : bool { f, t };
enum class SEC : char { a };
struct Empty { };
struct EmptyFinal final { };
struct Agg { int a; float b; };
struct AggArr { int a[3]; Agg g; };
struct Poly { virtual void f(); };
struct PolyVD { virtual ~PolyVD(); };
struct Abstract { virtual void f() = 0; };
struct AbstractPD { virtual void f() = 0; protected: ~AbstractPD(); };
struct Final final { int x; };
struct PolyFinal final : Poly { void f() override; };
struct Derived : Agg { int c; };
struct DerivedEmpty : Empty { };
struct PrivDerived : private Agg { };
struct VirtDerived : virtual Empty { };
struct MultiDerived : Derived, DerivedEmpty { };
struct AbstractImpl : Abstract { void f() override; };
struct NonTrivial { NonTrivial(); NonTrivial(NonTrivial const&); NonTrivial(NonTrivial&&); NonTrivial& operator=(NonTrivial const&); NonTrivial& operator=(NonTrivial&&); ~NonTrivial(); int x; };
union U { int i; float f; };
union UEmpty { };
union UNonTrivial { NonTrivial n; int i; };
struct DelDefault { DelDefault() = delete; int x; };
struct MoveOnly { MoveOnly(); MoveOnly(MoveOnly&&) noexcept; MoveOnly& operator=(MoveOnly&&) noexcept; MoveOnly(MoveOnly const&) = delete; MoveOnly& operator=(MoveOnly const&) = delete; };
struct CopyOnly { CopyOnly(); CopyOnly(CopyOnly const&); CopyOnly& operator=(CopyOnly const&); CopyOnly(CopyOnly&&) = delete; CopyOnly& operator=(CopyOnly&&) = delete; };
struct NoCopyNoMove { NoCopyNoMove() = default; NoCopyNoMove(NoCopyNoMove const&) = delete; NoCopyNoMove& operator=(NoCopyNoMove const&) = delete; };
struct DelDtor { ~DelDtor() = delete; };
struct ThrowCtor { ThrowCtor() noexcept(false); ThrowCtor(ThrowCtor const&) noexcept(false); ThrowCtor(ThrowCtor&&) noexcept(false); ThrowCtor& operator=(ThrowCtor const&) noexcept(false); ThrowCtor& operator=(ThrowCtor&&) noexcept(false); };
struct ThrowDtor { ~ThrowDtor() noexcept(false); };
struct NothrowAll { NothrowAll() noexcept; NothrowAll(NothrowAll const&) noexcept; NothrowAll(NothrowAll&&) noexcept; NothrowAll& operator=(NothrowAll const&) noexcept; NothrowAll& operator=(NothrowAll&&) noexcept; ~NothrowAll(); };
struct Trivial { int x; Trivial() = default; Trivial(Trivial const&) = default; Trivial(Trivial&&) = default; Trivial& operator=(Trivial const&) = default; Trivial& operator=(Trivial&&) = default; ~Trivial() = default; };
struct NonTrivialDtor { ~NonTrivialDtor(); };
struct PrivCtor { private: PrivCtor(); PrivCtor(PrivCtor const&); };
struct PrivDtor { private: ~PrivDtor(); };
struct ProtDtor { protected: ~ProtDtor(); };
struct ProtCopy { ProtCopy() = default; protected: ProtCopy(ProtCopy const&); ProtCopy& operator=(ProtCopy const&); };
struct PrivAssign { private: PrivAssign& operator=(PrivAssign const&); };
struct ExplicitFromInt { explicit ExplicitFromInt(int); };
struct ImplicitFromInt { ImplicitFromInt(int) noexcept; };
struct ToInt { operator int() const noexcept; };
struct ExplicitToBool { explicit operator bool() const; };
struct ToAggRef { operator Agg&() const; };
struct ConstMember { int const c; };
struct RefMember { int& r; };
struct Functor { int operator()(int) const; void operator()(Agg&) &; };
struct LessInt { bool operator()(int, int) const noexcept; };
inline constexpr auto lambda_object = [](int x) noexcept { return x; };
using Lambda = std::remove_const_t<decltype(lambda_object)>;
struct AdlSwap { AdlSwap(AdlSwap&&) = delete; friend void swap(AdlSwap&, AdlSwap&) noexcept; };
struct AdlSwapThrow { friend void swap(AdlSwapThrow&, AdlSwapThrow&); };
struct DelSwap { friend void swap(DelSwap&, DelSwap&) = delete; };
struct SwapWithInt { friend void swap(SwapWithInt&, int&); friend void swap(int&, SwapWithInt&); };
struct Padded { char c; int i; };
struct Bits { int a : 3; int b : 5; };
struct MixedAccess { int a; private: int b; };
struct EqCmp { friend bool operator==(EqCmp const&, EqCmp const&); };
struct EqCmpInt { friend bool operator==(EqCmpInt const&, int); };
struct alignas(32) OverAligned { char c; };
struct AssignFromInt { AssignFromInt& operator=(int) noexcept; };
struct NoValue { };
// ---- conjunct violators: for every conjunct of a multi-requirement concept one type that fails (ideally only) that conjunct
struct AssignRetVal { AssignRetVal operator=(int); };
struct AssignRetVoid { void operator=(int); };
struct ExplicitDeleted { ExplicitDeleted(long); template <class T> explicit ExplicitDeleted(T) = delete; };
struct NoCopyFromMutable { NoCopyFromMutable(); NoCopyFromMutable(NoCopyFromMutable const&); NoCopyFromMutable(NoCopyFromMutable&) = delete; NoCopyFromMutable(NoCopyFromMutable&&); };
struct CopyFromMutableOnly { CopyFromMutableOnly(); CopyFromMutableOnly(CopyFromMutableOnly&); CopyFromMutableOnly(CopyFromMutableOnly&&); };
struct NoConstRvalue { NoConstRvalue(); NoConstRvalue(NoConstRvalue const&); NoConstRvalue(NoConstRvalue&&); NoConstRvalue(NoConstRvalue const&&) = delete; };
struct ExplicitCopy { ExplicitCopy(); explicit ExplicitCopy(ExplicitCopy const&); ExplicitCopy(ExplicitCopy&&); };
struct ExplicitMove { ExplicitMove(); explicit ExplicitMove(ExplicitMove&&); };
struct NoCopyAssign { NoCopyAssign() = default; NoCopyAssign(NoCopyAssign const&) = default; NoCopyAssign(NoCopyAssign&&) = default; NoCopyAssign& operator=(NoCopyAssign&&) = default; NoCopyAssign& operator=(NoCopyAssign const&) = delete; };
struct NoAssignFromMutable { NoAssignFromMutable() = default; NoAssignFromMutable(NoAssignFromMutable const&) = default; NoAssignFromMutable& operator=(NoAssignFromMutable const&); NoAssignFromMutable& operator=(NoAssignFromMutable&) = delete; NoAssignFromMutable& operator=(NoAssignFromMutable&&); };
struct NoAssignConstRvalue { NoAssignConstRvalue() = default; NoAssignConstRvalue(NoAssignConstRvalue const&) = default; NoAssignConstRvalue& operator=(NoAssignConstRvalue const&); NoAssignConstRvalue& operator=(NoAssignConstRvalue&&); NoAssignConstRvalue& operator=(NoAssignConstRvalue const&&) = delete; };
struct NoMoveAssign { NoMoveAssign() = default; NoMoveAssign(NoMoveAssign&&) = default; NoMoveAssign& operator=(NoMoveAssign&&) = delete; };
struct NoMoveCtor { NoMoveCtor() = default; NoMoveCtor(NoMoveCtor&&) = delete; NoMoveCtor& operator=(NoMoveCtor&&); };
struct ExplicitDefault { explicit ExplicitDefault() = default; };
struct AggExplicitMember { ExplicitDefault e; };
struct AmbA : Empty { };
struct AmbB : Empty { };
struct Ambiguous : AmbA, AmbB { };
struct EqNoNe { friend bool operator==(EqNoNe const&, EqNoNe const&); friend bool operator!=(EqNoNe const&, EqNoNe const&) = delete; };
struct ExplicitBool { explicit operator bool() const; };
struct BoolLike { operator bool() const; };
struct BoolNoNot { operator bool() const; void operator!() const; };
struct EqRetExplicit { friend ExplicitBool operator==(EqRetExplicit const&, EqRetExplicit const&); friend ExplicitBool operator!=(EqRetExplicit const&, EqRetExplicit const&); };
struct EqRetBoolLike { friend BoolLike operator==(EqRetBoolLike const&, EqRetBoolLike const&); friend BoolLike operator!=(EqRetBoolLike const&, EqRetBoolLike const&); };
struct EqNonConst { bool operator==(EqNonConst const&); bool operator!=(EqNonConst const&); };
struct EqNoDefault { EqNoDefault(int); friend bool operator==(EqNoDefault const&, EqNoDefault const&); };
struct SwapOneWay { friend void swap(SwapOneWay&, int&); };
struct ExplicitMutableDeleted { ExplicitMutableDeleted(); ExplicitMutableDeleted(ExplicitMutableDeleted const&); ExplicitMutableDeleted(ExplicitMutableDeleted&&); explicit ExplicitMutableDeleted(ExplicitMutableDeleted&) = delete; };
struct ImplicitMutableDeleted { ImplicitMutableDeleted(); ImplicitMutableDeleted(ImplicitMutableDeleted const&); ImplicitMutableDeleted(ImplicitMutableDeleted&&); explicit ImplicitMutableDeleted(ImplicitMutableDeleted&); template <class U> ImplicitMutableDeleted(U&) = delete; };
struct ExplicitConstCopyDeleted { ExplicitConstCopyDeleted(); explicit ExplicitConstCopyDeleted(ExplicitConstCopyDeleted const&) = delete; template <class U> ExplicitConstCopyDeleted(U const&); ExplicitConstCopyDeleted(ExplicitConstCopyDeleted&); ExplicitConstCopyDeleted(ExplicitConstCopyDeleted&&); ExplicitConstCopyDeleted(ExplicitConstCopyDeleted const&&); };
struct ExplicitConstCopy { ExplicitConstCopy(); explicit ExplicitConstCopy(ExplicitConstCopy const&); ExplicitConstCopy(ExplicitConstCopy&); ExplicitConstCopy(ExplicitConstCopy&&); ExplicitConstCopy(ExplicitConstCopy const&&); };
struct ExplicitConstRvalueDeleted { ExplicitConstRvalueDeleted(); ExplicitConstRvalueDeleted(ExplicitConstRvalueDeleted const&); ExplicitConstRvalueDeleted(ExplicitConstRvalueDeleted&&); explicit ExplicitConstRvalueDeleted(ExplicitConstRvalueDeleted const&&) = delete; };
struct ImplicitConstRvalueDeleted { ImplicitConstRvalueDeleted(); ImplicitConstRvalueDeleted(ImplicitConstRvalueDeleted const&); ImplicitConstRvalueDeleted(ImplicitConstRvalueDeleted&&); explicit ImplicitConstRvalueDeleted(ImplicitConstRvalueDeleted const&&); template <class U> ImplicitConstRvalueDeleted(U const&&) = delete; };
struct AssignableNotCopyCtor { AssignableNotCopyCtor(); AssignableNotCopyCtor(AssignableNotCopyCtor const&) = delete; AssignableNotCopyCtor(AssignableNotCopyCtor&&); AssignableNotCopyCtor& operator=(AssignableNotCopyCtor const&); AssignableNotCopyCtor& operator=(AssignableNotCopyCtor&&); };
struct NoAssignConstLvalue { NoAssignConstLvalue() = default; NoAssignConstLvalue(NoAssignConstLvalue const&) = default; NoAssignConstLvalue& operator=(NoAssignConstLvalue&); NoAssignConstLvalue& operator=(NoAssignConstLvalue const&) = delete; NoAssignConstLvalue& operator=(NoAssignConstLvalue&&); NoAssignConstLvalue& operator=(NoAssignConstLvalue const&&); };
struct NoMoveAssignAdlSwap { NoMoveAssignAdlSwap() = default; NoMoveAssignAdlSwap(NoMoveAssignAdlSwap&&) = default; NoMoveAssignAdlSwap& operator=(NoMoveAssignAdlSwap&&) = delete; friend void swap(NoMoveAssignAdlSwap&, NoMoveAssignAdlSwap&) noexcept; };
struct NeOnly { friend bool operator!=(NeOnly const&, NeOnly const&); };
struct EqRetExplicitNeBool { friend ExplicitBool operator==(EqRetExplicitNeBool const&, EqRetExplicitNeBool const&); friend bool operator!=(EqRetExplicitNeBool const&, EqRetExplicitNeBool const&); };
struct EqBoolNeRetExplicit { friend bool operator==(EqBoolNeRetExplicit const&, EqBoolNeRetExplicit const&); friend ExplicitBool operator!=(EqBoolNeRetExplicit const&, EqBoolNeRetExplicit const&); };
// ---- asymmetric heterogeneous pairs (round 3)
struct SwB; struct SwD; struct SwF; struct SwH;
struct SwA { friend void swap(SwA&, SwB&) noexcept; friend void swap(SwB&, SwA&); };                  // (A,B) noexcept, (B,A) may throw
struct SwB { };
struct SwC { friend void swap(SwC&, SwD&) noexcept; friend void swap(SwD&, SwC&) noexcept; };         // both noexcept
struct SwD { };
struct SwE { friend void swap(SwE&, SwF&) noexcept; };                                                  // one direction missing
struct SwF { };
struct SwG { friend void swap(SwG&, SwH&); friend void swap(SwH&, SwG&); };                             // both may throw
struct SwH { };
struct ToIntThrow { operator int() const; };
struct ImplicitFromIntThrow { ImplicitFromIntThrow(int); };
struct AssignFromIntThrow { AssignFromIntThrow& operator=(int); };
struct CtA { }; struct CtB { }; struct CtC { CtC() = default; CtC(CtA); CtC(CtB); };
// ---- callable family with deliberately partial / asymmetric overload sets and qualifiers (parts k0, k1)
struct KA { };
struct KB { };
struct KD : KA { };
struct Key { friend bool operator<(Key, int); friend bool operator<(Key, Key); };
struct RelAll { bool operator()(KA, KA) const; bool operator()(KB, KB) const; bool operator()(KA, KB) const; bool operator()(KB, KA) const; };
struct RelNoBA { bool operator()(KA, KA) const; bool operator()(KB, KB) const; bool operator()(KA, KB) const; };
struct RelNoAB { bool operator()(KA, KA) const; bool operator()(KB, KB) const; bool operator()(KB, KA) const; };
struct RelNoAA { bool operator()(KB, KB) const; bool operator()(KA, KB) const; bool operator()(KB, KA) const; };
struct RelNoBB { bool operator()(KA, KA) const; bool operator()(KA, KB) const; bool operator()(KB, KA) const; };
struct RelOnlyAB { bool operator()(KA, KB) const; };
struct RelRetExplicit { ExplicitBool operator()(KA, KA) const; ExplicitBool operator()(KB, KB) const; ExplicitBool operator()(KA, KB) const; ExplicitBool operator()(KB, KA) const; };
struct RelRetBoolLike { BoolLike operator()(KA, KA) const; BoolLike operator()(KB, KB) const; BoolLike operator()(KA, KB) const; BoolLike operator()(KB, KA) const; };
struct RelRetMixed { bool operator()(KA, KA) const; bool operator()(KB, KB) const; bool operator()(KA, KB) const; ExplicitBool operator()(KB, KA) const; };
struct RelNonConst { bool operator()(KA, KA); bool operator()(KB, KB); bool operator()(KA, KB); bool operator()(KB, KA); };
struct RelLref { bool operator()(KA, KA) &; bool operator()(KB, KB) &; bool operator()(KA, KB) &; bool operator()(KB, KA) &; };
struct RelRefArgs { bool operator()(KA&, KA&) const; bool operator()(KB const&, KB const&) const; bool operator()(KA&, KB const&) const; bool operator()(KB const&, KA&) const; };
struct TransLess { template <class T, class U> auto operator()(T&& t, U&& u) const -> decltype(static_cast<T&&>(t) < static_cast<U&&>(u)); };
struct FnLref { bool operator()(KA) &; };
struct FnRref { bool operator()(KA) &&; };
struct FnConst { bool operator()(KA) const; };
struct FnNonConst { bool operator()(KA); };
struct FnConstLrefOnly { bool operator()(KA) const&; bool operator()(KA) && = delete; };
struct FnNoexcept { bool operator()(KA) const noexcept; };
struct FnOverloadCv { int operator()(KA) &; bool operator()(KA) const&; void operator()(KA) &&; };
struct FnNullary { bool operator()() const; };
struct FnTakesRef { bool operator()(KA&) const; };
struct FnTakesRvalue { bool operator()(KA&&) const; };
struct FnTakesPtr { bool operator()(void*) const; };
struct FnTakesInt { bool operator()(int) const; bool operator()(KA) const = delete; };
struct PredBoolLike { BoolLike operator()(KA) const; };
struct PredExplicit { ExplicitBool operator()(KA) const; };
struct PredNotBool { KB operator()(KA) const; };
struct PredNoNot { BoolNoNot operator()(KA) const; };
struct PredVoid { void operator()(KA) const; };
struct PredPtr { void* operator()(KA) const; };
struct PredRef { bool& operator()(KA) const; };
} // namespace z
// common_type specialised by the "user" in ONE argument order only
#if !defined(C15_STD_ONLY) && !defined(C15_DEGRADED)
namespace etl { template <> struct common_type<z::CtA, z::CtB> { using type = z::CtC; }; }
#endif
namespace std { template <> struct common_type<z::CtA, z::CtB> { using type = z::CtC; }; }
'''

# ------------------------------------------------------------------------------------------------ base types
class Base:
    def __init__(self, cpp, kind, cls, prefix=None, suffix="", **kw):
        self.cpp = cpp                  # spelling usable on the right of `using X = ...;`
        self.kind = kind                # bool char int float void nullptr uenum senum class union func abfunc mdp mfp
        self.cls = cls                  # type-class label used in exclusion tags
        self.prefix = prefix if prefix is not None else cpp.replace("z::", "")
        self.suffix = suffix
        self.abstract = kw.get("abstract", False)
        self.inc = kw.get("inc", False)
        self.trivial_kind = kw.get("trivial_kind", False)   # int, float, plain struct (non-trivial rule)
        self.rel = kw.get("rel", ())    # families for pair generation
        self.special = kw.get("special", False)   # callable family: only used by the parts k0 / k1


BASES = []


def B(*a, **k):
    b = Base(*a, **k)
    BASES.append(b)
    return b


B("bool", "bool", "bool", rel=("arith",))
for c in ["char", "signed char", "unsigned char", "wchar_t", "char8_t", "char16_t", "char32_t"]:
    B(c, "char", "char_type", rel=("arith",))
for c in ["short", "unsigned short", "int", "unsigned int", "long", "unsigned long", "long long", "unsigned long long"]:
    B(c, "int", "integer", trivial_kind=(c == "int"), rel=("arith",))
for c in ["float", "double", "long double"]:
    B(c, "float", "floating", trivial_kind=(c != "long double"), rel=("arith",))
B("void", "void", "void")
B("decltype(nullptr)", "nullptr", "nullptr_t", prefix="nullptr_t", rel=("ptrish",))
B("z::Incomplete", "class", "incomplete_class", inc=True)
for c in ["E0", "EU8", "EI64", "ENeg"]:
    B("z::" + c, "uenum", "unscoped_enum", rel=("arith",))
for c in ["SE", "SE16", "SEU64", "SEB", "SEC"]:
    B("z::" + c, "senum", "scoped_enum", rel=("arith",))
CLASSES = {
    "Empty": "empty_class", "EmptyFinal": "final_class", "Agg": "aggregate", "AggArr": "aggregate",
    "Poly": "polymorphic_class", "PolyVD": "polymorphic_class", "Abstract": "abstract_class",
    "AbstractPD": "abstract_class", "Final": "final_class", "PolyFinal": "final_class", "Derived": "derived_class",
    "DerivedEmpty": "derived_class", "PrivDerived": "derived_class", "VirtDerived": "derived_class",
    "MultiDerived": "derived_class", "AbstractImpl": "derived_class", "NonTrivial": "nontrivial_class",
    "DelDefault": "deleted_default_ctor", "MoveOnly": "move_only_class", "CopyOnly": "copy_only_class",
    "NoCopyNoMove": "noncopyable_class", "DelDtor": "deleted_dtor", "ThrowCtor": "throwing_class",
    "ThrowDtor": "throwing_dtor", "NothrowAll": "nothrow_class", "Trivial": "trivial_class",
    "NonTrivialDtor": "nontrivial_class", "PrivCtor": "private_ctor", "PrivDtor": "inaccessible_dtor",
    "ProtDtor": "inaccessible_dtor", "ProtCopy": "protected_copy", "PrivAssign": "private_assign",
    "ExplicitFromInt": "converting_class", "ImplicitFromInt": "converting_class", "ToInt": "converting_class",
    "ExplicitToBool": "converting_class", "ToAggRef": "converting_class", "ConstMember": "const_member_class",
    "RefMember": "ref_member_class", "Functor": "callable_class", "LessInt": "callable_class",
    "Lambda": "callable_class", "AdlSwap": "adl_swap_class", "AdlSwapThrow": "adl_swap_class",
    "DelSwap": "adl_swap_class", "SwapWithInt": "adl_swap_class", "Padded": "aggregate", "Bits": "aggregate",
    "MixedAccess": "mixed_access_class", "EqCmp": "comparable_class", "EqCmpInt": "comparable_class",
    "OverAligned": "overaligned_class", "AssignFromInt": "converting_class",
}
CLASSES.update({
    "AssignRetVal": "assign_result_class", "AssignRetVoid": "assign_result_class", "ExplicitDeleted": "converting_class",
    "NoCopyFromMutable": "partial_copy_class", "CopyFromMutableOnly": "partial_copy_class", "NoConstRvalue": "partial_copy_class",
    "ExplicitCopy": "explicit_copy_class", "ExplicitMove": "explicit_copy_class", "NoCopyAssign": "partial_assign_class",
    "NoAssignFromMutable": "partial_assign_class", "NoAssignConstRvalue": "partial_assign_class",
    "NoMoveAssign": "partial_assign_class", "NoMoveCtor": "partial_copy_class", "ExplicitDefault": "explicit_default_class",
    "AggExplicitMember": "explicit_default_class", "Ambiguous": "ambiguous_base_class", "EqNoNe": "comparable_class",
    "ExplicitBool": "converting_class", "BoolLike": "converting_class", "BoolNoNot": "converting_class",
    "EqRetExplicit": "comparable_class", "EqRetBoolLike": "comparable_class", "EqNonConst": "comparable_class",
    "EqNoDefault": "comparable_class", "SwapOneWay": "adl_swap_class",
    "ExplicitMutableDeleted": "partial_copy_class", "ImplicitMutableDeleted": "partial_copy_class",
    "ExplicitConstCopyDeleted": "partial_copy_class", "ExplicitConstCopy": "explicit_copy_class",
    "ExplicitConstRvalueDeleted": "partial_copy_class", "ImplicitConstRvalueDeleted": "partial_copy_class",
    "AssignableNotCopyCtor": "partial_copy_class", "NoAssignConstLvalue": "partial_assign_class",
    "NoMoveAssignAdlSwap": "partial_assign_class", "NeOnly": "comparable_class", "EqRetExplicitNeBool": "comparable_class",
    "EqBoolNeRetExplicit": "comparable_class", "KA": "empty_class", "KB": "empty_class", "Key": "comparable_class",
})
for c, cl in CLASSES.items():
    B("z::" + c, "class", cl, abstract=c in ("Abstract", "AbstractPD"), trivial_kind=(c == "Agg"),
      rel=("hier",) if cl in ("derived_class",) or c in ("Empty", "Agg", "Poly", "Abstract") else ())
for c in ["U", "UEmpty", "UNonTrivial"]:
    B("z::" + c, "union", "union")
FUNCS = [("void", "()", False), ("int", "(int)", False), ("void", "(...)", False), ("int", "(int, ...)", False),
         ("void", "() noexcept", False), ("Agg", "(Agg&, int)", False), ("bool", "(int, int)", False),
         ("void", "() const", True), ("void", "() volatile", True), ("void", "() &", True), ("void", "() &&", True),
         ("void", "() const & noexcept", True), ("int", "(int, ...) const volatile && noexcept", True)]
for ret, sig, ab in FUNCS:
    cpp = ("z::" + ret if ret == "Agg" else ret) + sig.replace("Agg&", "z::Agg&")
    B(cpp, "abfunc" if ab else "func", "abominable_function" if ab else "function", prefix=ret, suffix=sig,
      rel=("callable",) if not ab else ())
MEMPTRS = [("int z::Agg::*", "mdp", "int Agg::*", ""), ("int const z::Agg::*", "mdp", "int const Agg::*", ""),
           ("int (z::AggArr::*)[3]", "mdp", "int (AggArr::*", ")[3]"),
           ("int z::Incomplete::*", "mdp", "int Incomplete::*", ""),
           ("void (z::Poly::*)()", "mfp", "void (Poly::*", ")()"),
           ("int (z::Agg::*)(int) const", "mfp", "int (Agg::*", ")(int) const"),
           ("void (z::Agg::*)() noexcept", "mfp", "void (Agg::*", ")() noexcept"),
           ("void (z::Agg::*)() &", "mfp", "void (Agg::*", ")() &"),
           ("void (z::Agg::*)() && noexcept", "mfp", "void (Agg::*", ")() && noexcept"),
           ("int (z::Agg::*)(int, ...) volatile", "mfp", "int (Agg::*", ")(int, ...) volatile"),
           ("void (z::Abstract::*)()", "mfp", "void (Abstract::*", ")()")]
for cpp, kind, pre, suf in MEMPTRS:
    B(cpp, kind, "member_object_pointer" if kind == "mdp" else "member_function_pointer", prefix=pre, suffix=suf,
      inc="Incomplete" in cpp, rel=("callable",) if "Incomplete" not in cpp else ())

CALLABLE_CLASSES = ["KD", "RelAll", "RelNoBA", "RelNoAB", "RelNoAA", "RelNoBB", "RelOnlyAB", "RelRetExplicit", "RelRetBoolLike", "RelRetMixed",
                    "RelNonConst", "RelLref", "RelRefArgs", "TransLess", "FnLref", "FnRref", "FnConst", "FnNonConst", "FnConstLrefOnly",
                    "FnNoexcept", "FnOverloadCv", "FnNullary", "FnTakesRef", "FnTakesRvalue", "FnTakesPtr", "FnTakesInt", "PredBoolLike",
                    "PredExplicit", "PredNotBool", "PredNoNot", "PredVoid", "PredPtr", "PredRef"]
for c in CALLABLE_CLASSES:
    B("z::" + c, "class", "callable_class", special=True)
for c in ["SwA", "SwB", "SwC", "SwD", "SwE", "SwF", "SwG", "SwH"]:
    B("z::" + c, "class", "adl_swap_class", special=True)
for c in ["ToIntThrow", "ImplicitFromIntThrow", "AssignFromIntThrow", "CtA", "CtB", "CtC"]:
    B("z::" + c, "class", "converting_class", special=True)
for ret, sig in (("bool", "(KA, KB)"), ("bool", "(KA, KA)"), ("bool", "(KA, KA) noexcept"), ("BoolLike", "(KA&, KB const&)")):
    B(("z::" if ret == "BoolLike" else "") + ret + sig.replace("KA", "z::KA").replace("KB", "z::KB"), "func", "function", prefix=ret, suffix=sig, special=True)
for cpp, kind, pre, suf in (("bool (z::KA::*)(z::KB) const", "mfp", "bool (KA::*", ")(KB) const"),
                            ("bool (z::KA::*)(z::KB) &", "mfp", "bool (KA::*", ")(KB) &"),
                            ("bool (z::KA::*)(z::KB) &&", "mfp", "bool (KA::*", ")(KB) &&"),
                            ("bool (z::KA::*)(z::KA) noexcept", "mfp", "bool (KA::*", ")(KA) noexcept"),
                            ("bool z::KA::*", "mdp", "bool KA::*", ""), ("z::ExplicitBool z::KA::*", "mdp", "ExplicitBool KA::*", "")):
    B(cpp, kind, "member_object_pointer" if kind == "mdp" else "member_function_pointer", prefix=pre, suffix=suf, special=True)

DECS = ["const", "volatile", "*", "&", "&&", "[3]", "[]"]


class Ty:
    """a generated type = base + decorator chain (innermost first)"""
    def __init__(self, base, decs=()):
        self.base = base
        self.decs = tuple(decs)
        self.idx = -1
        # structural category
        cat = {"void": "void", "func": "func", "abfunc": "abfunc"}.get(base.kind, "obj")
        cv = set()
        abstract = base.abstract
        complete = not base.inc and cat == "obj"
        for d in self.decs:
            if d in ("const", "volatile"):
                cv = cv | {d}
            elif d == "*":
                cat, cv, abstract, complete = "obj", set(), False, True
            elif d == "&":
                cat, cv, abstract, complete = "lref", set(), False, False
            elif d == "&&":
                cat, cv, abstract, complete = "rref", set(), False, False
            elif d == "[3]":
                cat, cv, abstract, complete = "arr", set(), False, True
            elif d == "[]":
                cat, cv, abstract, complete = "uarr", set(), False, False
        self.cat, self.cv, self.abstract, self.complete_obj = cat, cv, abstract, complete
        self.inc = base.inc      # involves the incomplete class anywhere
        self.depth = len(self.decs)
        self.name = self.spell("")

    def key(self):
        return (self.base.cpp, self.decs)

    def decorate(self, d):
        c = self.cat
        if d in ("const", "volatile"):
            if c not in ("obj", "void") or d in self.cv:
                return None
            if d == "const" and "volatile" in self.cv:
                return None       # `volatile const` re-spells `const volatile`
            return Ty(self.base, self.decs + (d,))
        if d == "*":
            return Ty(self.base, self.decs + (d,)) if c in ("obj", "arr", "uarr", "void", "func") else None
        if d in ("&", "&&"):
            return Ty(self.base, self.decs + (d,)) if c in ("obj", "arr", "uarr", "func") else None
        if d in ("[3]", "[]"):
            if c in ("obj", "arr") and self.complete_obj and not self.abstract:
                return Ty(self.base, self.decs + (d,))
            return None
        raise ValueError(d)

    # ---- C++ spelling (display name, real declarator syntax)
    def spell(self, inner):
        return self._spell(len(self.decs), inner)

    def _spell(self, n, inner):
        if n == 0:
            b = self.base
            if b.kind in ("func", "abfunc"):
                return b.prefix + ((" (" + inner + ")") if inner else "") + b.suffix
            if b.suffix:     # member pointer with trailing part: inner goes right after the '*'
                return b.prefix + inner + b.suffix
            if inner and (inner[0].isalpha()):
                return b.prefix + " " + inner
            return b.prefix + inner
        d = self.decs[n - 1]
        if d in ("const", "volatile"):
            # qualifier of the entity described by decs[:n-1]
            # collect all consecutive cv at this level
            m = n
            quals = []
            while m > 0 and self.decs[m - 1] in ("const", "volatile"):
                quals.append(self.decs[m - 1])
                m -= 1
            q = " ".join(sorted(quals))
            if m > 0 and self.decs[m - 1] == "*":
                return self._spell(m - 1, "*" + q + ((" " + inner) if inner and inner[0].isalpha() else inner))
            # cv on the base itself
            b = self.base
            if b.kind in ("mdp", "mfp"):
                return b.prefix + q + inner + b.suffix if b.suffix else b.prefix + q + ((" " + inner) if inner and inner[0].isalpha() else inner)
            return b.prefix + " " + q + inner
        if d == "*":
            return self._spell(n - 1, "*" + inner)
        if d == "&":
            return self._spell(n - 1, "&" + inner)
        if d == "&&":
            return self._spell(n - 1, "&&" + inner)
        if d in ("[3]", "[]"):
            if inner and inner[0] in "*&":
                inner = "(" + inner + ")"
            return self._spell(n - 1, inner + d)
        raise ValueError(d)

    # ---- labels
    def typeclass(self):
        """hierarchical shape label: outermost non-cv constructor first, e.g. lref.final_class; ".cv" appended when the
        type is cv-qualified at top level"""
        out = []
        for d in reversed(self.decs):
            if d in ("const", "volatile"):
                continue
            out.append({"*": "pointer", "&": "lref", "&&": "rref", "[3]": "array", "[]": "unbounded_array"}[d])
            if len(out) == 1:
                continue
            break
        if len(out) < 2:
            out.append(self.base.cls)
        return ".".join(out[:2]) + (".cv" if self.cv else "")

    def nontrivial(self):
        if not self.base.trivial_kind:
            return True
        return not (self.decs == () or self.decs == ("*",))

    def flags(self):
        f = 0
        if self.nontrivial():
            f |= 1
        if self.depth >= 1:
            f |= 2
        if self.depth >= 2:
            f |= 4
        if self.base.kind in ("class", "union"):
            f |= 8
        if self.base.kind in ("func", "abfunc"):
            f |= 16
        if self.cat in ("lref", "rref"):
            f |= 32
        if "[3]" in self.decs or "[]" in self.decs:
            f |= 64
        if self.base.kind in ("mdp", "mfp"):
            f |= 128
        if self.base.kind in ("uenum", "senum"):
            f |= 256
        if self.cv:
            f |= 512
        return f


def build_universe():
    lv = [[Ty(b) for b in BASES]]
    for _ in range(2):
        nxt = []
        for t in lv[-1]:
            for d in DECS:
                u = t.decorate(d)
                if u is not None:
                    nxt.append(u)
        lv.append(nxt)
    allt = lv[0] + lv[1] + lv[2]
    names = {}
    for i, t in enumerate(allt):
        t.idx = i
        if t.name in names:
            raise SystemExit("generator bug: duplicate type name %r (%r vs %r)" % (t.name, t.key(), names[t.name].key()))
        names[t.name] = t
    return lv, allt, names


def ty_inner(t):
    return Ty(t.base, t.decs[:-1])


# ------------------------------------------------------------------------------------------------ domains
def d_any(t):
    return True


def d_noinc(t):
    return not t.inc


def d_is_trivial(t):
    # GCC 12's __is_trivial (the std oracle) answers true for classes without an eligible default constructor and for a
    # deleted destructor, against [class.prop]/2 (P0848, CWG 1496); a conforming etl would be flagged -> not generated
    return not t.inc and t.base.cpp not in ("z::DelDefault", "z::ConstMember", "z::RefMember", "z::DelDtor")


def d_alignof(t):
    if t.inc:
        return False
    if t.cat in ("obj", "arr", "uarr"):
        return True
    if t.cat in ("lref", "rref"):
        return ty_inner(t).cat in ("obj", "arr", "uarr")
    return False


def d_make_signed(t):
    return (not t.inc and t.base.kind in ("char", "int", "uenum", "senum")
            and all(d in ("const", "volatile") for d in t.decs))


def d_declval(t):
    return t.cat != "abfunc"


# ------------------------------------------------------------------------------------------------ trait tables
# (name, helper kind, domain, part)   helper kinds: V = ::value/_v, T = ::type/_t, X = special helper of that name
UNARY = []


def U(names, kind, dom, part):
    for n in names.split():
        UNARY.append((n, kind, dom, part))


U("is_void is_null_pointer is_integral is_floating_point is_array is_pointer is_lvalue_reference", "V", d_any, "u0")
U("is_rvalue_reference is_member_object_pointer is_member_function_pointer is_enum is_union is_class is_function", "V", d_any, "u1")
U("is_reference is_arithmetic is_fundamental is_object is_scalar is_compound is_member_pointer is_const is_volatile", "V", d_any, "u2")
U("is_signed is_unsigned is_bounded_array is_unbounded_array rank", "V", d_any, "u3")
U("extent0 extent1 extent2", "X", d_any, "u3")
U("alignment_of", "V", d_alignof, "u3")
U("is_scoped_enum", "X", d_noinc, "u3")
U("is_trivial", "V", d_is_trivial, "u4")
U("is_trivially_copyable is_standard_layout is_empty is_polymorphic is_abstract", "V", d_noinc, "u4")
U("is_final is_aggregate has_virtual_destructor has_unique_object_representations", "V", d_noinc, "u4")
U("is_default_constructible is_copy_constructible is_move_constructible is_copy_assignable is_move_assignable is_destructible", "V", d_noinc, "u5")
U("is_trivially_default_constructible is_trivially_copy_constructible is_trivially_move_constructible", "V", d_noinc, "u6")
U("is_trivially_copy_assignable is_trivially_move_assignable is_trivially_destructible", "V", d_noinc, "u6")
U("is_nothrow_default_constructible is_nothrow_copy_constructible is_nothrow_move_constructible", "V", d_noinc, "u7")
U("is_nothrow_copy_assignable is_nothrow_move_assignable is_nothrow_destructible", "V", d_noinc, "u7")
U("is_swappable is_nothrow_swappable", "V", d_noinc, "u8")
U("remove_const remove_volatile remove_cv add_const add_volatile add_cv remove_reference add_lvalue_reference", "T", d_any, "t0")
U("add_rvalue_reference remove_cvref remove_pointer add_pointer", "T", d_any, "t0")
U("remove_extent remove_all_extents decay type_identity", "T", d_any, "t1")
U("make_signed make_unsigned", "T", d_make_signed, "t1")
U("underlying_type common_type common_reference unwrap_reference unwrap_ref_decay", "T", d_noinc, "t1")
U("declval", "X", d_declval, "t1")
U("unwrap_reference_w unwrap_ref_decay_w", "X", lambda t: not t.inc and t.cat in ("obj", "arr", "func") and (t.cat == "func" or t.complete_obj), "t1")

BINARY = []


def BI(names, kind, part):
    for n in names.split():
        BINARY.append((n, kind, part))


BI("is_same is_base_of is_convertible is_nothrow_convertible", "V", "b0")
BI("is_assignable is_trivially_assignable is_nothrow_assignable", "V", "b1")
BI("is_constructible is_trivially_constructible is_nothrow_constructible", "V", "b2")
BI("is_swappable_with is_nothrow_swappable_with is_invocable is_invocable_r", "V", "b3")
BI("common_type common_reference invoke_result", "T", "b4")

UNARY_CONCEPTS = ("integral signed_integral unsigned_integral floating_point destructible default_initializable "
                  "move_constructible copy_constructible movable copyable semiregular regular equality_comparable "
                  "swappable constructible_from invocable regular_invocable predicate").split()
BINARY_CONCEPTS = ("same_as derived_from convertible_to common_reference_with common_with assignable_from "
                   "constructible_from invocable regular_invocable predicate").split()
TERNARY_CONCEPTS = "relation equivalence_relation strict_weak_order constructible_from invocable predicate".split()

PARTS = ["u0", "u1", "u2", "u3", "u4", "u5", "u6", "u7", "u8", "t0", "t1", "b0", "b1", "b2", "b3", "b4", "c0", "c1", "m0", "k0", "k1"]

# ---- fixed tuples: for each conjunct of a multi-requirement concept (and the trait it rests on) a tuple that violates that
# conjunct, present in BOTH tiers independent of the seed.  (base spelling, decorator chain) per argument.
def _t(cpp, *chain):
    return (cpp, tuple(chain))


FIXED_TUPLES = {
    # assignable_from = is_lvalue_reference<LHS> /\ { lhs = rhs } -> same_as<LHS>  (std: /\ common_reference_with)
    "assignable_from": [[_t("z::AssignRetVal"), _t("int")], [_t("z::AssignRetVoid", "&"), _t("int")], [_t("z::KA", "&"), _t("z::KB")],
                        [_t("z::AssignFromInt", "&"), _t("int")], [_t("int"), _t("int")], [_t("int", "&"), _t("int")],
                        [_t("z::KA", "&"), _t("z::KA")], [_t("z::KA", "&&"), _t("z::KA")], [_t("int", "const", "&"), _t("int")]],
    # convertible_to = is_convertible /\ static_cast<To>(from)
    "convertible_to": [[_t("int"), _t("z::ExplicitDeleted")], [_t("int"), _t("z::ExplicitFromInt")], [_t("int"), _t("z::ImplicitFromInt")],
                       [_t("z::KD", "*"), _t("z::KA", "*")], [_t("z::KA", "*"), _t("z::KD", "*")], [_t("z::ExplicitBool"), _t("bool")],
                       [_t("z::BoolLike"), _t("bool")]],
    # derived_from = is_base_of /\ is_convertible<D cv*, B cv*>
    "derived_from": [[_t("z::Ambiguous"), _t("z::Empty")], [_t("z::PrivDerived"), _t("z::Agg")], [_t("int"), _t("int")],
                     [_t("z::Derived"), _t("z::Agg")], [_t("z::Agg"), _t("z::Derived")], [_t("z::Derived", "const"), _t("z::Agg")],
                     [_t("z::KA"), _t("z::KA")], [_t("z::KD"), _t("z::KA", "volatile")], [_t("z::MultiDerived"), _t("z::Empty")]],
    # constructible_from = destructible /\ is_constructible
    "constructible_from": [[_t("z::ThrowDtor"), _t("z::ThrowDtor")], [_t("z::KA"), _t("z::KB")], [_t("z::ExplicitFromInt"), _t("int")],
                           [_t("z::ExplicitDeleted"), _t("int")], [_t("z::KA"), _t("z::KD")], [_t("z::KD"), _t("z::KA")]],
    "is_swappable_with": [[_t("z::SwapOneWay", "&"), _t("int", "&")], [_t("int", "&"), _t("z::SwapOneWay", "&")],
                          [_t("z::SwapWithInt", "&"), _t("int", "&")], [_t("int", "&"), _t("z::SwapWithInt", "&")],
                          [_t("z::KA", "&"), _t("z::KA", "&")], [_t("z::KA", "&"), _t("z::KB", "&")]],
}
# heterogeneous pairs whose two directions differ (exception specification, existence)
FIXED_TUPLES["is_swappable_with"] += [[_t("z::Sw" + a, "&"), _t("z::Sw" + b, "&")] for a, b in
                                      ("AB", "BA", "CD", "DC", "EF", "FE", "GH", "HG", "AA", "AD")]
FIXED_TUPLES["convertible_to"] += [[_t("z::ToInt"), _t("int")], [_t("z::ToIntThrow"), _t("int")], [_t("int"), _t("z::ToIntThrow")],
                                   [_t("int"), _t("z::ImplicitFromIntThrow")], [_t("z::ImplicitFromIntThrow"), _t("int")],
                                   [_t("z::CtA"), _t("z::CtC")], [_t("z::CtC"), _t("z::CtA")]]
FIXED_TUPLES["assignable_from"] += [[_t("z::AssignFromIntThrow", "&"), _t("int")], [_t("int", "&"), _t("z::AssignFromIntThrow")],
                                    [_t("int", "&"), _t("z::ToInt")], [_t("int", "&"), _t("z::ToIntThrow")], [_t("z::ToInt", "&"), _t("int")],
                                    [_t("z::CtC", "&"), _t("z::CtA")], [_t("z::CtA", "&"), _t("z::CtC")]]
FIXED_TUPLES["common_type"] = [[_t("z::CtA"), _t("z::CtB")], [_t("z::CtB"), _t("z::CtA")], [_t("z::CtA", "&"), _t("z::CtB", "const", "&")],
                               [_t("z::CtA", "const"), _t("z::CtB", "volatile")], [_t("z::CtB", "&&"), _t("z::CtA", "&&")],
                               [_t("z::CtA"), _t("z::CtC")], [_t("z::CtC"), _t("z::CtB")],
                               [_t("z::CtA"), _t("z::CtB"), _t("z::CtC")], [_t("z::CtC"), _t("z::CtA"), _t("z::CtB")],
                               [_t("z::CtA", "&"), _t("z::CtB"), _t("z::CtB")], [_t("int"), _t("long"), _t("z::ToInt")]]
FIXED_TUPLES["common_with"] = [x for x in FIXED_TUPLES["common_type"] if len(x) == 2]
FIXED_TUPLES["is_convertible"] = FIXED_TUPLES["convertible_to"]
FIXED_TUPLES["is_nothrow_convertible"] = FIXED_TUPLES["convertible_to"]
FIXED_TUPLES["is_constructible"] = FIXED_TUPLES["constructible_from"] + [list(reversed(x)) for x in FIXED_TUPLES["convertible_to"]]
FIXED_TUPLES["is_base_of"] = [list(reversed(x)) for x in FIXED_TUPLES["derived_from"]]
FIXED_TUPLES["is_assignable"] = FIXED_TUPLES["assignable_from"]
FIXED_TUPLES["is_nothrow_assignable"] = FIXED_TUPLES["assignable_from"]
FIXED_TUPLES["is_trivially_assignable"] = FIXED_TUPLES["assignable_from"]
FIXED_TUPLES["is_nothrow_constructible"] = FIXED_TUPLES["is_constructible"]
FIXED_TUPLES["is_trivially_constructible"] = FIXED_TUPLES["is_constructible"]
# every place a type may be void gets all four cv-void spellings (both positions, and against a non-void type)
CV_VOID = [_t("void"), _t("void", "const"), _t("void", "volatile"), _t("void", "const", "volatile")]
VOID_PAIRS = [[a, b] for a in CV_VOID for b in CV_VOID] + [[a, _t("int")] for a in CV_VOID] + [[_t("int"), a] for a in CV_VOID] \
    + [[a, _t("int", "&")] for a in CV_VOID[1:]] + [[_t("void", "*"), a] for a in CV_VOID[1:]]
FIXED_TUPLES["is_nothrow_swappable_with"] = FIXED_TUPLES["is_swappable_with"]


def fixed_tuples(trait, lv, names):
    byname = {t.base.cpp: t for t in lv[0]}
    out = []
    for tup in FIXED_TUPLES.get(trait, []) + VOID_PAIRS:
        ts = []
        for cpp, chain in tup:
            t = byname[cpp]
            for d in chain:
                t = t.decorate(d)
            ts.append(names[t.name])
        out.append(ts)
    return out


# ---- callable family (parts k0 / k1)
K_ARGS = [_t("z::KA"), _t("z::KB"), _t("z::KA", "&"), _t("z::KA", "const", "&"), _t("z::KA", "&&"), _t("int"), _t("void", "*")]
K_ARGS_EXTRA = [_t("z::Key"), _t("z::KD"), _t("z::KB", "const", "&"), _t("z::KA", "*"), _t("z::KD", "&")]
K_FDECS = [(), ("const", "&"), ("&",), ("&&",), ("const",)]
K_RELS = ["z::RelAll", "z::RelNoBA", "z::RelNoAB", "z::RelNoAA", "z::RelNoBB", "z::RelOnlyAB", "z::RelRetExplicit", "z::RelRetBoolLike",
          "z::RelRetMixed", "z::RelNonConst", "z::RelLref", "z::RelRefArgs", "z::TransLess", "bool(z::KA, z::KB)", "bool(z::KA, z::KA)",
          "z::BoolLike(z::KA&, z::KB const&)", "z::LessInt", "bool(int, int)"]
K_INVOCABLE = {"is_invocable": "V", "invoke_result": "T", "invocable": "C", "regular_invocable": "C", "predicate": "C"}


NOTHROW_CTOR = ("is_nothrow_constructible", "is_nothrow_default_constructible", "is_nothrow_copy_constructible",
                "is_nothrow_move_constructible")


INVOKE_FAMILY = {"is_invocable": 1, "invoke_result": 1, "invocable": 1, "regular_invocable": 1, "predicate": 1, "relation": 1,
                 "equivalence_relation": 1, "strict_weak_order": 1, "is_invocable_r": 2}


def std_unspecified(trait, ts):
    """(trait, types) combinations for which the standard leaves the answer open or libstdc++ 12 is known to deviate from
    it; a conforming etl could legitimately differ from the oracle there, so they are not generated (soundness first)"""
    # GCC 12 accepts a prvalue of type (cv) void as an argument for an ellipsis parameter inside decltype, so
    # std::is_invocable<void(...), void> is true and std::invoke_result<void(...), cv void> names a type although the call
    # is ill-formed by [expr.call]; an etl that rejects it is right -> void ARGUMENTS (any cv) are not generated
    # (plain void slipped through until a VERIF_SEED=12345 run drew is_invocable<void(...), void>: false alarm, corrected)
    if trait in INVOKE_FAMILY:
        for t in ts[INVOKE_FAMILY[trait]:]:
            if t.cat == "void":
                return True
    for t in ts:
        # LWG 2116: whether is_nothrow_constructible considers the destructor is unresolved; GCC 12's builtin answers
        # differently for T and T[N] when ~T() is noexcept(false)
        if trait in NOTHROW_CTOR and t.base.cpp == "z::ThrowDtor" and ("[3]" in t.decs or "[]" in t.decs):
            return True
    return False


class Ob:
    __slots__ = ("name", "tag", "flags", "expr", "sub", "std_filter", "nostd")

    def __init__(self, name, tag, flags, expr, sub, std_filter=False, nostd=False):
        self.name, self.tag, self.flags, self.expr, self.sub = name, tag, flags, expr, sub
        self.std_filter, self.nostd = std_filter, nostd


SUBS = ["unary_value", "unary_type", "binary", "concepts", "limits", "ratio", "meta", "misc"]


def A(t):
    return "c15t::T%d" % t.idx


def seeded(seed, *what):
    h = hashlib.sha256(("%d|" % seed + "|".join(str(w) for w in what)).encode()).digest()
    return random.Random(int.from_bytes(h[:8], "little"))


def pair_flags(ts):
    f = 0
    for t in ts:
        f |= t.flags()
    return f


def pair_tag(trait, ts):
    """n-ary obligations: shape tag trait#n.<outer of each argument> | base tag trait#n@<class of the first argument's base>"""
    if len(ts) == 1:
        return unary_tag(trait, ts[0])
    tr = "%s#%d" % (trait, len(ts))
    return tr + "." + ".".join(t.typeclass().split(".")[0] for t in ts) + "|" + tr + "@" + ts[0].base.cls


def unary_tag(trait, t):
    """shape tag trait.<outer>.<inner>[.cv] | base tag trait@<class of the base type>; an exclusion matches either by prefix"""
    return trait + "." + t.typeclass() + "|" + trait + "@" + t.base.cls


# ------------------------------------------------------------------------------------------------ sampling sizes
SIZES = {
    # unary: all depth-0 types always; n1/n2 sampled depth-1/depth-2 types per trait (None = all)
    "quick": {"u_n1": 40, "u_n2": 40, "c_n1": 30, "c_n2": 30, "pairs": 200, "cpairs": 120, "ratio_n": 14, "lists": 6,
              "k_fdecs": 1, "k_tuples": 3, "k_relpairs": 4, "k_relfdecs": 2},
    "thorough": {"u_n1": 180, "u_n2": 220, "c_n1": 120, "c_n2": 120, "pairs": 700, "cpairs": 450, "ratio_n": 30, "lists": 40,
                 "k_fdecs": 2, "k_tuples": 6, "k_relpairs": 14, "k_relfdecs": 3},
}


def unary_types(lv, dom, trait, seed, tier, keys=("u_n1", "u_n2")):
    sz = SIZES[tier]
    out = [t for t in lv[0] if dom(t) and not t.base.special]
    for level, key in ((1, keys[0]), (2, keys[1])):
        pool = [t for t in lv[level] if dom(t) and not t.base.special]
        n = sz[key]
        if n is None or n >= len(pool):
            out += pool
        else:
            out += seeded(seed, "unary", trait, level).sample(pool, n)
    have = set(t.name for t in out)
    for lvl in lv[1:]:     # all four cv-void spellings, always
        out += [t for t in lvl if t.base.cpp == "void" and all(d in ("const", "volatile") for d in t.decs) and dom(t) and t.name not in have]
    return out


def unary_obligation(trait, kind, t):
    sub = "unary_type" if (kind == "T" or trait == "declval") else "unary_value"
    tag = unary_tag(trait.rstrip("012") if trait.startswith("extent") else trait, t)
    if trait.startswith("extent"):
        i = trait[-1]
        return Ob("extent<%s, %s>" % (t.name, i), tag, t.flags(), "c15::X_extent<%s, %s>()" % (A(t), i), sub)
    if trait.endswith("_w"):
        return Ob("%s<reference_wrapper<%s>>" % (trait[:-2], t.name), tag, t.flags() | 1, "c15::X_%s<%s>()" % (trait, A(t)), "unary_type")
    return Ob("%s<%s>" % (trait, t.name), tag, t.flags(), "c15::%s_%s<%s>()" % (kind, trait, A(t)), sub)


# ------------------------------------------------------------------------------------------------ pairs
HIER = ["Empty", "Agg", "Poly", "Abstract", "Derived", "DerivedEmpty", "PrivDerived", "VirtDerived", "MultiDerived",
        "AbstractImpl", "PolyFinal", "Ambiguous"]
CONVF = ["int", "long", "bool", "char", "double", "float", "unsigned int", "short", "z::E0", "z::SE", "z::EU8",
         "z::ToInt", "z::ImplicitFromInt", "z::ExplicitFromInt", "z::ExplicitToBool", "z::ToAggRef", "z::Agg",
         "z::AssignFromInt", "decltype(nullptr)", "void", "z::Lambda", "z::SwapWithInt", "z::EqCmpInt", "z::ExplicitDeleted",
         "z::AssignRetVal", "z::AssignRetVoid", "z::SwapOneWay", "z::BoolLike", "z::ExplicitBool"]
CALLABLE = ["void()", "int(int)", "void(...)", "void() noexcept", "z::Agg(z::Agg&, int)", "bool(int, int)",
            "z::Functor", "z::LessInt", "z::Lambda", "int z::Agg::*", "int const z::Agg::*", "void (z::Poly::*)()",
            "int (z::Agg::*)(int) const", "void (z::Agg::*)() noexcept", "void (z::Agg::*)() &",
            "void (z::Agg::*)() && noexcept", "void (z::Abstract::*)()", "void() const", "int"]
CALLARGS = ["int", "z::Agg", "z::Derived", "z::Poly", "z::PolyFinal", "z::AbstractImpl", "z::PrivDerived", "long",
            "z::ToInt", "void", "z::Empty"]
CHAINS = [(), (), ("const",), ("*",), ("&",), ("&&",), ("const", "&"), ("const", "*"), ("[3]",), ("[]",),
          ("volatile",), ("const", "&&"), ("*", "&"), ("*", "const"), ("[3]", "&"), ("const", "volatile")]


def apply_chain(t, chain):
    for d in chain:
        u = t.decorate(d)
        if u is None:
            return t
        t = u
    return t


def gen_pairs(lv, names, seed, what, n):
    """deterministic seeded list of ordered type pairs (no incomplete types) from five families"""
    rng = seeded(seed, "pairs", what)
    byname = {t.base.cpp: t for t in lv[0]}
    pool = [t for lvl in lv for t in lvl if not t.inc and not t.base.special]
    p0 = [t for t in lv[0] if not t.inc and not t.base.special]
    out, seen = [], set()

    def add(a, b):
        if a.inc or b.inc:
            return
        k = (a.name, b.name)
        if k not in seen:
            seen.add(k)
            out.append((names[a.name], names[b.name]))

    def dec(b):
        return apply_chain(b, rng.choice(CHAINS))
    guard = 0
    while len(out) < n and guard < 50 * n:
        guard += 1
        r = rng.random()
        if r < 0.06:
            t = rng.choice(pool)
            add(t, t)
        elif r < 0.36:
            b = rng.choice(p0)
            add(dec(b), dec(b))
        elif r < 0.54:
            add(dec(byname["z::" + rng.choice(HIER)]), dec(byname["z::" + rng.choice(HIER)]))
        elif r < 0.74:
            add(dec(byname[rng.choice(CONVF)]), dec(byname[rng.choice(CONVF)]))
        elif r < 0.88:
            f, a = dec(byname[rng.choice(CALLABLE)]), dec(byname[rng.choice(CALLARGS)])
            if rng.random() < 0.5 and what != "invocable":
                f, a = a, f
            add(f, a)
        else:
            add(rng.choice(pool), rng.choice(pool))
    return out


# ------------------------------------------------------------------------------------------------ obligations per part
ARITH = ["bool", "char", "signed char", "unsigned char", "wchar_t", "char8_t", "char16_t", "char32_t", "short",
         "unsigned short", "int", "unsigned int", "long", "unsigned long", "long long", "unsigned long long", "float",
         "double", "long double"]
NL_DATA = ("is_specialized is_signed is_integer is_exact has_infinity has_quiet_NaN has_signaling_NaN has_denorm_loss "
           "is_iec559 is_bounded is_modulo traps tinyness_before digits digits10 max_digits10 radix min_exponent "
           "min_exponent10 max_exponent max_exponent10 has_denorm round_style").split()
NL_FUNC = "min lowest max epsilon round_error infinity quiet_NaN signaling_NaN denorm_min".split()
IMAX = 2 ** 63 - 1
RATIO_VALUES = [0, 1, -1, 2, -2, 3, -3, 4, 6, 10, -10, 100, 1000, 2 ** 31 - 1, 2 ** 31, 2 ** 32, -2 ** 32, 3037000499,
                3037000500, 2 ** 62, IMAX, -IMAX, IMAX - 1, 10 ** 18, -10 ** 18, 999999999989, 1000000007]


def lit(v):
    if v == -2 ** 63:
        return "(-9223372036854775807LL - 1)"
    return "%dLL" % v


def fits(v):
    return -IMAX <= v <= IMAX


def build_obligations(part, lv, allt, names, seed, tier):
    sz = SIZES[tier]
    obs = []
    byname = {t.base.cpp: t for t in lv[0]}
    if part[0] in "ut":
        for trait, kind, dom, p in UNARY:
            if p != part:
                continue
            for t in unary_types(lv, dom, trait, seed, tier):
                obs.append(unary_obligation(trait, kind, t))
    elif part[0] == "b":
        for trait, kind, p in BINARY:
            if p != part:
                continue
            what = "invocable" if trait in ("is_invocable", "invoke_result") else "generic"
            pairs = gen_pairs(lv, names, seed, what, sz["pairs"])
            have_pairs = set((a.name, b.name) for a, b in pairs)
            fixed = fixed_tuples(trait, lv, names)
            pairs = pairs + [(x[0], x[1]) for x in fixed if len(x) == 2 and (x[0].name, x[1].name) not in have_pairs]
            for x in fixed:
                if len(x) == 3:
                    obs.append(Ob("%s<%s>" % (trait, ", ".join(t.name for t in x)), pair_tag(trait, x), pair_flags(x),
                                  "c15::%s_%s<%s>()" % (kind, trait, ", ".join(A(t) for t in x)), "binary"))
            for a, b in pairs:
                obs.append(Ob("%s<%s, %s>" % (trait, a.name, b.name), pair_tag(trait, (a, b)), pair_flags((a, b)),
                              "c15::%s_%s<%s, %s>()" % (kind, trait, A(a), A(b)), "binary"))
            if trait in ("is_constructible", "is_trivially_constructible", "is_nothrow_constructible", "is_invocable",
                         "is_invocable_r", "common_type", "invoke_result", "common_reference"):
                rng = seeded(seed, "triples", trait)
                for a, b in pairs[: max(8, len(pairs) // 4)]:
                    c = rng.choice(pairs)[rng.randrange(2)]
                    obs.append(Ob("%s<%s, %s, %s>" % (trait, a.name, b.name, c.name), pair_tag(trait, (a, b, c)),
                                  pair_flags((a, b, c)),
                                  "c15::%s_%s<%s, %s, %s>()" % (kind, trait, A(a), A(b), A(c)), "binary"))
            if trait in ("is_constructible", "is_trivially_constructible", "is_nothrow_constructible", "is_invocable",
                         "invoke_result"):
                # the zero-argument form over the unary sample
                for t in unary_types(lv, d_noinc, trait + "/0", seed, tier):
                    obs.append(Ob("%s<%s>" % (trait, t.name), unary_tag(trait, t), t.flags(),
                                  "c15::%s_%s<%s>()" % (kind, trait, A(t)), "binary"))
    elif part == "c0":
        for cn in UNARY_CONCEPTS:
            for t in unary_types(lv, d_noinc, "concept/" + cn, seed, tier, ("c_n1", "c_n2")):
                obs.append(Ob("%s<%s>" % (cn, t.name), unary_tag(cn, t), t.flags(),
                              "c15::C_%s<%s>()" % (cn, A(t)), "concepts"))
    elif part == "c1":
        for cn in BINARY_CONCEPTS:
            what = "invocable" if cn in ("invocable", "regular_invocable", "predicate") else "generic"
            for a, b in gen_pairs(lv, names, seed, what, sz["cpairs"]) + [(x[0], x[1]) for x in fixed_tuples(cn, lv, names) if len(x) == 2]:
                obs.append(Ob("%s<%s, %s>" % (cn, a.name, b.name), pair_tag(cn, (a, b)), pair_flags((a, b)),
                              "c15::C_%s<%s, %s>()" % (cn, A(a), A(b)), "concepts"))
        rels = ["bool(int, int)", "z::LessInt", "z::Functor", "z::Lambda", "int", "void (z::Poly::*)()", "int(int)"]
        args = ["int", "long", "z::Agg", "z::ToInt", "z::Poly", "z::SE", "double"]
        for cn in TERNARY_CONCEPTS:
            rng = seeded(seed, "ternary", cn)
            for _ in range(sz["cpairs"] // 3):
                r = apply_chain(byname[rng.choice(rels)], rng.choice(CHAINS))
                a = apply_chain(byname[rng.choice(args)], rng.choice(CHAINS))
                b = apply_chain(byname[rng.choice(args)], rng.choice(CHAINS))
                r, a, b = names[r.name], names[a.name], names[b.name]
                if cn in ("constructible_from",):
                    r = a
                    a = names[apply_chain(byname[rng.choice(args)], rng.choice(CHAINS)).name]
                obs.append(Ob("%s<%s, %s, %s>" % (cn, r.name, a.name, b.name), pair_tag(cn, (r, a, b)),
                              pair_flags((r, a, b)), "c15::C_%s<%s, %s, %s>()" % (cn, A(r), A(a), A(b)), "concepts"))
    elif part == "m0":
        # ---- numeric_limits: every member x every arithmetic type x cv
        for an in ARITH:
            for chain in ((), ("const",), ("volatile",), ("const", "volatile")):
                t = names[apply_chain(byname[an], chain).name]
                for m in NL_DATA:
                    obs.append(Ob("numeric_limits<%s>::%s" % (t.name, m), "numeric_limits." + an.replace(" ", "_") + "." + m,
                                  t.flags(), "c15::NL_%s<%s>()" % (m, A(t)), "limits"))
                for m in NL_FUNC:
                    obs.append(Ob("numeric_limits<%s>::%s()" % (t.name, m), "numeric_limits." + an.replace(" ", "_") + "." + m,
                                  t.flags(), "c15::NF_%s<%s>()" % (m, A(t)), "limits"))
        # ---- ratio normalisation: every (N, D) of the value grid that std accepts
        for n in RATIO_VALUES:
            for d in RATIO_VALUES:
                if d == 0:
                    continue
                small = abs(n) < 2 ** 31 and abs(d) < 2 ** 31
                obs.append(Ob("ratio<%d, %d>" % (n, d), "ratio." + ("small" if small else "large"),
                              0 if (n > 0 and d > 0 and small) else 1,
                              "c15::R_ratio<%s, %s>()" % (lit(n), lit(d)), "ratio"))
        # ---- ratio arithmetic and comparisons over a grid of ratios
        rng = seeded(seed, "ratio")
        grid = [(1, 2), (-1, 3), (0, 1), (IMAX, 1), (1, IMAX), (-IMAX, 2)]
        allr = [(n, d) for n in RATIO_VALUES for d in RATIO_VALUES if d != 0]
        while len(grid) < sz["ratio_n"]:
            c = rng.choice(allr)
            if c not in grid:
                grid.append(c)
        for (n1, d1) in grid:
            for (n2, d2) in grid:
                f1, f2 = Fraction(n1, d1), Fraction(n2, d2)
                a1, b1, a2, b2 = f1.numerator, f1.denominator, f2.numerator, f2.denominator
                naive = not all(fits(x) for x in (a1 * b2, a2 * b1, b1 * b2, a1 * a2, a1 * b2 + a2 * b1, a1 * b2 - a2 * b1))
                cls = "naive_overflow" if naive else "small"
                fl = 1 if (naive or a1 < 0 or a2 < 0 or (n1, d1) != (a1, b1) or (n2, d2) != (a2, b2)) else 0
                targ = "%s, %s, %s, %s" % (lit(n1), lit(d1), lit(n2), lit(d2))
                nm = "ratio<%d, %d>, ratio<%d, %d>" % (n1, d1, n2, d2)
                for op in ("add", "subtract", "multiply", "divide"):
                    if op == "divide" and a2 == 0:
                        continue
                    res = {"add": f1 + f2, "subtract": f1 - f2, "multiply": f1 * f2}.get(op) if op != "divide" else f1 / f2
                    if not (fits(res.numerator) and fits(res.denominator)):
                        continue
                    obs.append(Ob("ratio_%s<%s>" % (op, nm), "ratio_%s.%s" % (op, cls), fl,
                                  "c15::R_%s<%s>()" % (op, targ), "ratio", std_filter=True))
                for op in ("equal", "not_equal", "less", "less_equal", "greater", "greater_equal"):
                    obs.append(Ob("ratio_%s<%s>" % (op, nm), "ratio_%s.%s" % (op, cls), fl,
                                  "c15::R_%s<%s>()" % (op, targ), "ratio"))
        # ---- every predefined SI typedef against the std typedef of the same name, alone and as operand of every operation
        SI = [("atto", 1, 10 ** 18), ("femto", 1, 10 ** 15), ("pico", 1, 10 ** 12), ("nano", 1, 10 ** 9), ("micro", 1, 10 ** 6),
              ("milli", 1, 1000), ("centi", 1, 100), ("deci", 1, 10), ("deca", 10, 1), ("hecto", 100, 1), ("kilo", 1000, 1),
              ("mega", 10 ** 6, 1), ("giga", 10 ** 9, 1), ("tera", 10 ** 12, 1), ("peta", 10 ** 15, 1), ("exa", 10 ** 18, 1)]
        for nm, n, d in SI:
            obs.append(Ob(nm, "ratio_typedef." + nm, 1, "c15::R_alias<etl::%s, std::%s>()" % (nm, nm), "ratio"))
        rng = seeded(seed, "si")
        si_pairs = [(x, y) for x in SI for y in SI]
        some = set((x[0], y[0]) for x, y in rng.sample(si_pairs, 48 if tier == "quick" else len(si_pairs)))
        for (n1, a1, b1), (n2, a2, b2) in si_pairs:
            f1, f2 = Fraction(a1, b1), Fraction(a2, b2)
            naive = not all(fits(x) for x in (a1 * b2, a2 * b1, b1 * b2, a1 * a2, a1 * b2 + a2 * b1, a1 * b2 - a2 * b1))
            cls = "naive_overflow" if naive else "small"
            for op in ("add", "subtract", "multiply", "divide"):
                if op in ("add", "subtract") and (n1, n2) not in some:
                    continue
                res = {"add": f1 + f2, "subtract": f1 - f2, "multiply": f1 * f2, "divide": f1 / f2}[op]
                if not (fits(res.numerator) and fits(res.denominator)):
                    continue
                obs.append(Ob("ratio_%s<%s, %s>" % (op, n1, n2), "ratio_%s.%s" % (op, cls), 1,
                              "c15::R_alias<etl::ratio_%s<etl::%s, etl::%s>, std::ratio_%s<std::%s, std::%s>>()" % (op, n1, n2, op, n1, n2),
                              "ratio", std_filter=True))
            for op in ("equal", "not_equal", "less", "less_equal", "greater", "greater_equal"):
                if op not in ("equal", "less") and (n1, n2) not in some:
                    continue
                obs.append(Ob("ratio_%s<%s, %s>" % (op, n1, n2), "ratio_%s.%s" % (op, cls), 1,
                              "c15::R_cmp<etl::ratio_%s<etl::%s, etl::%s>, std::ratio_%s<std::%s, std::%s>>()" % (op, n1, n2, op, n1, n2),
                              "ratio"))
        # ---- predefined constants / aliases of the trait and limits surface, by name
        for nm in ("true_type", "false_type", "bool_constant<true>", "bool_constant<false>"):
            obs.append(Ob(nm, "integral_constant.alias", 1, "c15::X_const_alias<etl::%s, std::%s>()" % (nm, nm), "misc"))
        for nm in ("round_indeterminate", "round_toward_zero", "round_to_nearest", "round_toward_infinity", "round_toward_neg_infinity",
                   "denorm_indeterminate", "denorm_absent", "denorm_present"):
            obs.append(Ob(nm, "numeric_limits.enumerator." + nm, 1,
                          "c15::X_value_eq<static_cast<long long>(etl::%s), static_cast<long long>(std::%s)>()" % (nm, nm), "limits"))
        # ---- _meta list operations against hand expansion (expected results computed here)
        rng = seeded(0, "meta")
        p0 = [t for t in lv[0] if not t.inc and not t.base.special]
        for li in range(sz["lists"]):
            k = rng.randrange(1, 6)
            elems = [rng.choice(p0[:40]) for _ in range(k)]
            L = "etl::meta::list<%s>" % ", ".join(A(e) for e in elems)
            Ln = "list<%s>" % ", ".join(e.name for e in elems)

            def same(nm, lhs, rhs, fl=1):
                obs.append(Ob(nm, "meta." + nm.split("<")[0].split("::")[-1], fl, "c15::M_same<%s, %s>()" % (lhs, rhs), "meta", nostd=True))

            def val(nm, lhs, v, fl=1):
                obs.append(Ob(nm, "meta." + nm.split("<")[0].split("::")[-1], fl, "c15::M_val<%s>(%d)" % (lhs, v), "meta", nostd=True))
            for i in range(k):
                same("meta::at_t<%d, %s>" % (i, Ln), "etl::meta::at_t<%d, %s>" % (i, L), A(elems[i]))
            same("meta::head_t<%s>" % Ln, "etl::meta::head_t<%s>" % L, A(elems[0]))
            same("meta::tail_t<%s>" % Ln, "etl::meta::tail_t<%s>" % L, "etl::meta::list<%s>" % ", ".join(A(e) for e in elems[1:]))
            x = rng.choice(p0[:40])
            same("meta::push_back_t<%s, %s>" % (x.name, Ln), "etl::meta::push_back_t<%s, %s>" % (A(x), L),
                 "etl::meta::list<%s>" % ", ".join(A(e) for e in elems + [x]))
            same("meta::push_front_t<%s, %s>" % (x.name, Ln), "etl::meta::push_front_t<%s, %s>" % (A(x), L),
                 "etl::meta::list<%s>" % ", ".join(A(e) for e in [x] + elems))
            for needle in {x.name: x, elems[-1].name: elems[-1]}.values():
                cnt = sum(1 for e in elems if e.name == needle.name)
                val("meta::contains_v<%s, %s>" % (needle.name, Ln), "etl::meta::contains<%s, %s>" % (A(needle), L), 1 if cnt else 0)
                val("meta::count_v<%s, %s>" % (needle.name, Ln), "etl::meta::count<%s, %s>" % (A(needle), L), cnt)
                if cnt:
                    val("meta::index_of_v<%s, %s>" % (needle.name, Ln), "etl::meta::index_of<%s, %s>" % (A(needle), L),
                        [e.name for e in elems].index(needle.name))
        # ---- helpers: integral_constant, conditional, enable_if, logical traits, void_t, aligned_storage/union
        for ty, v in (("int", "0"), ("int", "-7"), ("bool", "true"), ("unsigned long", "18446744073709551615ul"),
                      ("char", "'a'"), ("z::E0", "z::e0b"), ("long long", "(-9223372036854775807LL - 1)")):
            obs.append(Ob("integral_constant<%s, %s>" % (ty.replace("z::", ""), v.replace("z::", "")), "integral_constant", 1,
                          "c15::X_integral_constant<%s, %s>()" % (ty, v), "misc"))
        sm = [byname[x] for x in ("int", "void", "z::Agg", "z::Abstract", "void() const", "double")]
        sm = sm + [names[apply_chain(t, c).name] for t in sm[:3] for c in (("&",), ("const",), ("[]",))]
        sm = sm + [names[apply_chain(byname["void"], c).name] for c in (("volatile",), ("const", "volatile"))]
        for a in sm:
            obs.append(Ob("enable_if<true, %s>" % a.name, "enable_if", a.flags(), "c15::X_enable_if<true, %s>()" % A(a), "misc"))
            obs.append(Ob("enable_if<false, %s>" % a.name, "enable_if", a.flags(), "c15::X_enable_if<false, %s>()" % A(a), "misc"))
            obs.append(Ob("void_t<%s>" % a.name, "void_t", a.flags(), "c15::X_void_t<%s>()" % A(a), "misc"))
            for b in sm[:6]:
                for c in ("true", "false"):
                    obs.append(Ob("conditional<%s, %s, %s>" % (c, a.name, b.name), "conditional", a.flags() | b.flags(),
                                  "c15::X_conditional<%s, %s, %s>()" % (c, A(a), A(b)), "misc"))
        import itertools
        for k in range(0, 4):
            for tup in itertools.product((0, 1, 2), repeat=k):
                s = ", ".join(str(x) for x in tup)
                for op in ("conjunction", "disjunction"):
                    # std_filter: libstdc++ rejects some non-bool ::value combinations (narrowing inside __and_/__or_)
                    obs.append(Ob("%s<%s>" % (op, ", ".join("integral_constant<int, %d>" % x for x in tup)), op, 1,
                                  "c15::X_%s<%s>()" % (op, s), "misc", std_filter=True))
                    if k >= 1:
                        obs.append(Ob("%s<%s, NoValue>" % (op, ", ".join("integral_constant<int, %d>" % x for x in tup)),
                                      op + ".short_circuit", 1, "c15::X_%s_sc<%s>()" % (op, s), "misc", std_filter=True))
        for v in (0, 1, 2):
            obs.append(Ob("negation<integral_constant<int, %d>>" % v, "negation", 1, "c15::X_negation<%d>()" % v, "misc"))
        for ln in (1, 2, 3, 4, 7, 8, 16, 17, 64):
            for al in (1, 2, 4, 8, 16, 32):
                obs.append(Ob("aligned_storage<%d, %d>" % (ln, al), "aligned_storage", 1, "c15::X_aligned_storage<%d, %d>()" % (ln, al), "misc"))
        objs = [t for t in lv[0] if t.cat == "obj" and t.complete_obj and not t.abstract and t.base.kind != "func" and not t.base.special]
        rng = seeded(0, "aligned_union")
        for _ in range(40 if tier == "quick" else 300):
            ln = rng.choice((0, 1, 3, 8, 24, 100))
            ts = [rng.choice(objs) for _ in range(rng.randrange(1, 4))]
            obs.append(Ob("aligned_union<%d, %s>" % (ln, ", ".join(t.name for t in ts)), "aligned_union", pair_flags(ts),
                          "c15::X_aligned_union<%d, %s>()" % (ln, ", ".join(A(t) for t in ts)), "misc"))
        obs.append(Ob("is_constant_evaluated()", "is_constant_evaluated", 0, "c15::X_is_constant_evaluated()", "misc"))
    elif part in ("k0", "k1"):
        def mk(spec):
            t = byname[spec[0]]
            for d in spec[1]:
                t = t.decorate(d)
            return names[t.name]
        args7 = [mk(a) for a in K_ARGS]
        argsx = args7 + [mk(a) for a in K_ARGS_EXTRA]
        A_, B_ = args7[0], args7[1]

        def fdecs_for(f, n, rng, always=((), ("const", "&"))):
            """decorated forms of the callable f: the plain one, const& and n seeded others (function types: *, &)"""
            if f.cat == "func":
                chains = [(), ("*",), ("&",), ("*", "const")]
                return [names[apply_chain(f, c).name] for c in chains[: 2 + n]]
            rest = [c for c in K_FDECS if c not in always]
            chains = list(always) + rng.sample(rest, min(n, len(rest)))
            return [names[apply_chain(f, c).name] for c in chains]

        def nary(kind, trait, ts, sub):
            nm = "%s<%s>" % (trait, ", ".join(t.name for t in ts))
            return Ob(nm, pair_tag(trait, ts), pair_flags(ts) | 1, "c15::%s_%s<%s>()" % (kind, trait, ", ".join(A(t) for t in ts)), sub)
        if part == "k0":
            callables = [t for t in lv[0] if t.base.special and t.base.cpp != "z::KD" and t.base.cls not in ("adl_swap_class", "converting_class")] + [byname[x] for x in ("z::Functor", "z::LessInt", "z::Lambda")]
            canon = [(), (A_,), (A_, A_), (A_, B_), (B_, A_), (B_, B_), (args7[2],), (args7[3],)]
            alltup = [(a,) for a in argsx] + [(a, b) for a in argsx for b in argsx]
            for f in callables:
                rng = seeded(seed, "k0", f.name)
                for fd in fdecs_for(f, sz["k_fdecs"], rng, always=((),)):
                    tups = canon + rng.sample(alltup, sz["k_tuples"])
                    for tup in tups:
                        for trait, kind in K_INVOCABLE.items():
                            obs.append(nary(kind, trait, (fd,) + tuple(tup), "concepts" if kind == "C" else "binary"))
                cvv = [mk(v) for v in CV_VOID]
                for r in [byname["bool"], byname["z::BoolLike"]] + cvv:
                    for tup in (canon[1:6] if r in (byname["bool"], byname["void"]) else canon[1:4]):
                        obs.append(nary("V", "is_invocable_r", (r, f) + tuple(tup), "binary"))
        else:
            extra_pairs = [(mk(_t("z::Key")), byname["int"]), (byname["int"], mk(_t("z::Key"))), (mk(_t("z::Key")), mk(_t("z::Key"))),
                           (mk(_t("z::KD")), A_), (A_, mk(_t("z::KD")))]
            allpairs = [(a, b) for a in args7 for b in args7] + extra_pairs
            canon = [(A_, B_), (B_, A_), (A_, A_), (B_, B_)] + extra_pairs[:2]
            for rn in K_RELS:
                r0 = byname[rn]
                rng = seeded(seed, "k1", rn)
                for r in fdecs_for(r0, sz["k_relfdecs"] - 2, rng):
                    for a, b in allpairs:
                        obs.append(nary("C", "relation", (r, a, b), "concepts"))
                    for cn in ("equivalence_relation", "strict_weak_order"):
                        for a, b in canon + rng.sample(allpairs, sz["k_relpairs"]):
                            obs.append(nary("C", cn, (r, a, b), "concepts"))
    else:
        raise SystemExit("unknown part " + part)
    # unique names; drop what the standard leaves unspecified
    seen, out = set(), []
    for o in obs:
        m = re.match(r"^([A-Za-z_0-9]+)<", o.name)
        if m and (m.group(1) in NOTHROW_CTOR or m.group(1) in INVOKE_FAMILY):
            used = [allt[int(x)] for x in re.findall(r"c15t::T(\d+)", o.expr)]
            if std_unspecified(m.group(1), used):
                continue
        if o.name not in seen:
            seen.add(o.name)
            out.append(o)
    return out


# ------------------------------------------------------------------------------------------------ forced names
def split_args(s, names, k_max=3):
    """all ways to split 'A, B, C' into <= k_max type names of the universe"""
    toks = s.split(", ")
    res = []

    def rec(i, acc):
        if i == len(toks):
            res.append(list(acc))
            return
        if len(acc) == k_max:
            return
        for j in range(i + 1, len(toks) + 1):
            cand = ", ".join(toks[i:j])
            if cand in names:
                acc.append(names[cand])
                rec(j, acc)
                acc.pop()
    rec(0, [])
    return res


def resolve_name(name, part, lv, allt, names, seed):
    """build the obligation called `name` if it belongs to `part` (replay corpus / known-finding probes / old violations)"""
    m = re.match(r"^([A-Za-z_0-9]+)<(.*)>$", name)
    if m:
        trait, args = m.group(1), m.group(2)
        if part[0] in "ut":
            for tr, kind, dom, p in UNARY:
                if p == part and tr.rstrip("012").replace("_w", "") == trait:
                    for t in allt:
                        if dom(t):
                            o = unary_obligation(tr, kind, t)
                            if o.name == name:
                                return o
        if part[0] == "b":
            for tr, kind, p in BINARY:
                if tr == trait and p == part:
                    for ts in split_args(args, names):
                        if any(t.inc for t in ts):
                            continue
                        if (tr in NOTHROW_CTOR or tr in INVOKE_FAMILY) and std_unspecified(tr, ts):
                            continue  # an old violation file may name a combination that has since been recognised as unspecified
                        tag = pair_tag(tr, ts)
                        return Ob(name, tag, pair_flags(ts), "c15::%s_%s<%s>()" % (kind, tr, ", ".join(A(t) for t in ts)), "binary")
        if part in ("c0", "c1") and trait in set(UNARY_CONCEPTS + BINARY_CONCEPTS + TERNARY_CONCEPTS):
            for ts in split_args(args, names):
                if any(t.inc for t in ts) or (len(ts) == 1) != (part == "c0"):
                    continue
                tag = pair_tag(trait, ts)
                return Ob(name, tag, pair_flags(ts), "c15::C_%s<%s>()" % (trait, ", ".join(A(t) for t in ts)), "concepts")
    if part in ("k0", "k1"):
        m2 = re.match(r"^([A-Za-z_0-9]+)<(.*)>$", name)
        fam = set(K_INVOCABLE) | {"is_invocable_r"} if part == "k0" else {"relation", "equivalence_relation", "strict_weak_order"}
        if m2 and m2.group(1) in fam:
            trait = m2.group(1)
            kind = {"is_invocable": "V", "is_invocable_r": "V", "invoke_result": "T"}.get(trait, "C")
            for ts in split_args(m2.group(2), names, k_max=4):
                if any(t.inc for t in ts) or not any(t.base.special or t.base.cpp in ("z::KA", "z::KB", "z::Key") for t in ts):
                    continue
                if std_unspecified(trait, ts):
                    continue
                return Ob(name, pair_tag(trait, ts), pair_flags(ts) | 1, "c15::%s_%s<%s>()" % (kind, trait, ", ".join(A(t) for t in ts)),
                          "concepts" if kind == "C" else "binary")
    if part == "m0":
        for o in build_obligations("m0", lv, allt, names, seed, "thorough"):
            if o.name == name:
                return o
        m = re.match(r"^ratio_(\w+)<ratio<(-?\d+), (-?\d+)>, ratio<(-?\d+), (-?\d+)>>$", name)
        if m:
            op = m.group(1)
            v = [int(x) for x in m.groups()[1:]]
            return Ob(name, "ratio_%s.forced" % op, 1, "c15::R_%s<%s>()" % (op, ", ".join(lit(x) for x in v)), "ratio",
                      std_filter=True)
    return None


def forced_names():
    out = []
    for pat in ("replay/C15/*.json", "violations/C15/*.json"):
        for p in sorted(glob.glob(os.path.join(VERIF, pat))):
            try:
                with open(p) as f:
                    j = json.load(f)
                if isinstance(j.get("case"), str):
                    out.append(j["case"])
            except Exception:
                pass
    try:
        with open(os.path.join(VERIF, "known_findings.json")) as f:
            for kf in json.load(f).get("findings", []):
                if "C15" in kf.get("properties", []) and isinstance(kf.get("probe"), dict):
                    out.append(kf["probe"].get("case", ""))
    except Exception:
        pass
    return [n for n in out if n and n != "?"]


# ------------------------------------------------------------------------------------------------ emission
def cstr(s):
    return '"' + s.replace("\\", "\\\\").replace('"', '\\"') + '"'


def needed_types(obs, allt):
    used = set(int(x) for o in obs for x in re.findall(r"c15t::T(\d+)", o.expr))
    return used


def emit(path, part, tier, seed, obs, ill, allt, std_only_lines=None):
    """returns {line_number: obligation}.  `ill` = obligations removed by the pre-pass (reported at run time)."""
    lines = []
    w = lines.append
    w("// generated by gen/C15_gen.py part=%s tier=%s seed=%d -- do not edit" % (part, tier, seed))
    w("#pragma once")
    for ln in ZOO_CPP.strip("\n").split("\n"):
        w(ln)
    # aliases: closure of the used types over their inner types
    used = needed_types(obs, allt)
    bykey = {t.key(): t for t in allt}
    todo = list(used)
    while todo:
        i = todo.pop()
        t = allt[i]
        if t.decs:
            inner = bykey[(t.base.cpp, t.decs[:-1])]
            if inner.idx not in used:
                used.add(inner.idx)
                todo.append(inner.idx)
    w("namespace c15t {")
    for i in sorted(used):      # inner types have smaller indices (levels are concatenated in order)
        t = allt[i]
        if not t.decs:
            w("using T%d = %s;" % (i, t.base.cpp))
        else:
            inner = bykey[(t.base.cpp, t.decs[:-1])]
            d = t.decs[-1]
            w("using T%d = T%d%s;" % (i, inner.idx, {"const": " const", "volatile": " volatile"}.get(d, d)))
    w("} // namespace c15t")
    w("inline constexpr c15::Ob c15_table[] = {")
    where = {}
    for o in obs:
        w("{%s, %s, %d, %d, %s}," % (cstr(o.name), cstr(o.tag), o.flags, SUBS.index(o.sub), o.expr))
        where[len(lines)] = o
    w("{nullptr, nullptr, 0, 0, c15::Res{}}};")
    w("inline constexpr c15::Ill c15_ill[] = {")
    for o in ill:
        w("{%s, %s, %d, %d}," % (cstr(o.name), cstr(o.tag), o.flags, SUBS.index(o.sub)))
    w("{nullptr, nullptr, 0, 0}};")
    with open(path, "w") as f:
        f.write("\n".join(lines) + "\n")
    return where


def write_cfg(path, degraded=None):
    with open(path, "w") as f:
        f.write("// generated by gen/C15_gen.py\n#pragma once\n")
        if degraded is not None:
            f.write("#define C15_DEGRADED %s\n" % cstr(degraded))


def syntax_only(out, part, std_only=False, extra=()):
    cmd = ["g++", "-std=c++20", "-fsyntax-only", "-ftemplate-backtrace-limit=0", "-fconstexpr-ops-limit=2000000000",
           "-DTETL_ENABLE_CONTRACT_CHECKS=1", "-DTETL_ENABLE_CUSTOM_ASSERT_HANDLER=1", "-DTETL_VERIF=1",
           "-I" + out, "-I" + os.path.join(TETL_ROOT, "include"), "-I" + os.path.join(VERIF, "engine"),
           '-DC15_CFG="C15_%s.cfg.hpp"' % part, '-DC15_GEN="C15_%s.gen.hpp"' % part]
    if std_only:
        cmd.append("-DC15_STD_ONLY=1")
    cmd += list(extra) + [os.path.join(VERIF, "props", "C15_traits.cpp")]
    r = subprocess.run(cmd, capture_output=True, text=True, errors="replace", env=dict(os.environ, LC_ALL="C", LANG="C"))
    return r.returncode, r.stderr


def failing_lines(stderr, genname, where):
    """table lines named by GCC in the context of an ERROR (not merely of a warning).
    GCC groups diagnostics in blocks: an optional include chain, a header line ("file: In instantiation of ...:",
    "file: At global scope:"), the instantiation context ("required from here", "in 'constexpr' expansion of") and then
    one or more diagnostics that all share this context.  A block's table lines are failing iff the block has an error."""
    bad, ctx = set(), set()
    pat = re.compile(r"^[^\s:]*" + re.escape(genname) + r":(\d+)[:,]")
    hdr = re.compile(r"^\S[^\n]*: (In|At) [^\n]*:$")
    prev_chain = False
    for ln in stderr.split("\n"):
        chain = ln.startswith("In file included from ") or (prev_chain and ln.startswith("                 from "))
        if (chain and not prev_chain) or hdr.match(ln):
            ctx = set()
        prev_chain = chain
        m = pat.match(ln)
        if m and int(m.group(1)) in where:
            ctx.add(int(m.group(1)))
        if " error: " in ln or " fatal error: " in ln:
            bad |= ctx
    return bad


def first_error(stderr):
    for ln in stderr.split("\n"):
        if " error: " in ln:
            ln = ln.replace(os.path.join(TETL_ROOT, "include") + "/", "").replace(VERIF + "/", "")
            ln = re.sub(r":\d+:\d+: ", ": ", ln)[:300]
            return "".join(c if 32 <= ord(c) < 127 else "'" for c in ln)
    return "unknown error"


def log(*a):
    print(*a, file=sys.stderr, flush=True)


def main():
    ap = argparse.ArgumentParser()
    ap.add_argument("--part", required=True)
    ap.add_argument("--out", required=True)
    ap.add_argument("--seed", type=int, default=1)
    ap.add_argument("--tier", default="quick")
    ap.add_argument("--std-check", action="store_true", help="development: compile ALL lines with only the std side")
    ap.add_argument("--no-prepass", action="store_true")
    a = ap.parse_args()
    part, out, seed, tier = a.part, a.out, a.seed, a.tier
    os.makedirs(out, exist_ok=True)
    lv, allt, names = build_universe()
    subparts = part.split(",")
    part = "_".join(subparts)
    obs = []
    for sp in subparts:
        obs += build_obligations(sp, lv, allt, names, seed, tier)
    have = set(o.name for o in obs)
    for n in forced_names():
        for sp in subparts:
            if n not in have:
                o = resolve_name(n, sp, lv, allt, names, seed)
                if o is not None:
                    obs.append(o)
                    have.add(o.name)
    gen = os.path.join(out, "C15_%s.gen.hpp" % part)
    genname = "C15_%s.gen.hpp" % part
    cfg = os.path.join(out, "C15_%s.cfg.hpp" % part)
    write_cfg(cfg)
    stats = {"part": part, "obligations": len(obs), "std_rejected": 0, "ill_formed": 0, "passes": 0}
    if a.no_prepass:
        emit(gen, part, tier, seed, obs, [], allt)
        return 0

    # ---- 0. obligations whose std well-formedness is decided by the compiler (ratio arithmetic near overflow)
    cand = [o for o in obs if o.std_filter] if not a.std_check else [o for o in obs if not o.nostd]
    if cand:
        cur = list(cand)
        for _ in range(8):
            where = emit(gen, part, tier, seed, cur, [], allt)
            rc, err = syntax_only(out, part, std_only=True)
            stats["passes"] += 1
            if rc == 0:
                break
            bad = failing_lines(err, genname, where)
            if not bad:
                log("C15_gen[%s]: std-only pass fails without naming a table line:\n%s" % (part, err[-3000:]))
                return 3
            rej = set(where[l].name for l in bad)
            if a.std_check:
                for l in sorted(bad):
                    if not where[l].std_filter:
                        log("C15_gen[%s]: GENERATOR SOUNDNESS: std rejects %s" % (part, where[l].name))
            cur = [o for o in cur if o.name not in rej]
            stats["std_rejected"] += len(rej)
        else:
            log("C15_gen[%s]: std-only pass did not converge" % part)
            return 3
        if a.std_check and any(not o.std_filter for o in cand if o.name not in set(x.name for x in cur)):
            return 3
        keep = set(o.name for o in cur)
        candn = set(o.name for o in cand)
        obs = [o for o in obs if o.name not in candn or o.name in keep]

    # ---- 1. pre-pass: locate obligations that are hard errors on the etl side
    ill = []
    cur = list(obs)
    degraded = None
    checked_empty = False
    for it in range(8):
        where = emit(gen, part, tier, seed, cur, ill, allt)
        rc, err = syntax_only(out, part)
        stats["passes"] += 1
        if rc == 0:
            break
        bad = failing_lines(err, genname, where)
        if (not bad or (it == 0 and len(bad) * 5 >= 2 * len(cur))) and not checked_empty:
            # nothing (or suspiciously much) is attributable to table lines: do the headers compile at all (empty table)?
            checked_empty = True
            emit(gen, part, tier, seed, [], [], allt)
            rc0, err0 = syntax_only(out, part)
            stats["passes"] += 1
            if rc0 != 0:
                degraded = first_error(err0)
                break
        if not bad:
            # bisection fallback over the remaining obligations
            bad_obs = bisect(out, part, tier, seed, gen, cur, allt, stats)
            badn = set(o.name for o in bad_obs)
            ill += bad_obs
            cur = [o for o in cur if o.name not in badn]
            continue
        badn = set(where[l].name for l in bad)
        if os.environ.get("VERIF_C15_DEBUG"):
            log("C15_gen[%s]: pass %d: %d failing lines, e.g. %s" % (part, it, len(badn), sorted(badn)[:4]))
            with open(os.path.join(out, "C15_%s.pass%d.err" % (part, it)), "w") as f:
                f.write(err)
        ill += [o for o in cur if o.name in badn]
        cur = [o for o in cur if o.name not in badn]
    else:
        log("C15_gen[%s]: pre-pass did not converge after 8 passes" % part)
        return 3
    if degraded is not None:
        write_cfg(cfg, degraded)
        emit(gen, part, tier, seed, [], [], allt)
        log("C15_gen[%s]: DEGRADED: %s" % (part, degraded))
        return 0
    # ---- 1b. guard against over-removal: an obligation stays in `ill` only if it fails again without the company of
    #          the lines GCC blamed directly (lines that compile cleanly on their own go back into the table)
    if ill:
        cand_ok = list(ill)
        rc = 1
        for _ in range(4):
            where = emit(gen, part, tier, seed, cand_ok, [], allt)
            rc, err = syntax_only(out, part)
            stats["passes"] += 1
            if rc == 0:
                break
            flagged = set(where[l].name for l in failing_lines(err, genname, where))
            if not flagged:
                break
            cand_ok = [o for o in cand_ok if o.name not in flagged]
            if not cand_ok:
                break
        if rc == 0 and cand_ok:
            back = set(o.name for o in cand_ok)
            emit(gen, part, tier, seed, cur + cand_ok, [], allt)
            rc2, _ = syntax_only(out, part)
            stats["passes"] += 1
            if rc2 == 0:
                cur = cur + cand_ok
                ill = [o for o in ill if o.name not in back]
                stats["restored"] = len(back)
    # ---- 2. every removed line must be accepted by std alone, otherwise the generator is unsound
    chk = [o for o in ill if not o.nostd]
    if chk:
        where = emit(gen, part, tier, seed, chk, [], allt)
        rc, err = syntax_only(out, part, std_only=True)
        stats["passes"] += 1
        if rc != 0:
            bad = failing_lines(err, genname, where)
            log("C15_gen[%s]: GENERATOR SOUNDNESS BUG: std rejects: %s\n%s" % (part, [where[l].name for l in sorted(bad)], err[-2000:]))
            return 3
    emit(gen, part, tier, seed, cur, ill, allt)
    stats["ill_formed"] = len(ill)
    stats["kept"] = len(cur)
    with open(os.path.join(out, "C15_%s.gen.json" % part), "w") as f:
        json.dump(dict(stats, ill=[o.name for o in ill]), f, indent=1)
    log("C15_gen[%s]: %s" % (part, json.dumps(stats)))
    return 0


def bisect(out, part, tier, seed, gen, obs, allt, stats, budget=16):
    """fallback when GCC names no table line: find failing obligations by halving (bounded)"""
    bad = []

    def ok(chunk):
        emit(gen, part, tier, seed, chunk, [], allt)
        rc, _ = syntax_only(out, part)
        stats["passes"] += 1
        return rc == 0

    def rec(chunk):
        nonlocal budget
        if not chunk:
            return
        if budget <= 0:
            bad.extend(chunk)
            return
        budget -= 1
        if ok(chunk):
            return
        if len(chunk) == 1:
            bad.extend(chunk)
            return
        h = len(chunk) // 2
        rec(chunk[:h])
        rec(chunk[h:])
    rec(obs)
    return bad


if __name__ == "__main__":
    sys.exit(main())
