#!/usr/bin/env python3
"""C16: turn /verif/cmath_bounds.json (the committed, FIXED per-function ulp bounds) into C16_bounds.inc.

    gen/C16_bounds.py --out <build dir> [--seed N --tier T]        (called by bin/check before compiling)

The harnesses #include "C16_bounds.inc"; nothing is measured or adapted at run time.

One-off derivation (documented here so that the numbers in cmath_bounds.json can be traced; NOT part of any check):

    gen/C16_bounds.py --derive <files with MEASURE-MAX lines ...> --json-out cmath_bounds.json --tree "<tree / commit>"

where the files are the stdout of the C16_approx / C16_complex_misc harnesses built against the tree named by --tree
and run with C16_MEASURE=1 (the quick tier exactly as bin/check launches it for VERIF_SEED 1..6, plus one thorough-size
pass).  The table was first derived from the pinned tree and re-derived ONCE from the repaired tree after the C16 fix:
commits (the run-time paths of the gcem functions became libm calls, which made the first table far too loose).  Rule (DESIGN.md section 3 / C16):
bound = max(4, ceil(8 x largest observed error in ulps)).
"""
import json
import math
import os
import re
import sys

VERIF = os.path.dirname(os.path.dirname(os.path.abspath(__file__)))
JSON_PATH = os.path.join(VERIF, "cmath_bounds.json")

DOMAINS = {
    "sqrt": "x in [denorm_min, max] (every exponent incl. subnormals)",
    "exp": "x in [-110, 110] (float) / [-800, 800] (double): across the overflow (88.72 / 709.78) and underflow (-87.3, -103.97 / -708.4, -745.13) thresholds, plus log-uniform |x| down to denorm_min",
    "log": "x in [denorm_min, max] (every exponent incl. subnormals)", "log2": "x in [denorm_min, max] (every exponent incl. subnormals)", "log10": "x in [denorm_min, max] (every exponent incl. subnormals)",
    "log1p": "x in [-1, max] (every exponent incl. subnormals)",
    "pow": "base in [1/64, 64] with exponent in [-20, 20] (negative bases with integer exponents; pow(x, int) too); any positive base with an exponent that puts the result at 2^t, t across the overflow / underflow thresholds; bases 1 +- 2^-k with huge exponents; any finite base x any finite exponent (huge even / odd / non-integers); Annex F cross product",
    "sin": "every finite x: log-uniform over all exponents up to max (float and double), uniform in [-100, 100], and the +-2 ulp neighbourhoods of k*pi/2 for k up to 2^40 (float) / 2^70 (double)", "cos": "every finite x: log-uniform over all exponents up to max (float and double), uniform in [-100, 100], and the +-2 ulp neighbourhoods of k*pi/2 for k up to 2^40 (float) / 2^70 (double)", "tan": "every finite x: log-uniform over all exponents up to max (float and double), uniform in [-100, 100], and the +-2 ulp neighbourhoods of k*pi/2 for k up to 2^40 (float) / 2^70 (double)",
    "asin": "|x| <= 1, every exponent incl. subnormals", "acos": "|x| <= 1, every exponent incl. subnormals", "atan": "every finite x incl. subnormals",
    "atan2": "finite non-zero y, x over every exponent incl. subnormals, all quadrants, nearly equal magnitudes; Annex F cross product",
    "sinh": "|x| <= 92 (float) / 715 (double): up to and across the overflow thresholds 89.416 / 710.476, down to denorm_min", "cosh": "|x| <= 80 (float) / 700 (double) - still gcem's (exp(x)+exp(-x))/2 at run time on this tree, which overflows from 88.72 / 709.78 on, so the domain stops before that", "tanh": "every finite x incl. subnormals",
    "asinh": "every finite x incl. subnormals", "acosh": "x in [1, max]", "atanh": "|x| < 1, every exponent incl. subnormals",
    "erf": "every finite x incl. subnormals",
    "tgamma": "x in (0, 36] (float) / (0, 172] (double) incl. subnormals (across the overflow thresholds 35.04 / 171.62), negative non-integers down to -45 / -185 (underflow) and up to -denorm_min",
    "lgamma": "every positive x incl. subnormals up to max (overflow to inf included), negative x over every exponent (non-integers in [-50, 0), poles beyond); error in ulps of max(|result|, 1)",
    "hypot": "finite non-zero arguments whose squares stay in the normal range (binary exponents in [-62, 62] float / [-510, 510] double; beyond that is the class C16.hypot.naive, sampled over every exponent unless excluded); hypot(x,y,z): [-60, 60] / [-505, 505], reference sqrtl of the long double sum",
    "lerp": "finite a, b (exponents within +-60 / +-500), t in [0, 1]; error against the exactly rounded a + t(b - a) in ulps of max(|a|, |b|)",
}
COMPLEX_DOMAIN = "|re|, |im| <= 8 (sin/cos/tan: |re| up to max, sinh/cosh/tanh: |im| up to max, polar: |theta| up to max - every exponent and neighbourhoods of k*pi/2 for huge k): grid with step 1/4, uniform random points, components with log-uniform magnitude 2^-20..8, points next to zeros of sin/cos, |z|^2 around epsilon, rings around z = 1; norm-wise error max(|d re|, |d im|) / ulp(max(|re|, |im|, abs_floor)) of the glibc result"
FLOORS = {"lgamma": 1.0, "complex.log": 0.0078125, "complex.log10": 0.0078125}


def derive(files, out, tree):
    mx = {}
    for fn in files:
        with open(fn, errors="replace") as f:
            for line in f:
                m = re.match(r"MEASURE-MAX (\S+) (f32|f64) n=(\d+) max_ulp=(\S+) at (.*?) \| max_rel=", line)
                if not m:
                    continue
                key = (m.group(1), m.group(2))
                u, n, arg = float(m.group(4)), int(m.group(3)), m.group(5)
                cur = mx.get(key, [0.0, "", 0])
                if u > cur[0]:
                    cur[0], cur[1] = u, arg
                cur[2] += n
                mx[key] = cur
    funcs = {}
    for (name, ty), (u, arg, n) in sorted(mx.items()):
        e = funcs.setdefault(name, {"abs_floor": FLOORS.get(name, 0.0),
                                    "domain": DOMAINS.get(name, COMPLEX_DOMAIN if name.startswith("complex.") else "")})
        e[ty] = {"observed_max_ulp": round(u, 3), "argmax": arg, "samples": n, "bound_ulp": float(max(4, math.ceil(8 * u)))}
    doc = {
        "_doc": "FIXED per-function error bounds of property C16 (ulps of the glibc result; complex functions norm-wise). "
                "bound = max(4, ceil(8 x largest error observed on the stated domain)); abs_floor > 0 where the function "
                "has a zero (error in ulps of max(|result|, abs_floor)). Never recomputed at run time: gen/C16_bounds.py "
                "only copies the bound_ulp / abs_floor numbers into the generated header the harnesses compile against.",
        "derived_from": {"tree": tree, "libm": "glibc 2.36 (x86-64)",
                         "compiler": "g++ 12.2 -std=c++20 -O1 (ASan+UBSan harness build)",
                         "sampling": "C16_approx / C16_complex_misc with C16_MEASURE=1: quick tier exactly as bin/check launches it "
                                     "(4 resp. 3 shards, seeds VERIF_SEED*1000+i) for VERIF_SEED 1..6, plus one thorough-size pass "
                                     "(16 shards, seed 11): 4*10^6 samples per real function and type, 2*10^6 complex points per type",
                         "history": "first derived from the pinned tree at 82c068b (gcem run-time paths, known-finding classes excluded); "
                                    "re-derived once from the repaired tree after patch 24 and C16-41..51 were committed"},
        "functions": funcs,
    }
    with open(out, "w") as f:
        json.dump(doc, f, indent=1)
        f.write("\n")
    print("wrote", out, "with", len(funcs), "functions")


def generate(outdir):
    with open(JSON_PATH) as f:
        doc = json.load(f)
    rows = []
    for name, e in sorted(doc["functions"].items()):
        b32 = e.get("f32", {}).get("bound_ulp", -1.0)
        b64 = e.get("f64", {}).get("bound_ulp", -1.0)
        rows.append('    {"%s", %r, %r, %r},' % (name, float(b32), float(b64), float(e.get("abs_floor", 0.0))))
    text = """// GENERATED by gen/C16_bounds.py from cmath_bounds.json - do not edit.  Fixed bounds, nothing is measured at run time.
#pragma once
#include <cstring>
namespace c16_gen {
struct Row {
    char const* name;
    double b32, b64, floor_;
};
inline constexpr Row rows[] = {
%s
};
} // namespace c16_gen
// bound in ulps for function `name` and type "f32" / "f64"; -1 if cmath_bounds.json has no entry (the harness then fails)
inline double c16_bound(char const* name, char const* ty)
{
    for (auto const& r : c16_gen::rows) {
        if (std::strcmp(r.name, name) == 0) { return std::strcmp(ty, "f32") == 0 ? r.b32 : r.b64; }
    }
    return -1.0;
}
// error is measured in ulps of max(|libm result|, floor)
inline double c16_floor(char const* name)
{
    for (auto const& r : c16_gen::rows) {
        if (std::strcmp(r.name, name) == 0) { return r.floor_; }
    }
    return 0.0;
}
""" % "\n".join(rows)
    os.makedirs(outdir, exist_ok=True)
    tmp = os.path.join(outdir, "C16_bounds.inc.%d.tmp" % os.getpid())
    with open(tmp, "w") as f:
        f.write(text)
    os.replace(tmp, os.path.join(outdir, "C16_bounds.inc"))  # atomic: two harness builds generate it concurrently


def main():
    a = sys.argv[1:]
    if "--derive" in a:
        i = a.index("--derive")
        files = [x for x in a[i + 1:] if not x.startswith("--")]
        out = JSON_PATH
        if "--json-out" in a:
            out = a[a.index("--json-out") + 1]
            files = [x for x in files if x != out]
        tree = "unspecified"
        if "--tree" in a:
            tree = a[a.index("--tree") + 1]
            files = [x for x in files if x != tree]
        derive(files, out, tree)
        return 0
    if "--out" not in a:
        print(__doc__)
        return 2
    generate(a[a.index("--out") + 1])
    return 0


if __name__ == "__main__":
    sys.exit(main())
