#!/usr/bin/env python3
"""E4 generator for property C13 (compile-time evaluation == run-time execution).

    python3 gen/C13_gen.py <part>[+<part>] --out <builddir> --seed N --tier quick|thorough

(parts: cm64 cm32 cmld int8 num8 w1632 w64 cstr wstr scen cont het mix dur cal deg) writes <builddir>/C13_gen_<part>[_<part>].hpp: constexpr argument tables (bit patterns) and the list of
(function, table) instantiations `C13_OBLIGATIONS(X)` that props/C13_cteval.cpp (compiled with -DC13_PART_<PART>)
turns into  (a) constexpr result tables computed by the compiler, each block wrapped in the non-fatal
constant-expression probe, and (b) run-time calls on the same arguments laundered through volatile.

The tables are a pure function of (part, seed, tier) + the recorded cases found in /verif/replay/C13,
/verif/violations/C13 and the C13 probes of /verif/known_findings.json: every recorded (function, argument)
obligation is pinned into the tables, so a replay file stays evaluable whatever seed the tables were built with.
Python 3 standard library only.
"""
import argparse
import glob
import json
import os
import random
import struct
import sys

VERIF = os.path.dirname(os.path.dirname(os.path.abspath(__file__)))
M64 = (1 << 64) - 1


# ------------------------------------------------------------------------------------------ floating point
class FT:
    def __init__(self, name, width, mant, ebits):
        self.name, self.width, self.mant, self.ebits = name, width, mant, ebits
        self.bias = (1 << (ebits - 1)) - 1
        self.sign = 1 << (width - 1)
        self.inf = ((1 << ebits) - 1) << mant
        self.qnan = self.inf | (1 << (mant - 1))
        self.max = (((1 << ebits) - 2) << mant) | ((1 << mant) - 1)
        self.minnorm = 1 << mant
        self.denmax = (1 << mant) - 1

    def pow2(self, k):
        if k + self.bias <= 0:                      # subnormal power of two
            return 1 << (self.mant + k + self.bias - 1)
        return (k + self.bias) << self.mant

    def of(self, x):
        """bits of the python float x rounded to this type (round to nearest even)"""
        if self.width == 64:
            return struct.unpack('<Q', struct.pack('<d', x))[0]
        try:
            return struct.unpack('<I', struct.pack('<f', x))[0]
        except OverflowError:
            return self.inf | (self.sign if x < 0 else 0)

    def val(self, b):
        if self.width == 64:
            return struct.unpack('<d', struct.pack('<Q', b))[0]
        return struct.unpack('<f', struct.pack('<I', b))[0]

    def both(self, b):
        return [b, b | self.sign]


F32 = FT('f32', 32, 23, 8)
F64 = FT('f64', 64, 52, 11)


def float_boundaries(t):
    """the boundary table of DESIGN 3/C13: +-0, denormal min/max, min, powers of two +-1 ulp, n+.5 ties of both signs
    up to 2^mant, max, +-inf, NaN, plus the plain literals a unit test would use"""
    v = []
    for b in (0, 1, 2, t.denmax, t.denmax - 1, t.minnorm, t.minnorm + 1, t.max, t.max - 1, t.inf, t.qnan, t.qnan | 0x1234):
        v += t.both(b)
    ks = [-t.bias + 1, -100, -30, -10, -2, -1, 0, 1, 2, 3, 4, 7, 8, 10, 15, 16, t.mant - 2, t.mant - 1, t.mant, t.mant + 1,
          t.mant + 2, 30, 31, 32, 33, 52, 53, 61, 62, 63, 64, 65, 100, t.bias - 1, t.bias]
    for k in sorted(set(ks)):
        if -t.bias + 1 <= k <= t.bias:
            p = t.pow2(k)
            for b in (p - 1, p, p + 1):
                v += t.both(b)
    # ties n + .5 (exactly representable while n < 2^mant), both signs, and their 1-ulp neighbours for small n
    ns = list(range(0, 12)) + [99, 100, 101, 255, 256, 1000, 1001]
    for k in (8, 15, 16, t.mant - 1, t.mant, 31, 32, 51, 52):
        if k <= t.mant:
            ns += [(1 << k) - 2, (1 << k) - 1, (1 << k), (1 << k) + 1]
    for n in sorted(set(ns)):
        if n + 0.5 < 2.0 ** t.mant:
            b = t.of(n + 0.5)
            v += t.both(b)
            if n < 12:
                v += t.both(b - 1) + t.both(b + 1)
    # integers around the integer-conversion limits
    for x in (2.0 ** 31 - 1, 2.0 ** 31, 2.0 ** 31 + 1, 2.0 ** 32 - 1, 2.0 ** 32, 2.0 ** 63 - 1024, 2.0 ** 63, 2.0 ** 64, 1e30, 1e-30, 1e18, 9.2e18,
              1e19, 1e300, 1e-300, 4503599627370497.0, 9007199254740993.0):
        v += t.both(t.of(x))
    # plain literals
    for x in (1.0, 2.0, 3.0, 3.7, 3.2, 0.1, 0.25, 0.75, 0.9, 1.1, 2.4, 2.6, 42.0, 42.42, 1234.5678, 0.3, 1e6 + 0.25, 1e6 + 0.75):
        v += t.both(t.of(x))
    return v


def float_random(t, rng, n):
    out = []
    for i in range(n):
        c = i % 5
        sign = t.sign if rng.getrandbits(1) else 0
        if c == 0:      # uniform bit pattern (exponent uniform: mostly huge / tiny / some NaN)
            b = rng.getrandbits(t.width)
        elif c == 1:    # moderate magnitude with a fraction
            k = rng.randint(-3, t.mant + 12)
            b = sign | ((k + t.bias) << t.mant) | rng.getrandbits(t.mant)
        elif c == 2:    # random tie n + .5
            n_ = rng.getrandbits(rng.randint(1, t.mant - 1))
            b = sign | t.of(n_ + 0.5)
        elif c == 3:    # integer valued
            n_ = rng.getrandbits(rng.randint(1, 62))
            b = sign | t.of(float(n_))
        else:           # subnormal / tiny
            b = sign | rng.getrandbits(rng.randint(1, t.mant + 2))
        out.append(b & ((1 << t.width) - 1))
    return out


def float_reduced(t):
    v = []
    for b in (0, 1, t.minnorm, t.max, t.inf, t.qnan):
        v += t.both(b)
    for x in (1.0, 1.5, 2.5, 3.0, 0.5, 7.25, 0.1, 2.0 ** t.mant, 2.0 ** t.mant + 2, 2.0 ** 100, 2.0 ** 63):
        v += t.both(t.of(x))
    v += [t.pow2(0) + 1, t.pow2(0) - 1]
    return v


def float_tables(t, rng, tier):
    big = tier == 'thorough'
    t1 = uniq([(b,) for b in float_boundaries(t) + float_random(t, rng, 2000 if big else 400)])
    red = float_reduced(t)
    t2 = [(a, b) for a in red for b in red]
    rr = float_random(t, rng, 2 * (2500 if big else 500))
    t2 += [(rr[2 * i], rr[2 * i + 1]) for i in range(len(rr) // 2)]
    bd = float_boundaries(t)
    for i in range(1500 if big else 300):           # boundary value against random / boundary value
        t2.append((rng.choice(bd), rng.choice(bd)))
        t2.append((rng.choice(bd), rng.choice(rr)))
        t2.append((rng.choice(rr), rng.choice(bd)))
    t2 = uniq(t2)
    # fma: small cube + products whose rounding error is the whole answer (z = -fl(x*y)) + random
    r3 = [0, t.sign, t.of(1.0), t.of(-1.0), t.pow2(0) + 1, t.pow2(0) - 1, t.of(3.0), t.of(0.1), t.max, 1, t.inf, t.qnan]
    t3 = [(a, b, c) for a in r3 for b in r3 for c in r3]
    for i in range(2000 if big else 400):
        k1, k2 = rng.randint(-20, 20), rng.randint(-20, 20)
        x = ((k1 + t.bias) << t.mant) | rng.getrandbits(t.mant) | (t.sign if rng.getrandbits(1) else 0)
        y = ((k2 + t.bias) << t.mant) | rng.getrandbits(t.mant) | (t.sign if rng.getrandbits(1) else 0)
        p = t.val(x) * t.val(y)                      # exact in double for f32, correctly rounded for f64
        z = t.of(-p)
        t3.append((x, y, z))
        t3.append((x, y, z ^ 1))
        t3.append((x, y, t.of(float(rng.randint(-5, 5)))))
    rr = float_random(t, rng, 3 * (1000 if big else 200))
    t3 += [(rr[3 * i], rr[3 * i + 1], rr[3 * i + 2]) for i in range(len(rr) // 3)]
    t3 = uniq(t3)
    return t1, t2, t3


# ------------------------------------------------------------------------------------------ integers
def int_boundaries(w):
    m = (1 << w) - 1
    v = [0, 1, 2, 3, 5, 7, 10, 100, m, m - 1, m - 2, 1 << (w - 1), (1 << (w - 1)) - 1, (1 << (w - 1)) + 1]
    for pat in (0x5555555555555555, 0xAAAAAAAAAAAAAAAA, 0x0F0F0F0F0F0F0F0F, 0xF0F0F0F0F0F0F0F0, 0x00FF00FF00FF00FF, 0x0123456789ABCDEF,
                0x8000000000000001, 0xFEDCBA9876543210):
        v.append(pat & m)
        v.append((pat >> (64 - w)) & m)
    for k in range(w):
        v += [(1 << k) & m, ((1 << k) - 1) & m, ((1 << k) + 1) & m, (m ^ (1 << k)) & m, (-(1 << k)) & m]
    return uniq1(v)


def int_random(w, rng, n):
    out = []
    m = (1 << w) - 1
    for i in range(n):
        c = i % 3
        if c == 0:
            b = rng.getrandbits(w)
        elif c == 1:
            b = rng.getrandbits(rng.randint(1, w))
        else:
            b = (-rng.getrandbits(rng.randint(1, w - 1))) & m
        out.append(b)
    return out


def int_reduced(w):
    m = (1 << w) - 1
    h = 1 << (w - 1)
    return uniq1([0, 1, 2, 3, 6, 7, 12, 100, m, m - 1, h, h - 1, h + 1, h >> 1, (0x5555555555555555) & m, (0xAAAAAAAAAAAAAAAA) & m,
                  (-2) & m, (-3) & m, (-7) & m, (-100) & m, 1 << (w // 2), (1 << (w // 2)) - 1, (1 << (w // 2)) + 1, 46341 & m, 65521 & m, 2147483647 & m,
                  4294967291 & m, 3037000499 & m, 6074000998 & m])


def int_tables(w, rng, tier):
    big = tier == 'thorough'
    t1 = uniq([(b,) for b in int_boundaries(w) + int_random(w, rng, 1500 if big else 300)])
    red = int_reduced(w)
    t2 = [(a, b) for a in red for b in red]
    rr = int_random(w, rng, 2 * (2000 if big else 400))
    t2 += [(rr[2 * i], rr[2 * i + 1]) for i in range(len(rr) // 2)]
    bd = int_boundaries(w)
    for i in range(1500 if big else 300):
        t2.append((rng.choice(bd), rng.choice(bd)))
        t2.append((rng.choice(bd), rng.choice(rr)))
    # multiples (gcd / lcm with a non-trivial common factor)
    for i in range(1500 if big else 300):
        g = rng.getrandbits(rng.randint(1, w // 2 - 1)) | 1
        a = rng.getrandbits(rng.randint(1, w // 2 - 1))
        b = rng.getrandbits(rng.randint(1, w // 2 - 1))
        t2.append(((g * a) & ((1 << w) - 1), (g * b) & ((1 << w) - 1)))
    t2 = uniq(t2)
    # (value, shift count) for rotl / rotr: count is an int
    shifts = [0, 1, 2, 7, 8, 9, 15, 16, 17, 31, 32, 33, 63, 64, 65, 127, 128, 1000, 0x7fffffff, -1, -2, -7, -8, -9, -31, -32, -33, -63, -64, -65,
              -128, -1000, -0x80000000]
    ts = [(a, s & 0xffffffff) for a in int_boundaries(w)[:: (1 if big else 4)] for s in shifts]
    for i in range(2000 if big else 400):
        ts.append((rng.getrandbits(w), rng.getrandbits(32)))
    ts = uniq(ts)
    # (value, bit position < w)
    tp = [(a, p) for a in red for p in range(w)]
    for i in range(2000 if big else 400):
        tp.append((rng.getrandbits(w), rng.randrange(w)))
    tp = uniq(tp)
    return t1, t2, ts, tp


def uniq(seq):
    seen = set()
    out = []
    for x in seq:
        if x not in seen:
            seen.add(x)
            out.append(x)
    return out


def uniq1(seq):
    return [x[0] for x in uniq([(y,) for y in seq])]


# ------------------------------------------------------------------------------------------ C strings
def pack(s):
    """bytes (no NUL, len <= 7) -> u64, little endian, terminated by the first zero byte"""
    assert len(s) <= 7 and 0 not in s
    b = 0
    for i, c in enumerate(s):
        b |= c << (8 * i)
    return b


def all_strings(alpha, maxlen):
    out = [b'']
    frontier = [b'']
    for _ in range(maxlen):
        frontier = [s + bytes([c]) for s in frontier for c in alpha]
        out += frontier
    return out


def cstr_tables(rng, tier):
    big = tier == 'thorough'
    alpha = [0x61, 0x62, 0x63, 0xe9] if big else [0x61, 0x62, 0xe9]
    strs = all_strings(alpha, 3)
    longer = []
    for i in range(300 if big else 60):
        n = rng.randint(4, 7)
        longer.append(bytes(rng.choice(alpha + [0x7f, 0x80, 0xff, 0x01, 0x20]) for _ in range(n)))
    s1 = uniq([(pack(s),) for s in strs + longer])
    s2 = [(pack(a), pack(b)) for a in strs for b in strs]
    for i in range(1500 if big else 300):
        a = rng.choice(longer)
        b = rng.choice(longer + strs)
        if rng.getrandbits(1):          # related strings: common prefix / substring
            cut = rng.randint(0, len(a))
            b = a[:cut] if rng.getrandbits(1) else a[cut:]
        s2.append((pack(a), pack(b)))
        s2.append((pack(b), pack(a)))
    s2 = uniq(s2)
    # (s1, s2, n) for strncmp
    s2n = []
    base = s2 if big else s2[:: 2]
    for (a, b) in base:
        for n in (0, 1, 2, 3, 4, 8):
            s2n.append((a, b, n))
    s2n = uniq(s2n)
    # (s, ch) for strchr / strrchr: ch is an int converted to char by the function
    chs = [0, 0x61, 0x62, 0x63, 0x7a, 0xe9, 0xff, 0x80, 0x161, 0xffffffe9, 0x100, 0xffffffff]
    sc = uniq([(pack(s), c) for s in strs + longer for c in chs])
    return s1, s2, s2n, sc


# ------------------------------------------------------------------------------------------ scenario seeds
def scen_tables(rng, tier):
    big = tier == 'thorough'
    n = 750 if big else 150
    fixed = [0, 1, 2, 3, 0xffffffffffffffff, 0x8000000000000000, 0x0123456789abcdef, 0x5555555555555555]
    return uniq([(x,) for x in fixed] + [(rng.getrandbits(64),) for _ in range(n)])


# ------------------------------------------------------------------------------------------ parts
def lerp_table(t, rng, tier):
    big = tier == 'thorough'
    mx = t.val(t.max)
    ends = []
    for x in (mx, 0.75 * mx, 0.5 * mx, t.val(t.pow2(t.bias - 1) + 1), 1e30, 3.0, 1.0, 0.1, t.val(t.minnorm), t.val(1)):
        ends += t.both(t.of(x))
    ends += [0, t.sign]
    ts = [t.of(x) for x in (0.0, 1.0, 0.5, 0.25, 0.75, 0.1)] + [t.sign, 1, t.pow2(0) - 1, t.pow2(-1) + 1, t.of(2.0), t.of(-1.0), t.of(1.5), t.of(1e6)]
    rows = [(a, b, c) for a in ends for b in ends for c in ts]
    rr = float_random(t, rng, 3 * (1000 if big else 200))
    for i in range(len(rr) // 3):
        rows.append((rr[3 * i], rr[3 * i + 1], t.of(rng.random())))
        rows.append((rr[3 * i], rr[3 * i + 1], rr[3 * i + 2]))
    return uniq(rows)


def huge_pairs(t):
    """argument pairs whose naive intermediate (a + b, b - a) overflows although the exact result is finite"""
    mx = t.val(t.max)
    hs = []
    for x in (mx, 0.75 * mx, 0.5 * mx, t.val(t.pow2(t.bias - 1) + 1), t.val(t.max - 1)):
        hs += t.both(t.of(x))
    small = [0, t.sign, t.of(1.0), t.of(-1.0), 1, t.minnorm, t.of(3.0)]
    return [(a, b) for a in hs for b in hs] + [(a, b) for a in hs for b in small] + [(b, a) for a in hs for b in small]


def cmath_part(t, sfx, tables, L):
    t1, t2, t3 = tables
    t2 = uniq(t2 + huge_pairs(t))
    L.table('t1_' + sfx, t1)
    L.table('t2_' + sfx, t2)
    L.table('t3_' + sfx, t3)
    for f in ('floor', 'ceil', 'trunc', 'round', 'rint', 'lrint', 'llrint', 'signbit', 'fabs', 'abs', 'isnan', 'isinf', 'isfinite'):
        L.ob(f + '_' + sfx, f + '.' + sfx, 't1_' + sfx)
    for f in ('copysign', 'fmin', 'fmax', 'fdim', 'fmod', 'remainder', 'nextafter', 'midpoint'):
        L.ob(f + '_' + sfx, f + '.' + sfx, 't2_' + sfx)
    L.ob('fma_' + sfx, 'fma.' + sfx, 't3_' + sfx)
    L.table('tl_' + sfx, L.lerp)
    L.ob('lerp_' + sfx, 'lerp.' + sfx, 'tl_' + sfx)


class Listing:
    def __init__(self, part, pinned):
        self.part = part
        self.pinned = pinned
        self.tables = []
        self.obs = []
        self.names = {}

    def table(self, name, rows):
        self.tables.append((name, rows))

    def ob(self, fid, fname, tab):
        """function descriptor id in the .cpp, its case-string name, table (generated) or domain (defined in the .cpp)"""
        self.obs.append((fid, tab))
        self.names[fname] = fid

    def emit(self, seed, tier):
        o = []
        o.append('// generated by gen/C13_gen.py part=%s seed=%d tier=%s -- do not edit' % (self.part, seed, tier))
        o.append('#pragma once')
        o.append('namespace c13gen {')
        npin = 0
        for fname, fid in sorted(self.names.items()):
            rows = uniq(self.pinned.get(fname, []))
            if rows:
                self.tables.append(('pin_' + fid, rows))
                self.obs.append((fid, 'pin_' + fid))
                npin += len(rows)
        for name, rows in self.tables:
            o.append('inline constexpr unsigned long long %s_data[%d][3] = {' % (name, max(1, len(rows))))
            line = []
            for r in rows:
                r = tuple(r) + (0,) * (3 - len(r))
                line.append('{0x%xULL,0x%xULL,0x%xULL}' % tuple(x & M64 for x in r))
                if len(line) == 4:
                    o.append(' ' + ','.join(line) + ',')
                    line = []
            if line:
                o.append(' ' + ','.join(line) + ',')
            if not rows:
                o.append(' {0,0,0}')
            o.append('};')
            o.append('struct %s : c13::Table<%s_data, %d> { static constexpr char const* name = "%s"; };' % (name, name, len(rows), name))
        o.append('} // namespace c13gen')
        o.append('#define C13_OBLIGATIONS(X) \\')
        for fid, tab in self.obs:
            gen = any(tab == n for n, _ in self.tables)
            o.append('    X(%s, %s%s) \\' % (fid, 'c13gen::' if gen else 'c13::', tab))
        o.append('    /* end */')
        o.append('#define C13_GEN_SEED %d' % seed)
        o.append('#define C13_GEN_PINNED %d' % npin)
        return '\n'.join(o) + '\n'


def load_pinned():
    """(function name -> [arg tuples]) from every recorded C13 case"""
    pinned = {}

    def add(cs):
        if not isinstance(cs, str) or '|' not in cs:
            return
        name, _, rest = cs.partition('|')
        try:
            args = tuple(int(x, 0) & M64 for x in rest.split(',') if x != '')
        except ValueError:
            return
        if 1 <= len(args) <= 3:
            pinned.setdefault(name, []).append(args)

    for d in ('replay', 'violations'):
        for p in sorted(glob.glob(os.path.join(VERIF, d, 'C13', '*.json'))):
            try:
                with open(p) as f:
                    add(json.load(f).get('case'))
            except Exception:
                pass
    try:
        with open(os.path.join(VERIF, 'known_findings.json')) as f:
            for kf in json.load(f).get('findings', []):
                if 'C13' in kf.get('properties', []):
                    add(kf.get('probe', {}).get('case'))
    except Exception:
        pass
    return pinned


CCTYPE = ('isalnum', 'isalpha', 'isblank', 'iscntrl', 'isdigit', 'isgraph', 'islower', 'isprint', 'ispunct', 'isspace', 'isupper', 'isxdigit',
          'tolower', 'toupper')
BIT1 = ('popcount', 'countl_zero', 'countl_one', 'countr_zero', 'countr_one', 'bit_width', 'bit_ceil', 'bit_floor', 'has_single_bit', 'byteswap')
BITPOS = ('set_bit', 'reset_bit', 'flip_bit', 'test_bit', 'set_bit0', 'set_bit1')
SATCASTS = ('i32_i8', 'i32_u8', 'u32_i8', 'i64_i32', 'u64_i64', 'i64_u64', 'i16_u32', 'u64_u16', 'i64_i16', 'i32_u32', 'u32_i32')


def build(parts, seed, tier, pinned):
    """parts: 'a' or 'a+b' (several parts compiled into one translation unit)"""
    L = Listing(parts, pinned)
    for part in parts.split('+'):
        build_part(L, part, seed, tier)
    return L.emit(seed, tier)


def build_part(L, part, seed, tier):
    rng = random.Random('C13/%s/%d' % (part, seed))      # the tier changes table sizes, not the stream's seed
    if part == 'cm64':
        tabs = float_tables(F64, rng, tier)
        L.lerp = lerp_table(F64, rng, tier)
        cmath_part(F64, 'f64', tabs, L)
    elif part == 'cm32':
        tabs = float_tables(F32, rng, tier)
        L.lerp = lerp_table(F32, rng, tier)
        cmath_part(F32, 'f32', tabs, L)
    elif part == 'cmld':
        big = tier == 'thorough'
        hi = float_boundaries(F64) + float_random(F64, rng, 1000 if big else 200)
        t1 = [(b, 0) for b in hi]
        # beyond the double grid: n + .5, n +- 1 for n = 2^k (k = 52..62), 2^63 - 1, 2^63 - .5, -2^63 - 1, both signs
        for k in range(52, 64):
            for lo in (0.5, -0.5, 1.0, -1.0, 0.25, -0.75):
                if k == 63 and lo > 0:
                    continue
                for sgn in (1.0, -1.0):
                    t1.append((F64.of(sgn * 2.0 ** k), F64.of(sgn * lo)))
        for i in range(1000 if big else 200):
            k = rng.randint(53, 62)
            n = float((1 << k) + (rng.getrandbits(k - 11) << 11))        # exact double
            lo = rng.choice((0.5, -0.5, 0.25, 0.75, -0.25, 1.0, 3.0, 0.4999999))
            sgn = rng.choice((1.0, -1.0))
            t1.append((F64.of(sgn * n), F64.of(sgn * lo)))
        L.table('tl1', uniq(t1))
        red = float_reduced(F64)
        L.table('tl2', uniq([(a, b) for a in red for b in red]))
        for f in ('floor', 'ceil', 'trunc', 'round', 'rint', 'lrint', 'llrint', 'signbit', 'fabs', 'abs', 'isnan', 'isinf', 'isfinite'):
            L.ob(f + '_ld', f + '.ld', 'tl1')
        for f in ('copysign', 'fmin', 'fmax'):
            L.ob(f + '_ld', f + '.ld', 'tl2')
    elif part in ('int8', 'num8'):
        pairs = 'dom_u8x8' if tier == 'thorough' else 'dom_u8x8q'
        if part == 'int8':
            for f in CCTYPE:
                L.ob(f, f, 'dom_cctype')
            for f in BIT1:
                L.ob(f + '_u8', f + '.u8', 'dom_u8')
            for f in ('rotl', 'rotr'):
                L.ob(f + '_u8', f + '.u8', 'dom_u8_rot')
            for f in BITPOS:
                L.ob(f + '_u8', f + '.u8', 'dom_u8_pos')
            for s in ('i8', 'u8'):
                for f in ('add_sat', 'div_sat'):
                    L.ob(f + '_' + s, f + '.' + s, pairs)
                L.ob('abs_' + s, 'abs.' + s, 'dom_u8')
            for f in ('sat_i8_u8', 'sat_u8_i8'):
                L.ob(f, f.replace('sat_', 'saturate_cast.'), 'dom_u8')
        else:
            for s in ('i8', 'u8'):
                for f in ('midpoint', 'gcd', 'lcm'):
                    L.ob(f + '_' + s, f + '.' + s, pairs)
    elif part in ('w1632', 'w64'):
        for w in ((16, 32) if part == 'w1632' else (64,)):
            t1, t2, ts, tp = int_tables(w, rng, tier)
            L.table('w%d_1' % w, t1)
            L.table('w%d_2' % w, t2)
            L.table('w%d_s' % w, ts)
            L.table('w%d_p' % w, tp)
            for f in BIT1:
                L.ob('%s_u%d' % (f, w), '%s.u%d' % (f, w), 'w%d_1' % w)
            for f in ('rotl', 'rotr'):
                L.ob('%s_u%d' % (f, w), '%s.u%d' % (f, w), 'w%d_s' % w)
            for f in BITPOS:
                L.ob('%s_u%d' % (f, w), '%s.u%d' % (f, w), 'w%d_p' % w)
            for s in ('i', 'u'):
                for f in ('add_sat', 'div_sat', 'midpoint', 'gcd', 'lcm'):
                    L.ob('%s_%s%d' % (f, s, w), '%s.%s%d' % (f, s, w), 'w%d_2' % w)
                L.ob('abs_%s%d' % (s, w), 'abs.%s%d' % (s, w), 'w%d_1' % w)
        if part == 'w64':
            for f in ('abs_int', 'abs_ll', 'labs', 'llabs'):
                L.ob(f, f.replace('_', '.'), 'w64_1')
            for sc in SATCASTS:
                L.ob('sat_' + sc, 'saturate_cast.' + sc, 'w64_1')
        else:
            # bit_cast: every boundary pattern plus NaN payloads / signalling NaNs plus random patterns
            extra32 = [(b,) for b in float_boundaries(F32)] + [(0x7f800001,), (0xff800001,), (0x7fbfffff,), (0x7fc00001,), (0xffffffff,)]
            extra64 = [(b,) for b in float_boundaries(F64)] + [(0x7ff0000000000001,), (0xfff0000000000001,), (0x7ff7ffffffffffff,), (0xffffffffffffffff,)]
            nr = 3000 if tier == 'thorough' else 300
            L.table('bc32', uniq(extra32 + [(rng.getrandbits(32),) for _ in range(nr)]))
            L.table('bc64', uniq(extra64 + [(rng.getrandbits(64),) for _ in range(nr)]))
            for f in ('bit_cast_u32_f32', 'bit_cast_f32_u32', 'bit_cast_arr_u32'):
                L.ob(f, f.replace('bit_cast_', 'bit_cast.'), 'bc32')
            for f in ('bit_cast_u64_f64', 'bit_cast_f64_u64', 'bit_cast_i64_f64'):
                L.ob(f, f.replace('bit_cast_', 'bit_cast.'), 'bc64')
    elif part == 'cstr':
        s1, s2, s2n, sc = cstr_tables(rng, tier)
        L.table('s1', s1)
        L.table('s2', s2)
        L.table('s2n', s2n)
        L.table('sc', sc)
        L.ob('strlen', 'strlen', 's1')
        for f in ('strcmp', 'strspn', 'strcspn', 'strpbrk', 'strstr', 'sv_find', 'sv_rfind', 'sv_compare', 'traits_compare'):
            L.ob(f, f, 's2')
        L.ob('strncmp', 'strncmp', 's2n')
        for f in ('strchr', 'strrchr', 'traits_find'):
            L.ob(f, f, 'sc')
    elif part == 'wstr':
        big = tier == 'thorough'

        def pk(seq):
            v = 0
            for i, c in enumerate(seq):
                v |= c << (4 * i)
            return v

        prefixes = [[], [1, 2], [3, 3, 1]] if big else [[], [1, 2]]
        suffixes = [[]]
        pairs = []
        for pre in prefixes:
            for suf in suffixes:
                for a in range(13):
                    for b in range(13):
                        s1 = pre + ([a] + suf if a else [])
                        s2 = pre + ([b] + suf if b else [])
                        pairs.append((tuple(s1), tuple(s2)))
        for i in range(160 if big else 80):             # longer related sequences
            n = rng.randint(3, 7)
            s1 = [rng.randint(1, 12) for _ in range(n)]
            cut = rng.randint(0, n)
            s2 = s1[:cut] + [rng.randint(1, 12) for _ in range(rng.randint(0, 3))]
            if rng.getrandbits(1):
                s2 = s1[cut:]                           # substring / suffix
            pairs.append((tuple(s1), tuple(s2[:7])))
        pairs = uniq(pairs)
        seqs = uniq([p[0] for p in pairs] + [p[1] for p in pairs])                                  # for the bounded functions
        seqs_all = uniq(seqs + [(a, b) for a in range(1, 13) for b in range(1, 13)])             # for length

        def counts(*lens):
            out = {0, 1}
            for l in lens:
                out |= {max(l - 1, 0), l, l + 1, l + 2}
            return sorted(out)

        L.table('wu2', [(a, b) for a in range(1, 13) for b in range(1, 13)])
        L.table('w1', [(pk(s),) for s in seqs_all])
        L.table('w2', [(pk(a), pk(b)) for a, b in pairs])
        L.table('w3', uniq([(pk(a), pk(b), n) for a, b in pairs for n in counts(len(a), len(b))]))
        L.table('w1n', uniq([(pk(s), n) for s in seqs for n in counts(len(s))]))
        cs = (1, 2, 7, 12) if big else (1, 7, 12)
        L.table('w1cn', uniq([(pk(s), c, n) for s in seqs[::2] for c in set(cs) | set(s[:2]) for n in counts(len(s)) if n <= len(s)]))
        L.table('wcn', [(c, n) for c in range(1, 13) for n in range(0, 6)])
        for sfx in ('c8', 'u8', 'u16', 'u32', 'wc'):
            for f in ('traits_lt', 'traits_eq'):
                L.ob('%s_%s' % (f, sfx), '%s.%s' % (f, sfx), 'wu2')
            L.ob('traits_length_' + sfx, 'traits_length.' + sfx, 'w1')
            L.ob('traits_compare_' + sfx, 'traits_compare.' + sfx, 'w3')
            L.ob('traits_find_' + sfx, 'traits_find.' + sfx, 'w1cn')
            for f in ('traits_copy', 'traits_move_up', 'traits_move_down'):
                L.ob('%s_%s' % (f, sfx), '%s.%s' % (f, sfx), 'w1n')
            L.ob('traits_assign_' + sfx, 'traits_assign.' + sfx, 'wcn')
            for f in ('sv_compare', 'sv_less', 'sv_find', 'str_compare'):
                L.ob('%s_%s' % (f, sfx), '%s.%s' % (f, sfx), 'w2')
            L.ob('sv_find_ch_' + sfx, 'sv_find_ch.' + sfx, 'wu2s')
        for fid, name, tab in (('strncpy_x', 'strncpy', 'w1n'), ('strncat_x', 'strncat', 'w3'), ('strncmp_x', 'strncmp_exact', 'w3'),
                               ('wcsncpy_x', 'wcsncpy', 'w1n'), ('wcsncat_x', 'wcsncat', 'w3'), ('wcsncmp_x', 'wcsncmp', 'w3'),
                               ('wcscmp_x', 'wcscmp', 'w2'), ('wcslen_x', 'wcslen', 'w1'), ('wcsstr_x', 'wcsstr', 'w2'), ('wcsspn_x', 'wcsspn', 'w2'),
                               ('wmemcmp_x', 'wmemcmp', 'w3'), ('wmemchr_x', 'wmemchr', 'w1cn'), ('wmemcpy_x', 'wmemcpy', 'w1n'),
                               ('wmemmove_up_x', 'wmemmove_up', 'w1n'), ('wmemmove_down_x', 'wmemmove_down', 'w1n'), ('wmemset_x', 'wmemset', 'wcn')):
            L.ob(fid, name, tab)
        L.table('wu2s', uniq([(pk(s), c) for s in seqs[::2] for c in set(cs) | set(s[:2])]))
    elif part == 'scen':
        st = scen_tables(rng, tier)
        L.table('sd', st)
        for f in ('scen_static_vector', 'scen_inplace_string', 'scen_string_view', 'scen_charconv', 'scen_algorithm', 'scen_chrono', 'scen_array_bitset',
                  'scen_ranges_i8', 'scen_ranges_u8', 'scen_ranges_i16', 'scen_ranges_u16', 'scen_ranges_i32', 'scen_ranges_u32', 'scen_ranges_i64',
                  'scen_ranges_u64', 'scen_ranges_c16', 'scen_franges_f32', 'scen_franges_f64'):
            L.ob(f, f.replace('scen_', 'scenario.'), 'sd')
    elif part == 'het':
        big = tier == 'thorough'

        def pk(seq):
            v = 0
            for i, c in enumerate(seq):
                v |= c << (4 * i)
            return v

        seqs = [[], [1], [2], [3], [4], [2, 1], [1, 6, 2, 7], [1, 2, 3, 4, 5, 6, 7, 8]]
        if big:
            seqs += [[6], [2, 2, 3], [4, 5, 2], [8, 2, 8]]
        for i in range(12 if big else 2):
            seqs.append([rng.randint(1, 8) for _ in range(rng.randint(2, 9))])
        needles = []
        for e in ((0x41, 0xe9, 0xff, 0x00, 0x01, 0x80, 0x7f, 0xe9e9, 0xffff, 0x8000, 0x7fff, 0x80e9) if big else (0x41, 0xe9, 0xff, 0x00, 0x80, 0xe9e9, 0xffff, 0x8000)):
            w = 0x100 if e < 0x100 else 0x10000
            needles += [e, e + w, e - w, e + (1 << 32), e | (M64 ^ (w - 1))]
        needles += [M64, 0, 1, 0x100, 0x10000, 1 << 32, 1 << 63, M64 ^ 0xff, 0x1e9, 0xffffffe9, 0xffffffff]
        needles = uniq1([x & M64 for x in needles])
        for i in range(40 if big else 6):
            needles.append(rng.getrandbits(rng.choice((8, 16, 32, 64))))
        L.table('hn', uniq([(pk(s), n) for s in seqs for n in needles]))
        for es in ('char', 'schar', 'uchar', 'char8', 'bool', 'i16', 'u16'):
            L.ob('het_' + es, 'hetero.' + es, 'hn')
    elif part == 'mix':
        big = tier == 'thorough'
        pats = [0, 1, 2, 3, 6, 48, 12, M64, M64 - 1, M64 - 5, M64 - 47]
        for w in (8, 16, 32, 64):
            smin = (M64 ^ ((1 << (w - 1)) - 1)) & M64              # sign-extended minimum of the w-bit signed type
            pats += [smin, (smin + 1) & M64, (1 << (w - 1)) - 1, (1 << (w - 1)), ((1 << w) - 1) & M64, ((1 << w) - 2) & M64, (1 << (w - 1)) - 2]
        pats = uniq1(pats)
        small = [0, 1, 2, 3, 6, 48, M64, M64 - 5, M64 - 2] if big else [0, 6, 48, M64, M64 - 5]
        mm = [p for p in pats if p not in small and (p >> 6) not in (0,)][:: (1 if big else 3)]
        rows = [(a, b) for a in pats for b in small] + [(b, a) for a in pats for b in small] + [(a, b) for a in mm for b in mm]
        for i in range(200 if big else 40):
            rows.append((rng.getrandbits(rng.choice((7, 8, 15, 16, 31, 32, 63, 64))), rng.getrandbits(rng.choice((3, 8, 16, 32, 64)))))
            rows.append(((-rng.getrandbits(rng.choice((3, 7, 15, 31, 62)))) & M64, rng.getrandbits(rng.choice((3, 8, 16, 32, 64)))))
        L.table('mx', uniq(rows))
        for m in ('i8', 'u8', 'i16', 'u16', 'i32', 'u32', 'i64', 'u64'):
            L.ob('mixed_' + m, 'mixed.' + m, 'mx')
    elif part == 'dur':
        big = tier == 'thorough'
        cs = [0, 1, 2, 3, 7, 59, 60, 61, 100, 147, 160, 365, 817, 1000, 4900, 14700, 24855, 35791, 44097, 44100, 48000, 68049, 596523, 26460000,
              2147483, 2147484, 35791394, 35791395, 2147483647, 2147483646, 1073741824, 1073741823, 715827882, 306783378, 89478485]
        for k in range(1, 32, (1 if big else 3)):
            cs += [(1 << k) - 1, 1 << k, (1 << k) + 1]
        cs = [c for c in cs if c <= 2147483647]
        cs += [-c for c in cs] + [-2147483648]
        for i in range(200 if big else 40):
            cs.append(rng.randint(-(1 << rng.randint(2, 31)), 1 << rng.randint(2, 31)) )
        L.table('dc', [(c & M64,) for c in uniq1(cs)])
        for f in ('minutes', 'hours', 'days', 'weeks', 'months', 'years', 'sec32', 'ms32', 't44100', 't48000'):
            L.ob('dur_' + f, 'duration_cast.' + f, 'dc')
    elif part == 'cal':
        big = tier == 'thorough'
        ys = [-32768, -32767, -400, -1, 0, 1, 4, 100, 1900, 1970, 2000, 2023, 2024, 32766, 32767]
        ms = [0, 1, 2, 3, 4, 6, 9, 11, 12, 13, 14, 15, 16, 100, 128, 254]
        dd = [0, 1, 2, 27, 28, 29, 30, 31, 32, 33, 100, 128, 254]
        if not big:
            ys = [-32768, -32767, -1, 0, 1900, 2000, 2023, 2024, 32767]
        L.table('cymd', [(y & M64, m, d) for y in ys for m in ms for d in dd])
        L.table('cmd', [(m, d, w) for m in ms for d in dd for w in (0, 1, 6, 7, 8, 255)])
        wis = [w | (i << 4) for w in (0, 3, 6, 7, 8, 15) for i in (0, 1, 4, 5, 6, 15)]
        L.table('cymw', [(y & M64, m, wi) for y in ys[:: (1 if big else 2)] for m in ms[:: (1 if big else 2)] + [12, 13] for wi in wis])
        L.ob('cal_ymd', 'calendar.year_month_day', 'cymd')
        L.ob('cal_md', 'calendar.month_day_weekday', 'cmd')
        L.ob('cal_ymw', 'calendar.year_month_weekday', 'cymw')
    elif part == 'deg':
        rows = []
        for n in range(7):
            for k in sorted({0, 1, 2, max(n - 1, 0), n, n + 1, n + 2, 2 * n, 2 * n + 1, 1000, 1 << 40, (1 << 63) - 1}):
                rows.append((n, k))
        L.table('dg', uniq(rows))
        for f, nm in (('deg_shift', 'degenerate.shift'), ('deg_counted', 'degenerate.counted'), ('deg_middle', 'degenerate.middle')):
            L.ob(f, nm, 'dg')
    elif part == 'cont':
        # containers at every fill up to full capacity x key below / at / between / above the elements (complete, both tiers)
        L.table('mk', [(m, k) for m in range(16) for k in range(9)])
        for n in (1, 2, 3, 4):
            for c in ('flat_set_less', 'flat_set_void', 'flat_set_greater', 'static_set_less', 'static_set_void', 'static_set_greater'):
                L.ob('%s_%d' % (c, n), '%s.cap%d' % (c.replace('_less', '.less').replace('_void', '.less_void').replace('_greater', '.greater'), n), 'mk')
            L.ob('static_vector_%d' % n, 'static_vector.cap%d' % n, 'mk')
            L.ob('inplace_string_%d' % n, 'inplace_string.cap%d' % n, 'mk')
        L.ob('sorted_array', 'sorted_array', 'mk')
    else:
        raise SystemExit('unknown part ' + part)


def main():
    ap = argparse.ArgumentParser()
    ap.add_argument('part')
    ap.add_argument('--out', required=True)
    ap.add_argument('--seed', type=int, default=1)
    ap.add_argument('--tier', default='quick')
    a = ap.parse_args()
    text = build(a.part, a.seed, a.tier, load_pinned())
    os.makedirs(a.out, exist_ok=True)
    final = os.path.join(a.out, 'C13_gen_%s.hpp' % a.part.replace('+', '_'))
    tmp = final + '.tmp.%d' % os.getpid()        # two optimisation variants of one part are generated concurrently: atomic, identical content
    with open(tmp, 'w') as f:
        f.write(text)
    os.replace(tmp, final)
    return 0


if __name__ == '__main__':
    sys.exit(main())
