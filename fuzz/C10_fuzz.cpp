// libFuzzer target (engine E3, thorough tier, supplementary to the g++ enumeration/grammar harnesses):
// etl::to_chars / etl::from_chars against std::to_chars / std::from_chars.
// etl headers first (clang 14 + libstdc++, see DESIGN 2.1).  Oracle inside the target; mismatch => print + trap.
// Known finding C10-F1 (from_chars ptr == first on overflow, pinned by the unit tests) is masked here statically:
// on result_out_of_range only the error class and "value unmodified" are compared, not ptr.
#include <etl/charconv.hpp>

#include <fuzzer/FuzzedDataProvider.h>

#include <charconv>
#include <cstdint>
#include <cstdio>
#include <cstdlib>
#include <cstring>
#include <string>
#include <system_error>
#include <unordered_set>

namespace {
std::uint64_t g_execs = 0, g_nontrivial = 0;
std::unordered_set<std::uint64_t>* g_seen = nullptr;
void dump()
{
    if (char const* p = std::getenv("VF_FRAG")) {
        if (FILE* f = std::fopen(p, "w")) {
            std::fprintf(f, "{\"kind\":\"fuzz\",\"evaluations\":%llu,\"nontrivial_enumerated\":%llu,\"digests\":[],\"classes\":{},\"counters\":{},\"sub_evals\":{\"libfuzzer\":%llu},\"excluded_known\":{},\"samples\":{},\"failure\":null}\n",
                static_cast<unsigned long long>(g_execs), static_cast<unsigned long long>(g_nontrivial), static_cast<unsigned long long>(g_execs));
            std::fclose(f);
        }
    }
}
struct Init {
    Init() { std::atexit(dump); }
} g_init;

[[noreturn]] void fail(std::string const& msg)
{
    std::fprintf(stderr, "MISMATCH %s\n", msg.c_str());
    dump();
    __builtin_trap();
}

void note_nontrivial(std::uint8_t const* data, std::size_t size)
{
    std::uint64_t d = 1469598103934665603ULL;
    for (std::size_t i = 0; i < size; ++i) { d = (d ^ data[i]) * 1099511628211ULL; }
    if (g_seen == nullptr) { g_seen = new std::unordered_set<std::uint64_t>(); }
    if (g_seen->size() < (1U << 21) && g_seen->insert(d).second) { ++g_nontrivial; }
}

template <typename T>
void fmt(T v, int base, std::size_t len, std::uint8_t const* data, std::size_t size)
{
    // [canary 8][buffer len][canary 8], buffer at the END of an exact block in a second pass
    constexpr unsigned char C = 0xA7;
    auto* block = static_cast<char*>(std::malloc(len + 16));
    std::memset(block, C, len + 16);
    char* first = block + 8;
    auto er     = etl::to_chars(first, first + len, v, base);
    char ref[80];
    auto sr     = std::to_chars(ref, ref + len, v, base);
    for (std::size_t i = 0; i < 8; ++i) {
        if (static_cast<unsigned char>(block[i]) != C || static_cast<unsigned char>(block[8 + len + i]) != C) { fail("to_chars wrote outside [first,last): value " + std::to_string(static_cast<long long>(v)) + " base " + std::to_string(base) + " len " + std::to_string(len)); }
    }
    bool sok = sr.ec == std::errc{};
    bool eok = er.ec == etl::errc{};
    if (sok != eok) { fail("to_chars error class differs: value " + std::to_string(static_cast<long long>(v)) + " base " + std::to_string(base) + " len " + std::to_string(len) + " etl ok=" + std::to_string(eok) + " std ok=" + std::to_string(sok)); }
    if (sok) {
        auto n = static_cast<std::size_t>(sr.ptr - ref);
        if (static_cast<std::size_t>(er.ptr - first) != n || std::memcmp(first, ref, n) != 0) {
            fail("to_chars digits differ: value " + std::to_string(static_cast<long long>(v)) + " base " + std::to_string(base) + " etl \"" + std::string(first, static_cast<std::size_t>(er.ptr - first)) + "\" std \"" + std::string(ref, n) + "\"");
        }
        // round trip
        T back{};
        auto rr = etl::from_chars(first, first + n, back, base);
        if (rr.ec != etl::errc{} || back != v || rr.ptr != first + n) { fail("round trip from_chars(to_chars(v)) != v for value " + std::to_string(static_cast<long long>(v)) + " base " + std::to_string(base)); }
        if (n == len || v < 0 || base != 10) { note_nontrivial(data, size); }
    } else {
        note_nontrivial(data, size);
    }
    std::free(block);
    // second pass: exact block, buffer at the end (one-past write hits the red zone)
    auto* blk2 = static_cast<char*>(std::malloc(len ? len : 1));
    char* f2   = len ? blk2 : blk2 + 1;
    (void)etl::to_chars(f2, f2 + len, v, base);
    std::free(blk2);
}

template <typename T>
void parse(std::string const& s, int base, std::uint8_t const* data, std::size_t size)
{
    auto* blk = static_cast<char*>(std::malloc(s.size() ? s.size() : 1));
    char* f   = s.empty() ? blk + 1 : blk;
    std::memcpy(f, s.data(), s.size());
    T ev = T(42), sv = T(42);
    auto er = etl::from_chars(f, f + s.size(), ev, base);
    auto sr = std::from_chars(f, f + s.size(), sv, base);
    int ec  = er.ec == etl::errc{} ? 0 : (er.ec == etl::errc::result_out_of_range ? 2 : 1);
    int sc  = sr.ec == std::errc{} ? 0 : (sr.ec == std::errc::result_out_of_range ? 2 : 1);
    auto show = [&] {
        std::string h;
        for (unsigned char c : s) {
            char b[4];
            std::snprintf(b, sizeof b, "%02x ", c);
            h += b;
        }
        return "from_chars<" + std::to_string(sizeof(T) * 8) + (std::is_signed_v<T> ? "s" : "u") + "> base " + std::to_string(base) + " bytes [" + h + "]";
    };
    if (ec != sc) { fail(show() + ": error class etl " + std::to_string(ec) + " std " + std::to_string(sc)); }
    if (ev != sv) { fail(show() + ": value etl " + std::to_string(static_cast<long long>(ev)) + " std " + std::to_string(static_cast<long long>(sv))); }
    if (sc != 2 && er.ptr - f != sr.ptr - f) { fail(show() + ": consumed etl " + std::to_string(er.ptr - f) + " std " + std::to_string(sr.ptr - f)); }
    if (sc != 1 || !s.empty()) { note_nontrivial(data, size); }
    std::free(blk);
}
} // namespace

extern "C" int LLVMFuzzerTestOneInput(std::uint8_t const* data, std::size_t size)
{
    FuzzedDataProvider fdp(data, size);
    auto kind = fdp.ConsumeIntegralInRange<int>(0, 1);
    auto ty   = fdp.ConsumeIntegralInRange<int>(0, 7);
    int base  = fdp.ConsumeIntegralInRange<int>(2, 36);
    ++g_execs;
    if (kind == 0) {
        auto len = fdp.ConsumeIntegralInRange<std::size_t>(0, 70);
        auto raw = fdp.ConsumeIntegral<std::uint64_t>();
        switch (ty) {
        case 0: fmt(static_cast<std::int8_t>(raw), base, len, data, size); break;
        case 1: fmt(static_cast<std::uint8_t>(raw), base, len, data, size); break;
        case 2: fmt(static_cast<std::int16_t>(raw), base, len, data, size); break;
        case 3: fmt(static_cast<std::uint16_t>(raw), base, len, data, size); break;
        case 4: fmt(static_cast<std::int32_t>(raw), base, len, data, size); break;
        case 5: fmt(static_cast<std::uint32_t>(raw), base, len, data, size); break;
        case 6: fmt(static_cast<std::int64_t>(raw), base, len, data, size); break;
        default: fmt(static_cast<std::uint64_t>(raw), base, len, data, size); break;
        }
    } else {
        // bytes are mapped onto a parsing-relevant alphabet so that the fuzzer reaches the digit logic quickly
        static char const alpha[] = "0123456789abzAZ-+ x\t\x80";
        std::string raw = fdp.ConsumeRemainingBytesAsString();
        if (raw.size() > 70) { raw.resize(70); }
        std::string s;
        for (unsigned char c : raw) { s.push_back(c < 200 ? alpha[c % (sizeof alpha - 1)] : static_cast<char>(c)); }
        switch (ty) {
        case 0: parse<std::int8_t>(s, base, data, size); break;
        case 1: parse<std::uint8_t>(s, base, data, size); break;
        case 2: parse<std::int16_t>(s, base, data, size); break;
        case 3: parse<std::uint16_t>(s, base, data, size); break;
        case 4: parse<std::int32_t>(s, base, data, size); break;
        case 5: parse<std::uint32_t>(s, base, data, size); break;
        case 6: parse<std::int64_t>(s, base, data, size); break;
        default: parse<std::uint64_t>(s, base, data, size); break;
        }
    }
    return 0;
}
