// libFuzzer target (engine E3, thorough tier, supplementary to the rapidcheck/enumeration harness):
// operation histories on etl::inplace_string<Cap> against std::string, structure-aware decode (4 bytes per op).
// etl headers first (clang 14 + libstdc++).  Known findings are excluded statically: `replace` (C04-F1: never changes
// the length) is not generated and `rfind` always gets an explicit pos (C04-F2).  Every op is mapped into the domain
// "result fits the capacity, pos <= size()" so all histories are valid by construction.
#define TETL_ENABLE_CONTRACT_CHECKS 1
#define TETL_ENABLE_CUSTOM_ASSERT_HANDLER 1
#include <etl/cstring.hpp>

#include <etl/string.hpp>
#include <etl/string_view.hpp>

#include <cstdint>
#include <cstdio>
#include <cstdlib>
#include <cstring>
#include <string>
#include <unordered_set>

namespace etl {
template <typename Assertion>
[[noreturn]] auto assert_handler(Assertion const& msg) -> void
{
    std::fprintf(stderr, "MISMATCH contract handler fired on a valid call: %s:%d %s\n", msg.file, msg.line, msg.expression ? msg.expression : "");
    __builtin_trap();
}
} // namespace etl

namespace {
std::uint64_t g_execs = 0, g_nontrivial = 0;
std::unordered_set<std::uint64_t>* g_seen = nullptr;
void dump()
{
    if (char const* p = std::getenv("VF_FRAG")) {
        if (FILE* f = std::fopen(p, "w")) {
            std::fprintf(f, "{\"kind\":\"fuzz\",\"evaluations\":%llu,\"nontrivial_enumerated\":%llu,\"digests\":[],\"classes\":{},\"counters\":{},\"sub_evals\":{\"libfuzzer\":%llu},\"excluded_known\":{},\"samples\":{},\"failure\":null}\n",
                static_cast<unsigned long long>(g_execs), static_cast<unsigned long long>(g_nontrivial), static_cast<unsigned long long>(g_execs));
            std::fclose(f);
        }
    }
}
struct Init {
    Init() { std::atexit(dump); }
} g_init;

[[noreturn]] void fail(std::string const& msg)
{
    std::fprintf(stderr, "MISMATCH %s\n", msg.c_str());
    dump();
    __builtin_trap();
}
auto hex(std::string const& s) -> std::string
{
    std::string h;
    for (unsigned char c : s) {
        char b[4];
        std::snprintf(b, sizeof b, "%02x", c);
        h += b;
    }
    return "[" + h + "]";
}
auto sgn(int v) -> int { return (v > 0) - (v < 0); }
constexpr auto npos = std::string::npos;

template <std::size_t Cap>
void run(std::uint8_t const* p, std::size_t n, bool* nontrivial)
{
    using S = etl::inplace_string<Cap>;
    S a, b;
    std::string ma, mb;
    static char const alpha[] = {'a', 'b', '\0', static_cast<char>(0xE9)};
    for (std::size_t i = 0; i + 4 <= n; i += 4) {
        auto code = p[i] % 30;
        auto ra = p[i + 1], rb = p[i + 2], rc = p[i + 3];
        bool tb         = (rc & 1U) != 0;
        S& x            = tb ? b : a;
        S& y            = tb ? a : b;
        std::string& mx = tb ? mb : ma;
        std::string& my = tb ? ma : mb;
        char ch         = alpha[(rc >> 1) % 4];
        std::size_t sz = mx.size(), room = Cap - sz;
        std::size_t pos = ra % (sz + 1);
        std::size_t cnt = rb >= 250 ? npos : rb % (sz + 2);
        std::size_t add = room == 0 ? 0 : (rb % 4 == 0 ? room : rb % (room + 1));
        // needle / source: exact heap block
        std::size_t nl = (rc >> 3) % 5;
        std::string needle;
        for (std::size_t k = 0; k < nl; ++k) { needle.push_back(alpha[(rc + k * 7 + ra) % 4 == 2 ? 0 : (rc + k * 7 + ra) % 4]); }
        auto* nb = static_cast<char*>(std::malloc(nl ? nl : 1));
        char* np = nl ? nb : nb + 1;
        std::memcpy(np, needle.data(), nl);
        if (sz == Cap || pos == sz || nl == 0) { *nontrivial = true; }
        auto eq = [&](char const* what, std::size_t e, std::size_t s) {
            if (e != s) { fail(std::string(what) + ": etl " + std::to_string(static_cast<long long>(e)) + " std " + std::to_string(static_cast<long long>(s)) + " haystack " + hex(mx) + " needle " + hex(needle) + " pos " + std::to_string(static_cast<long long>(pos))); }
        };
        switch (code) {
        case 0:
            if (room) {
                x.push_back(ch);
                mx.push_back(ch);
            }
            break;
        case 1:
            if (sz) {
                x.pop_back();
                mx.pop_back();
            }
            break;
        case 2: x.append(add, ch); mx.append(add, ch); break;
        case 3: {
            auto m = nl <= room ? nl : room;
            x.append(np, m);
            mx.append(np, m);
            break;
        }
        case 4: x.insert(pos, add, ch); mx.insert(pos, add, ch); break;
        case 5: {
            auto m = nl <= room ? nl : room;
            x.insert(pos, np, m);
            mx.insert(pos, np, m);
            break;
        }
        case 6: x.erase(pos, cnt); mx.erase(pos, cnt); break;
        case 7: {
            auto t = rb % (Cap + 1);
            x.resize(t);
            mx.resize(t);
            break;
        }
        case 8: {
            auto t = rb % (Cap + 1);
            x.resize(t, ch);
            mx.resize(t, ch);
            break;
        }
        case 9: x.clear(); mx.clear(); break;
        case 10: x.swap(y); mx.swap(my); break;
        case 11: y = x; my = mx; break;
        case 12: x.assign(np, nl <= Cap ? nl : Cap); mx.assign(np, nl <= Cap ? nl : Cap); break;
        case 13: x.assign(rb % (Cap + 1), ch); mx.assign(rb % (Cap + 1), ch); break;
        case 14: eq("find(p,pos,n)", x.find(np, pos, nl), mx.find(np, pos, nl)); break;
        case 15: eq("rfind(str,pos)", x.rfind(y, pos), mx.rfind(my, pos)); break;
        case 16: eq("find_first_of(p,pos,n)", x.find_first_of(np, pos, nl), mx.find_first_of(np, pos, nl)); break;
        case 17: eq("find_last_of(p,pos,n)", x.find_last_of(np, pos, nl), mx.find_last_of(np, pos, nl)); break;
        case 18: eq("find_first_not_of(p,pos,n)", x.find_first_not_of(np, pos, nl), mx.find_first_not_of(np, pos, nl)); break;
        case 19: eq("find_last_not_of(p,pos,n)", x.find_last_not_of(np, pos, nl), mx.find_last_not_of(np, pos, nl)); break;
        case 20: eq("find(ch,pos)", x.find(ch, pos), mx.find(ch, pos)); eq("rfind(ch,pos)", x.rfind(ch, pos), mx.rfind(ch, pos)); break;
        case 21: eq("sign compare(str)", static_cast<std::size_t>(sgn(x.compare(y)) + 1), static_cast<std::size_t>(sgn(mx.compare(my)) + 1)); break;
        case 22:
            eq("sign compare(pos,n,str)", static_cast<std::size_t>(sgn(x.compare(pos, cnt, y)) + 1), static_cast<std::size_t>(sgn(mx.compare(pos, cnt, my)) + 1));
            break;
        case 23: {
            auto es = x.substr(pos, cnt);
            auto ss = mx.substr(pos, cnt);
            if (std::string(es.data(), es.size()) != ss) { fail("substr differs: etl " + hex(std::string(es.data(), es.size())) + " std " + hex(ss)); }
            break;
        }
        case 24: {
            char d1[40], d2[40];
            auto c1 = x.copy(d1, cnt == npos ? 40 : cnt, pos);
            auto c2 = mx.copy(d2, cnt == npos ? 40 : cnt, pos);
            if (c1 != c2 || std::memcmp(d1, d2, c1) != 0) { fail("copy differs"); }
            break;
        }
        case 25: eq("starts_with", x.starts_with(etl::string_view(np, nl)), mx.starts_with(std::string_view(np, nl))); eq("ends_with", x.ends_with(etl::string_view(np, nl)), mx.ends_with(std::string_view(np, nl))); break;
        case 26: eq("operator==", x == y, mx == my); eq("operator<", x < y, mx < my); eq("operator<=", x <= y, mx <= my); break;
        case 27:
            if (room) {
                x += ch;
                mx += ch;
            }
            break;
        case 28: {
            auto it = x.erase(x.begin() + static_cast<std::ptrdiff_t>(pos), x.begin() + static_cast<std::ptrdiff_t>(pos + (cnt == npos ? sz - pos : (cnt > sz - pos ? sz - pos : cnt))));
            mx.erase(mx.begin() + static_cast<std::ptrdiff_t>(pos), mx.begin() + static_cast<std::ptrdiff_t>(pos + (cnt == npos ? sz - pos : (cnt > sz - pos ? sz - pos : cnt))));
            eq("erase(first,last) result offset", static_cast<std::size_t>(it - x.begin()), pos);
            break;
        }
        default: eq("contains", x.contains(etl::string_view(np, nl)), mx.find(std::string_view(np, nl)) != npos); break;
        }
        std::free(nb);
        auto inv = [&](S const& s, std::string const& m, char const* nm) {
            if (s.size() != m.size() || std::string(s.data(), s.size()) != m) { fail(std::string(nm) + " content: etl " + hex(std::string(s.data(), s.size())) + " std " + hex(m) + " after op " + std::to_string(code)); }
            if (s.size() > Cap || s.data()[s.size()] != '\0' || s.c_str() != s.data() || static_cast<std::size_t>(s.end() - s.begin()) != s.size()) { fail(std::string(nm) + " invariant (size<=capacity, terminator, c_str==data, end-begin==size) broken after op " + std::to_string(code)); }
        };
        inv(a, ma, "A");
        inv(b, mb, "B");
    }
}
} // namespace

extern "C" int LLVMFuzzerTestOneInput(std::uint8_t const* data, std::size_t size)
{
    if (size < 1) { return 0; }
    ++g_execs;
    bool nt = false;
    switch (data[0] % 5) {
    case 0: run<1>(data + 1, size - 1, &nt); break;
    case 1: run<7>(data + 1, size - 1, &nt); break;
    case 2: run<15>(data + 1, size - 1, &nt); break;
    case 3: run<16>(data + 1, size - 1, &nt); break;
    default: run<31>(data + 1, size - 1, &nt); break;
    }
    if (nt) {
        std::uint64_t d = 1469598103934665603ULL;
        for (std::size_t i = 0; i < size; ++i) { d = (d ^ data[i]) * 1099511628211ULL; }
        if (g_seen == nullptr) { g_seen = new std::unordered_set<std::uint64_t>(); }
        if (g_seen->size() < (1U << 21) && g_seen->insert(d).second) { ++g_nontrivial; }
    }
    return 0;
}
