// libFuzzer target (engine E3, thorough tier, supplementary to the g++ enumeration): etl::string_view vs std::string_view.
// etl headers must come before any libstdc++ header under clang 14 (see DESIGN 2.1).  The oracle lives inside the target;
// a mismatch prints the case and traps, so libFuzzer saves the input as crash-*.
#include <etl/string_view.hpp>

#include <fuzzer/FuzzedDataProvider.h>

#include <cstdint>
#include <cstdio>
#include <cstdlib>
#include <cstring>
#include <string>
#include <string_view>
#include <unordered_set>

namespace {
std::uint64_t g_execs = 0, g_nontrivial = 0;
std::unordered_set<std::uint64_t>* g_seen = nullptr; // distinct non-trivial inputs (FNV-1a of the bytes), capped
void dump()
{
    if (char const* p = std::getenv("VF_FRAG")) {
        if (FILE* f = std::fopen(p, "w")) {
            std::fprintf(f, "{\"kind\":\"fuzz\",\"evaluations\":%llu,\"nontrivial_enumerated\":%llu,\"digests\":[],\"classes\":{},\"counters\":{},\"sub_evals\":{\"libfuzzer\":%llu},\"excluded_known\":{},\"samples\":{},\"failure\":null}\n",
                static_cast<unsigned long long>(g_execs), static_cast<unsigned long long>(g_nontrivial), static_cast<unsigned long long>(g_execs));
            std::fclose(f);
        }
    }
}
struct Init {
    Init() { std::atexit(dump); }
} g_init;

// exact-size heap copy without terminator
struct Buf {
    char* p;
    std::size_t n;
    explicit Buf(std::string const& s) : p{static_cast<char*>(std::malloc(s.size() + 1))}, n{s.size()}
    {
        // place the string at the END of the block so that one-past reads hit the red zone
        std::memmove(p + 1, s.data(), n);
    }
    ~Buf() { std::free(p); }
    [[nodiscard]] auto data() const -> char const* { return p + 1; }
};

[[noreturn]] void fail(char const* what, std::string const& h, std::string const& n, std::size_t pos, std::size_t cnt, long e, long s)
{
    std::fprintf(stderr, "MISMATCH %s haystack=[", what);
    for (unsigned char c : h) { std::fprintf(stderr, "%02x ", c); }
    std::fprintf(stderr, "] needle=[");
    for (unsigned char c : n) { std::fprintf(stderr, "%02x ", c); }
    std::fprintf(stderr, "] pos=%zu count=%zu etl=%ld std=%ld\n", pos, cnt, e, s);
    dump();
    __builtin_trap();
}
auto sgn(int v) -> int { return (v > 0) - (v < 0); }
} // namespace

extern "C" int LLVMFuzzerTestOneInput(std::uint8_t const* data, std::size_t size)
{
    FuzzedDataProvider fdp(data, size);
    auto op   = fdp.ConsumeIntegralInRange<int>(0, 13);
    auto praw = fdp.ConsumeIntegral<std::uint8_t>();
    auto craw = fdp.ConsumeIntegral<std::uint8_t>();
    auto hl   = fdp.ConsumeIntegralInRange<std::size_t>(0, 12);
    std::string h = fdp.ConsumeBytesAsString(hl);
    std::string n = fdp.ConsumeRemainingBytesAsString();
    if (n.size() > 6) { n.resize(6); }
    Buf hb(h), nb(n);
    etl::string_view eh(hb.data(), h.size()), en(nb.data(), n.size());
    std::string_view sh(hb.data(), h.size()), sn(nb.data(), n.size());
    // pos in [0, size+2] or npos; count in [0, size+2] or npos
    std::size_t pos = praw >= 250 ? std::string_view::npos : praw % (h.size() + 3);
    std::size_t cnt = craw >= 250 ? std::string_view::npos : craw % (h.size() + 3);
    ++g_execs;
    if (n.empty() || h.empty() || pos >= h.size() || n.size() > h.size()) {
        std::uint64_t d = 1469598103934665603ULL;
        for (std::size_t i = 0; i < size; ++i) { d = (d ^ data[i]) * 1099511628211ULL; }
        if (g_seen == nullptr) { g_seen = new std::unordered_set<std::uint64_t>(); }
        if (g_seen->size() < (1U << 21) && g_seen->insert(d).second) { ++g_nontrivial; }
    }
    auto cmp = [&](char const* w, std::size_t e, std::size_t s) {
        if (e != s) { fail(w, h, n, pos, cnt, static_cast<long>(e), static_cast<long>(s)); }
    };
    switch (op) {
    case 0: cmp("find", eh.find(en, pos), sh.find(sn, pos)); break;
    case 1: cmp("rfind", eh.rfind(en, pos), sh.rfind(sn, pos)); break;
    case 2: cmp("find_first_of", eh.find_first_of(en, pos), sh.find_first_of(sn, pos)); break;
    case 3: cmp("find_last_of", eh.find_last_of(en, pos), sh.find_last_of(sn, pos)); break;
    case 4: cmp("find_first_not_of", eh.find_first_not_of(en, pos), sh.find_first_not_of(sn, pos)); break;
    case 5: cmp("find_last_not_of", eh.find_last_not_of(en, pos), sh.find_last_not_of(sn, pos)); break;
    case 6: cmp("compare", static_cast<std::size_t>(sgn(eh.compare(en)) + 1), static_cast<std::size_t>(sgn(sh.compare(sn)) + 1)); break;
    case 7:
        if (pos <= h.size()) { cmp("compare(pos,count,v)", static_cast<std::size_t>(sgn(eh.compare(pos, cnt, en)) + 1), static_cast<std::size_t>(sgn(sh.compare(pos, cnt, sn)) + 1)); }
        break;
    case 8: cmp("starts_with", eh.starts_with(en), sh.starts_with(sn)); break;
    case 9: cmp("ends_with", eh.ends_with(en), sh.ends_with(sn)); break;
    case 10: cmp("contains", eh.contains(en), sh.find(sn) != std::string_view::npos); break;
    case 11:
        if (pos <= h.size()) {
            auto es = eh.substr(pos, cnt);
            auto ss = sh.substr(pos, cnt);
            cmp("substr.size", es.size(), ss.size());
            cmp("substr.offset", static_cast<std::size_t>(es.data() - eh.data()), static_cast<std::size_t>(ss.data() - sh.data()));
        }
        break;
    case 12:
        if (!n.empty()) {
            cmp("find(char)", eh.find(n[0], pos), sh.find(n[0], pos));
            cmp("rfind(char)", eh.rfind(n[0], pos), sh.rfind(n[0], pos));
        }
        break;
    default: {
        bool e = (eh < en), s = (sh < sn);
        cmp("operator<", e, s);
        cmp("operator==", eh == en, sh == sn);
        cmp("operator<=", eh <= en, sh <= sn);
        break;
    }
    }
    return 0;
}
