// C06 (part 5/6) — partitioning, sorting, merging and set operations of etl/algorithm.hpp.
// Engine E2 (exhaustive small-scope enumeration) + seeded random longer inputs.  See C06_common.cpp.
//
// Covered here: partition (VALID) stable_partition (EXACT) sort partial_sort nth_element (VALID) stable_sort (EXACT)
// bubble_sort exchange_sort gnome_sort insertion_sort merge_sort (EXTRA: sorted permutation) merge inplace_merge
// set_difference set_intersection set_symmetric_difference set_union (EXACT, stable).
//
// VALID = the standard admits several results: the outcome must be ordered as required AND be a permutation of the
// input by (key, tag).  Random-access algorithms run with raw pointers and with the checked random-access wrapper `Ra`
// (which latches any step outside [first, last], e.g. prev(first) on an empty range).
#include "C06_common.cpp"

namespace c06 {
namespace {

auto len(Case const& c) -> int { return static_cast<int>(c.a.size()); }
auto lenb(Case const& c) -> int { return static_cast<int>(c.b.size()); }
auto lt(Case const& c, Elem const& x, Elem const& y) -> bool { return cmp_eval(c.cmp, x.key, y.key); }

// sorted by the comparator and a permutation of the input
auto sorted_perm(Case const& c, Buf const& A, V const& in) -> std::string
{
    for (int i = 1; i < A.n; ++i) {
        if (lt(c, A.b()[i], A.b()[i - 1])) { return "not sorted (element " + num(i) + " is less than its predecessor)"; }
    }
    if (!is_perm(A.b(), A.n, in)) { return "not a permutation of the input (by key and tag)"; }
    return "";
}

// ------------------------------------------------------------------ partition (VALID) / stable_partition (EXACT)
template <typename K>
auto a_partition(Case const& c) -> std::string
{
    V in = mk(c.a, 0);
    int ntrue = 0;
    for (int k : c.a) { ntrue += pred_eval(c.pred, k) ? 1 : 0; }
    Buf A("a", in, c.pad, padn(c));
    int re = 0;
    {
        Scope sc;
        re = off(A, etl::partition(at<K>(A, 0), at<K>(A, len(c)), Pred{c.pred}));
    }
    std::string why;
    if (re != ntrue) { why = "returned offset " + num(re) + ", expected the number of elements satisfying the predicate " + num(ntrue); }
    for (int i = 0; i < len(c) && why.empty(); ++i) {
        if (pred_eval(c.pred, A.b()[i].key) != (i < ntrue)) { why = "element " + num(i) + " is on the wrong side of the partition point " + num(ntrue); }
    }
    if (why.empty() && !is_perm(A.b(), A.n, in)) { why = "not a permutation of the input (by key and tag)"; }
    return verdict_valid(why, "ret=" + num(re) + " " + ren(A), ren(in));
}
template <typename K>
auto a_stable_partition(Case const& c) -> std::string
{
    if (c.tr != 0 && known("C06.stable_partition.nonbool_pred")) { return SKIP; } // exclusion class: predicate result is an int other than 0/1
    V a = mk(c.a, 0);
    auto rs = std::stable_partition(a.begin(), a.end(), Pred{c.pred}) - a.begin();
    auto s  = "ret=" + num(rs) + " " + ren(a);
    Buf A("a", mk(c.a, 0), c.pad, padn(c));
    std::string e;
    {
        Scope sc;
        auto re = etl::stable_partition(at<K>(A, 0), at<K>(A, len(c)), Pred{c.pred});
        e       = "ret=" + num(off(A, re)) + " " + ren(A);
    }
    return verdict(e, s);
}

// ------------------------------------------------------------------ sort family
enum class Sorter { sort, bubble, exchange, gnome, insertion, merge };
template <Sorter S, typename It>
void run_sorter(It f, It l, int cmp)
{
    if constexpr (S == Sorter::sort) {
        cmp == 0 ? etl::sort(f, l) : etl::sort(f, l, Cmp{cmp});
    } else if constexpr (S == Sorter::bubble) {
        cmp == 0 ? etl::bubble_sort(f, l) : etl::bubble_sort(f, l, Cmp{cmp});
    } else if constexpr (S == Sorter::exchange) {
        cmp == 0 ? etl::exchange_sort(f, l) : etl::exchange_sort(f, l, Cmp{cmp});
    } else if constexpr (S == Sorter::gnome) {
        cmp == 0 ? etl::gnome_sort(f, l) : etl::gnome_sort(f, l, Cmp{cmp});
    } else if constexpr (S == Sorter::insertion) {
        cmp == 0 ? etl::insertion_sort(f, l) : etl::insertion_sort(f, l, Cmp{cmp});
    } else {
        cmp == 0 ? etl::merge_sort(f, l) : etl::merge_sort(f, l, Cmp{cmp});
    }
}
template <Sorter S, typename K>
auto a_sorter(Case const& c) -> std::string
{
    if constexpr (S == Sorter::exchange) {
        if (c.a.empty() && known("C06.exchange_sort.empty")) { return SKIP; } // exclusion class: empty range
    }
    V in = mk(c.a, 0);
    Buf A("a", in, c.pad, padn(c));
    {
        Scope sc;
        run_sorter<S>(at<K>(A, 0), at<K>(A, len(c)), c.cmp);
    }
    return verdict_valid(sorted_perm(c, A, in), ren(A), ren(in));
}
template <typename K>
auto a_sort(Case const& c) -> std::string { return a_sorter<Sorter::sort, K>(c); }
template <typename K>
auto a_bubble(Case const& c) -> std::string { return a_sorter<Sorter::bubble, K>(c); }
template <typename K>
auto a_exchange(Case const& c) -> std::string { return a_sorter<Sorter::exchange, K>(c); }
template <typename K>
auto a_gnome(Case const& c) -> std::string { return a_sorter<Sorter::gnome, K>(c); }
template <typename K>
auto a_insertion(Case const& c) -> std::string { return a_sorter<Sorter::insertion, K>(c); }
template <typename K>
auto a_merge_sort(Case const& c) -> std::string { return a_sorter<Sorter::merge, K>(c); }

template <typename K>
auto a_stable_sort(Case const& c) -> std::string
{
    V a = mk(c.a, 0);
    c.cmp == 0 ? std::stable_sort(a.begin(), a.end()) : std::stable_sort(a.begin(), a.end(), Cmp{c.cmp});
    auto s = ren(a);
    Buf A("a", mk(c.a, 0), c.pad, padn(c));
    std::string e;
    {
        Scope sc;
        c.cmp == 0 ? etl::stable_sort(at<K>(A, 0), at<K>(A, len(c))) : etl::stable_sort(at<K>(A, 0), at<K>(A, len(c)), Cmp{c.cmp});
        e = ren(A);
    }
    return verdict(e, s);
}
template <typename K>
auto a_partial_sort(Case const& c) -> std::string
{
    V in = mk(c.a, 0);
    V ref = in;
    std::stable_sort(ref.begin(), ref.end(), Cmp{c.cmp});
    Buf A("a", in, c.pad, padn(c));
    {
        Scope sc;
        c.cmp == 0 ? etl::partial_sort(at<K>(A, 0), at<K>(A, c.m), at<K>(A, len(c))) : etl::partial_sort(at<K>(A, 0), at<K>(A, c.m), at<K>(A, len(c)), Cmp{c.cmp});
    }
    std::string why;
    for (int i = 0; i < c.m && why.empty(); ++i) {
        // position i of the sorted prefix holds an element equivalent to the i-th smallest
        if (lt(c, A.b()[i], ref[static_cast<std::size_t>(i)]) || lt(c, ref[static_cast<std::size_t>(i)], A.b()[i])) { why = "element " + num(i) + " of [first, middle) is not the " + num(i) + "-th smallest"; }
    }
    for (int j = c.m; j < len(c) && why.empty() && c.m > 0; ++j) {
        if (lt(c, A.b()[j], A.b()[c.m - 1])) { why = "element " + num(j) + " of [middle, last) is less than the last element of [first, middle)"; }
    }
    if (why.empty() && !is_perm(A.b(), A.n, in)) { why = "not a permutation of the input (by key and tag)"; }
    return verdict_valid(why, ren(A), ren(in) + " middle=" + num(c.m));
}
template <typename K>
auto a_nth_element(Case const& c) -> std::string
{
    V in = mk(c.a, 0);
    V ref = in;
    std::stable_sort(ref.begin(), ref.end(), Cmp{c.cmp});
    Buf A("a", in, c.pad, padn(c));
    {
        Scope sc;
        c.cmp == 0 ? etl::nth_element(at<K>(A, 0), at<K>(A, c.m), at<K>(A, len(c))) : etl::nth_element(at<K>(A, 0), at<K>(A, c.m), at<K>(A, len(c)), Cmp{c.cmp});
    }
    std::string why;
    if (c.m < len(c)) {
        auto const& nth = A.b()[c.m];
        if (lt(c, nth, ref[static_cast<std::size_t>(c.m)]) || lt(c, ref[static_cast<std::size_t>(c.m)], nth)) { why = "*nth is not the element a full sort would put there"; }
        for (int i = 0; i < c.m && why.empty(); ++i) {
            if (lt(c, nth, A.b()[i])) { why = "element " + num(i) + " before nth is greater than *nth"; }
        }
        for (int j = c.m + 1; j < len(c) && why.empty(); ++j) {
            if (lt(c, A.b()[j], nth)) { why = "element " + num(j) + " after nth is less than *nth"; }
        }
    }
    if (why.empty() && !is_perm(A.b(), A.n, in)) { why = "not a permutation of the input (by key and tag)"; }
    return verdict_valid(why, ren(A), ren(in) + " nth=" + num(c.m));
}

// ------------------------------------------------------------------ merge / inplace_merge (stable, EXACT)
template <typename K>
auto a_merge(Case const& c) -> std::string
{
    V a = mk(c.a, 0);
    V b = mk(c.b, 100);
    V d(a.size() + b.size(), Elem{55, -55});
    auto rs = (c.cmp == 0 ? std::merge(a.begin(), a.end(), b.begin(), b.end(), d.begin()) : std::merge(a.begin(), a.end(), b.begin(), b.end(), d.begin(), Cmp{c.cmp})) - d.begin();
    auto s  = "ret=" + num(rs) + " a" + ren(a) + " b" + ren(b) + " dst" + ren(d);
    Buf A("a", a, c.pad, padn(c));
    Buf B("b", b, c.pad, padn(c));
    Buf D("dest", len(c) + lenb(c), c.pad, padn(c));
    std::string e;
    {
        Scope sc;
        auto re = c.cmp == 0 ? etl::merge(at<K>(A, 0), at<K>(A, len(c)), at2<K>(B, 0), at2<K>(B, lenb(c)), oat<K>(D, 0)) : etl::merge(at<K>(A, 0), at<K>(A, len(c)), at2<K>(B, 0), at2<K>(B, lenb(c)), oat<K>(D, 0), Cmp{c.cmp});
        e       = "ret=" + num(off(D, re)) + " a" + ren(A) + " b" + ren(B) + " dst" + ren(D);
    }
    return verdict(e, s);
}
template <typename K>
auto a_inplace_merge(Case const& c) -> std::string
{
    V a = mk(c.a, 0); // both halves sorted by construction (D_HALVES)
    c.cmp == 0 ? std::inplace_merge(a.begin(), a.begin() + c.m, a.end()) : std::inplace_merge(a.begin(), a.begin() + c.m, a.end(), Cmp{c.cmp});
    auto s = ren(a);
    Buf A("a", mk(c.a, 0), c.pad, padn(c));
    std::string e;
    {
        Scope sc;
        c.cmp == 0 ? etl::inplace_merge(at<K>(A, 0), at<K>(A, c.m), at<K>(A, len(c))) : etl::inplace_merge(at<K>(A, 0), at<K>(A, c.m), at<K>(A, len(c)), Cmp{c.cmp});
        e = ren(A);
    }
    return verdict(e, s);
}

// ------------------------------------------------------------------ set operations on sorted multisets
enum class SetOp { difference, intersection, symmetric_difference, set_union };
template <SetOp O, typename K>
auto a_setop(Case const& c) -> std::string
{
    V a = mk(c.a, 0);
    V b = mk(c.b, 100);
    V d(a.size() + b.size(), Elem{55, -55});
    auto sr = [&] {
        if constexpr (O == SetOp::difference) {
            return c.cmp == 0 ? std::set_difference(a.begin(), a.end(), b.begin(), b.end(), d.begin()) : std::set_difference(a.begin(), a.end(), b.begin(), b.end(), d.begin(), Cmp{c.cmp});
        } else if constexpr (O == SetOp::intersection) {
            return c.cmp == 0 ? std::set_intersection(a.begin(), a.end(), b.begin(), b.end(), d.begin()) : std::set_intersection(a.begin(), a.end(), b.begin(), b.end(), d.begin(), Cmp{c.cmp});
        } else if constexpr (O == SetOp::symmetric_difference) {
            return c.cmp == 0 ? std::set_symmetric_difference(a.begin(), a.end(), b.begin(), b.end(), d.begin()) : std::set_symmetric_difference(a.begin(), a.end(), b.begin(), b.end(), d.begin(), Cmp{c.cmp});
        } else {
            return c.cmp == 0 ? std::set_union(a.begin(), a.end(), b.begin(), b.end(), d.begin()) : std::set_union(a.begin(), a.end(), b.begin(), b.end(), d.begin(), Cmp{c.cmp});
        }
    }();
    auto rs = static_cast<int>(sr - d.begin());
    d.resize(static_cast<std::size_t>(rs));
    auto s = "ret=" + num(rs) + " a" + ren(a) + " b" + ren(b) + " dst" + ren(d);
    Buf A("a", a, c.pad, padn(c));
    Buf B("b", b, c.pad, padn(c));
    Buf D("dest", rs, c.pad, padn(c));
    std::string e;
    {
        Scope sc;
        auto f1 = at<K>(A, 0);
        auto l1 = at<K>(A, len(c));
        auto f2 = at2<K>(B, 0);
        auto l2 = at2<K>(B, lenb(c));
        auto o  = oat<K>(D, 0);
        auto er = [&] {
            if constexpr (O == SetOp::difference) {
                return c.cmp == 0 ? etl::set_difference(f1, l1, f2, l2, o) : etl::set_difference(f1, l1, f2, l2, o, Cmp{c.cmp});
            } else if constexpr (O == SetOp::intersection) {
                return c.cmp == 0 ? etl::set_intersection(f1, l1, f2, l2, o) : etl::set_intersection(f1, l1, f2, l2, o, Cmp{c.cmp});
            } else if constexpr (O == SetOp::symmetric_difference) {
                return c.cmp == 0 ? etl::set_symmetric_difference(f1, l1, f2, l2, o) : etl::set_symmetric_difference(f1, l1, f2, l2, o, Cmp{c.cmp});
            } else {
                return c.cmp == 0 ? etl::set_union(f1, l1, f2, l2, o) : etl::set_union(f1, l1, f2, l2, o, Cmp{c.cmp});
            }
        }();
        e = "ret=" + num(off(D, er)) + " a" + ren(A) + " b" + ren(B) + " dst" + ren(D);
    }
    return verdict(e, s);
}
template <typename K>
auto a_set_difference(Case const& c) -> std::string { return a_setop<SetOp::difference, K>(c); }
template <typename K>
auto a_set_intersection(Case const& c) -> std::string { return a_setop<SetOp::intersection, K>(c); }
template <typename K>
auto a_set_symmetric_difference(Case const& c) -> std::string { return a_setop<SetOp::symmetric_difference, K>(c); }
template <typename K>
auto a_set_union(Case const& c) -> std::string { return a_setop<SetOp::set_union, K>(c); }

} // namespace

auto table() -> std::vector<Entry> const&
{
    constexpr unsigned SETS = D_CMP | D_ASORT | D_BSORT | D_B | D_LONG;
    static std::vector<Entry> const t = {
        C06_REG(a_partition, "partition", D_PRED | D_LONG, KP),
        C06_REG(a_partition, "partition", D_PRED | D_LONG, KF),
        C06_REG(a_stable_partition, "stable_partition", D_PRED | D_LONG, KP),
        C06_REG(a_stable_partition, "stable_partition", D_PRED | D_LONG, KR),
        C06_REG(a_sort, "sort", D_CMP | D_LONG, KP),
        C06_REG(a_sort, "sort", D_CMP | D_LONG, KR),
        C06_REG(a_stable_sort, "stable_sort", D_CMP | D_LONG, KP),
        C06_REG(a_stable_sort, "stable_sort", D_CMP | D_LONG, KR),
        C06_REG(a_partial_sort, "partial_sort", D_CMP | D_MID | D_LONG, KP),
        C06_REG(a_partial_sort, "partial_sort", D_CMP | D_MID | D_LONG, KR),
        C06_REG(a_nth_element, "nth_element", D_CMP | D_MID | D_LONG, KP),
        C06_REG(a_nth_element, "nth_element", D_CMP | D_MID | D_LONG, KR),
        C06_REG(a_bubble, "bubble_sort", D_CMP | D_LONG, KP),
        C06_REG(a_bubble, "bubble_sort", D_CMP | D_LONG, KR),
        C06_REG(a_exchange, "exchange_sort", D_CMP | D_LONG, KP),
        C06_REG(a_exchange, "exchange_sort", D_CMP | D_LONG, KR),
        C06_REG(a_gnome, "gnome_sort", D_CMP | D_LONG, KP),
        C06_REG(a_gnome, "gnome_sort", D_CMP | D_LONG, KB),
        C06_REG(a_insertion, "insertion_sort", D_CMP | D_LONG, KP),
        C06_REG(a_insertion, "insertion_sort", D_CMP | D_LONG, KR),
        C06_REG(a_merge_sort, "merge_sort", D_CMP | D_LONG, KP),
        C06_REG(a_merge_sort, "merge_sort", D_CMP | D_LONG, KR),
        C06_REG(a_merge, "merge", SETS, KP),
        C06_REG(a_merge, "merge", SETS, KI),
        C06_REG(a_merge, "merge", SETS, Kpi),
        C06_REG(a_merge, "merge", SETS, Kip),
        C06_REG(a_merge, "merge", SETS, Kfi),
        C06_REG(a_merge, "merge", SETS, Kpf),
        C06_REG(a_merge, "merge", SETS, Kbp),
        C06_REG(a_inplace_merge, "inplace_merge", D_CMP | D_MID | D_HALVES | D_LONG, KP),
        C06_REG(a_inplace_merge, "inplace_merge", D_CMP | D_MID | D_HALVES | D_LONG, KR),
        C06_REG(a_set_difference, "set_difference", SETS, KP),
        C06_REG(a_set_difference, "set_difference", SETS, KI),
        C06_REG(a_set_difference, "set_difference", SETS, Kpi),
        C06_REG(a_set_difference, "set_difference", SETS, Kip),
        C06_REG(a_set_difference, "set_difference", SETS, Kfi),
        C06_REG(a_set_difference, "set_difference", SETS, Kpf),
        C06_REG(a_set_difference, "set_difference", SETS, Kbp),
        C06_REG(a_set_intersection, "set_intersection", SETS, KP),
        C06_REG(a_set_intersection, "set_intersection", SETS, KI),
        C06_REG(a_set_intersection, "set_intersection", SETS, Kpi),
        C06_REG(a_set_intersection, "set_intersection", SETS, Kip),
        C06_REG(a_set_intersection, "set_intersection", SETS, Kfi),
        C06_REG(a_set_intersection, "set_intersection", SETS, Kpf),
        C06_REG(a_set_intersection, "set_intersection", SETS, Kbp),
        C06_REG(a_set_symmetric_difference, "set_symmetric_difference", SETS, KP),
        C06_REG(a_set_symmetric_difference, "set_symmetric_difference", SETS, KI),
        C06_REG(a_set_symmetric_difference, "set_symmetric_difference", SETS, Kpi),
        C06_REG(a_set_symmetric_difference, "set_symmetric_difference", SETS, Kip),
        C06_REG(a_set_symmetric_difference, "set_symmetric_difference", SETS, Kfi),
        C06_REG(a_set_symmetric_difference, "set_symmetric_difference", SETS, Kpf),
        C06_REG(a_set_symmetric_difference, "set_symmetric_difference", SETS, Kbp),
        C06_REG(a_set_union, "set_union", SETS, KP),
        C06_REG(a_set_union, "set_union", SETS, KI),
        C06_REG(a_set_union, "set_union", SETS, Kpi),
        C06_REG(a_set_union, "set_union", SETS, Kip),
        C06_REG(a_set_union, "set_union", SETS, Kfi),
        C06_REG(a_set_union, "set_union", SETS, Kpf),
        C06_REG(a_set_union, "set_union", SETS, Kbp),
    };
    return t;
}

} // namespace c06

void vf_run(vf::Ctx& c) { c06::run_table(c); }
std::string vf_replay(std::string const& sub, std::string const& cs) { return c06::replay_table(sub, cs); }
