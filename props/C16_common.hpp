// C16 — helpers shared by the three C16 translation units (bit casts, NaN-insensitive comparison, case strings).
#pragma once

#include <cstdint>
#include <cstdio>
#include <cstdlib>
#include <cmath>
#include <cstring>
#include <limits>
#include <string>

namespace c16 {

using u32 = std::uint32_t;
using u64 = std::uint64_t;

template <typename T>
struct BitsOf;
template <>
struct BitsOf<float> {
    using type = u32;
    static constexpr int mant = 23;
    static constexpr char const* name = "f32";
};
template <>
struct BitsOf<double> {
    using type = u64;
    static constexpr int mant = 52;
    static constexpr char const* name = "f64";
};

template <typename T>
inline auto bits(T v) -> typename BitsOf<T>::type
{
    typename BitsOf<T>::type b;
    std::memcpy(&b, &v, sizeof b);
    return b;
}
template <typename T>
inline auto from_bits(u64 b) -> T
{
    auto bb = static_cast<typename BitsOf<T>::type>(b);
    T v;
    std::memcpy(&v, &bb, sizeof v);
    return v;
}
inline auto u2f(u32 b) -> float { return from_bits<float>(b); }
inline auto u2d(u64 b) -> double { return from_bits<double>(b); }

// classification by bit pattern only (independent of both implementations)
template <typename T>
inline auto nan_b(T v) -> bool
{
    using U          = typename BitsOf<T>::type;
    constexpr int m  = BitsOf<T>::mant;
    U const b        = bits(v);
    U const expmask  = (static_cast<U>(sizeof(T) == 4 ? 0xFFU : 0x7FFU)) << m;
    U const mantmask = (static_cast<U>(1) << m) - 1;
    return (b & expmask) == expmask && (b & mantmask) != 0;
}
template <typename T>
inline auto inf_b(T v) -> bool
{
    using U          = typename BitsOf<T>::type;
    constexpr int m  = BitsOf<T>::mant;
    U const b        = bits(v);
    U const expmask  = (static_cast<U>(sizeof(T) == 4 ? 0xFFU : 0x7FFU)) << m;
    U const mantmask = (static_cast<U>(1) << m) - 1;
    return (b & expmask) == expmask && (b & mantmask) == 0;
}
template <typename T>
inline auto sign_b(T v) -> bool
{
    return (bits(v) >> (sizeof(T) * 8 - 1)) != 0;
}
template <typename T>
inline auto zero_b(T v) -> bool
{
    using U = typename BitsOf<T>::type;
    return static_cast<U>(bits(v) << 1) == 0;
}

// "bit-identical, all NaNs equal" (sign and payload of a NaN are not compared)
template <typename T>
inline auto same(T a, T b) -> bool
{
    return (nan_b(a) && nan_b(b)) || bits(a) == bits(b);
}

template <typename T>
inline auto show(T v) -> std::string
{
    if (nan_b(v)) { return "nan"; }
    char buf[96];
    if constexpr (sizeof(T) == 4) {
        std::snprintf(buf, sizeof buf, "0x%08x(%a)", static_cast<unsigned>(bits(v)), static_cast<double>(v));
    } else {
        std::snprintf(buf, sizeof buf, "0x%016llx(%a)", static_cast<unsigned long long>(bits(v)), static_cast<double>(v));
    }
    return buf;
}
// arguments are shown with their bit pattern even when they are NaNs (the pattern is the input)
template <typename T>
inline auto show_arg(T v) -> std::string
{
    char buf[96];
    if constexpr (sizeof(T) == 4) {
        if (nan_b(v)) {
            std::snprintf(buf, sizeof buf, "0x%08x(nan)", static_cast<unsigned>(bits(v)));
        } else {
            std::snprintf(buf, sizeof buf, "0x%08x(%a)", static_cast<unsigned>(bits(v)), static_cast<double>(v));
        }
    } else {
        if (nan_b(v)) {
            std::snprintf(buf, sizeof buf, "0x%016llx(nan)", static_cast<unsigned long long>(bits(v)));
        } else {
            std::snprintf(buf, sizeof buf, "0x%016llx(%a)", static_cast<unsigned long long>(bits(v)), static_cast<double>(v));
        }
    }
    return buf;
}

// One case = one call: function name, argument type, up to three raw argument words.
struct Case {
    char const* fn;
    char const* ty; // f32 f64 i32 u32 i64 u64 c32 c64 ...
    int n;
    u64 a, b, c;
};
inline auto show_case(Case const& k) -> std::string
{
    char buf[160];
    if (k.n <= 1) {
        std::snprintf(buf, sizeof buf, "%s %s 0x%llx", k.fn, k.ty, static_cast<unsigned long long>(k.a));
    } else if (k.n == 2) {
        std::snprintf(buf, sizeof buf, "%s %s 0x%llx 0x%llx", k.fn, k.ty, static_cast<unsigned long long>(k.a), static_cast<unsigned long long>(k.b));
    } else {
        std::snprintf(buf, sizeof buf, "%s %s 0x%llx 0x%llx 0x%llx", k.fn, k.ty, static_cast<unsigned long long>(k.a), static_cast<unsigned long long>(k.b),
            static_cast<unsigned long long>(k.c));
    }
    return buf;
}
struct Parsed {
    std::string fn, ty;
    int n{0};
    u64 a{0}, b{0}, c{0};
};
inline auto parse_case(std::string const& cs) -> Parsed
{
    Parsed p;
    char fn[64] = {0}, ty[16] = {0};
    unsigned long long a = 0, b = 0, c = 0;
    int got = std::sscanf(cs.c_str(), "%63s %15s %llx %llx %llx", fn, ty, &a, &b, &c);
    p.fn    = fn;
    p.ty    = ty;
    p.n     = got >= 2 ? got - 2 : 0;
    p.a     = a;
    p.b     = b;
    p.c     = c;
    return p;
}

// result of one comparison: 0 = precondition not met (not a case), 1 = ok, 2 = mismatch (strings filled if out != null)
struct Out {
    std::string etl, ref;
};
template <typename T>
inline auto cmpf(T e, T r, Out* o) -> int
{
    if (same(e, r)) { return 1; }
    if (o != nullptr) {
        o->etl = show(e);
        o->ref = show(r);
    }
    return 2;
}
inline auto cmpi(long long e, long long r, Out* o) -> int
{
    if (e == r) { return 1; }
    if (o != nullptr) {
        o->etl = std::to_string(e);
        o->ref = std::to_string(r);
    }
    return 2;
}

// non-trivial rule of DESIGN §3/C16 for one argument
template <typename T>
inline auto is_tie(T v) -> bool
{
    using U         = typename BitsOf<T>::type;
    constexpr int m = BitsOf<T>::mant;
    int const bias  = sizeof(T) == 4 ? 127 : 1023;
    U const b       = bits(v);
    int const e     = static_cast<int>((b >> m) & (sizeof(T) == 4 ? 0xFFU : 0x7FFU)) - bias;
    U const mant    = b & ((static_cast<U>(1) << m) - 1);
    if (e == -1) { return mant == 0; } // 0.5
    if (e < 0 || e >= m) { return false; }
    int const fb = m - e; // number of fraction bits
    return (mant & ((static_cast<U>(1) << fb) - 1)) == (static_cast<U>(1) << (fb - 1));
}
template <typename T>
inline auto is_nt(T v) -> bool
{
    using U         = typename BitsOf<T>::type;
    constexpr int m = BitsOf<T>::mant;
    U const b       = bits(v);
    unsigned const e = static_cast<unsigned>((b >> m) & (sizeof(T) == 4 ? 0xFFU : 0x7FFU));
    unsigned const emax = sizeof(T) == 4 ? 0xFFU : 0x7FFU;
    unsigned const bias = sizeof(T) == 4 ? 127U : 1023U;
    U const mant    = b & ((static_cast<U>(1) << m) - 1);
    if (e == 0 || e == emax) { return true; }                 // zero, denormal, inf, NaN
    if (e >= bias + static_cast<unsigned>(m)) { return true; } // no fraction bits
    if (mant <= 64 || mant >= ((static_cast<U>(1) << m) - 64)) { return true; } // within 64 ulp of a power of two
    return is_tie(v);
}

template <typename T>
inline auto mag(T x) -> T
{
    using U = typename BitsOf<T>::type;
    return from_bits<T>(static_cast<U>(bits(x) << 1) >> 1);
}

// ------------------------------------------------------------------ known-finding classes of the approximating functions
// (consulted only when the corresponding tag arrives with --exclude; see the C16 report)
double const INF = std::numeric_limits<double>::infinity();
// Every one of them has the same root cause: at RUN time the function is gcem's compile-time approximation, which
// treats |x| < epsilon as "indistinguishable from zero", loses the sign of zero and forms differences of nearly equal
// exponentials / logarithms.  A class lists the arguments whose result is wrong by class (NaN/inf/zero/sign) or by
// >= 1e-3 relative; the rest of the domain stays in the search with the bound measured there.
inline auto eps_of(bool is32) -> double { return is32 ? 0x1p-23 : 0x1p-52; }
inline bool negzero(double x) { return x == 0 && std::signbit(x); }
inline bool cls_sqrt(double x, bool is32) { return negzero(x) || (x > 0 && x < eps_of(is32)); }
inline bool cls_sinh(double x, bool is32) { return negzero(x) || (x != 0 && ::fabs(x) < (is32 ? 0x1p-12 : 0x1p-41)); }
inline bool cls_atanh(double x, bool is32)
{
    double const a = ::fabs(x);
    // near +-1: returns +-inf when 1 - |x| < epsilon, and log((1 + x) / (1 - x)) is log(< epsilon) = -inf for x close to -1
    return negzero(x) || (x != 0 && a < (is32 ? 0x1p-13 : 0x1p-42)) || (a < 1 && 1 - a < 2.5 * eps_of(is32));
}
inline bool cls_erf(double x, bool is32) { return negzero(x) || (x != 0 && ::fabs(x) < eps_of(is32)); }
inline bool cls_log1p(double x, bool is32) { return x > -1 && x + 1 < eps_of(is32); }
inline bool cls_tgamma(double x, bool is32)
{
    if (negzero(x) || x == INF || x == -INF) { return true; } // -inf: unbounded recursion tgamma(x + 1) / x (stack overflow)
    if (x > 0) { return x < (is32 ? 0x1p-13 : 0x1p-41); }
    if (x < 0 && x != ::floor(x)) { return ::fabs(x) < eps_of(is32) || ::fabs(x - ::round(x)) < eps_of(is32) || x < -170; }
    return false;
}
inline bool cls_lgamma(double x, bool is32)
{
    if (x == INF || x == 2) { return true; }
    if (x > 0) { return x < (is32 ? 0x1p-17 : 0x1p-47); }
    return x < 0 && x != ::floor(x) && x != -INF; // negative non-integers: +inf instead of log|gamma(x)|
}

// atan2(y, x) (gcem): every argument below epsilon counts as zero, zeros lose their sign, two infinities give NaN, and
// gcem::atan() returns 0 for a quotient |y/x| below epsilon
inline bool cls_atan2(double y, double x, bool is32)
{
    if (y != y || x != x) { return false; }
    double const e = eps_of(is32), ay = ::fabs(y), ax = ::fabs(x);
    return ay == INF || ax == INF || ay < e || ax < e || ay / ax < e;
}
// hypot = sqrt(x*x + y*y [+ z*z]) inherits the sqrt class (a sum of squares below epsilon gives 0)
template <typename T>
inline bool cls_hypot(T x, T y, T z)
{
    if (nan_b(x) || nan_b(y) || nan_b(z) || inf_b(x) || inf_b(y) || inf_b(z)) { return false; }
    T const ss = x * x + y * y + z * z;
    return ss < std::numeric_limits<T>::epsilon() && !(zero_b(x) && zero_b(y) && zero_b(z));
}

// hypot(x, y) = sqrt(x*x + y*y) without scaling: wrong (inf, 0 or a few bits) as soon as a square leaves the normal range
template <typename T>
inline bool cls_hypot_naive(T x, T y)
{
    if (nan_b(x) || nan_b(y) || inf_b(x) || inf_b(y)) { return false; }
    int const lim = sizeof(T) == 4 ? 62 : 510;
    auto out = [&](T v) {
        if (zero_b(v)) { return false; }
        int e = 0;
        (void)std::frexp(static_cast<double>(v), &e);
        return e - 1 > lim || e - 1 < -lim;
    };
    return out(x) || out(y);
}

} // namespace c16
