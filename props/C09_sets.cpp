// C09 — static_set / flat_set / flat_multiset stay sorted + unique and answer like std::set.
// Engines: E2 (every reachable set x every concrete op; all histories of depth 4/5 over a concrete alphabet;
//          every container of <= 4 keys for flat_multiset) and E1 (rapidcheck histories, shrinking).
// Oracle : std::set<int, Comp> (std::multiset for flat_multiset) driven in lock-step by the same decoded ops.
//
// One source, three translation units (registry passes -DC09_PART=0|1|2 so they compile in parallel):
//   PART 0  static_set<int,N,Comp>                       N in {1,3,4}, Comp in {less<int>, greater<int>, less<>} (+ greater<> N=3)
//   PART 1  flat_set<int, static_vector<int,N>, Comp>    same grid
//   PART 2  flat_set over an inplace_vector-backed adapter, flat_set with a *stateful* comparator (two directions, so
//           that swap / copy / move must carry the comparator along), flat_multiset construction
//
// What is NOT part of the check on this tree (does not compile / declared but never defined / absent):
//   static_set::equal_range (returns `iterator`, body returns a pair: hard error when instantiated), static_set insert
//   with hint / emplace_hint / extract / replace / erase(const_iterator) / erase_if (commented out in the header),
//   flat_set::insert(sorted_unique_t, first, last) (declared, never defined), every modifier of flat_multiset (it only
//   has constructors, iteration and size on this tree).
// What is deliberately never asked (soundness):
//   * flat_set on a fixed-capacity container is never asked to hold more than N keys (backing container's precondition);
//   * range insert / range construction never need more than N distinct keys (a void-returning range insert cannot
//     "report failure"); random-access source ranges are never longer than N (static_set's documented precondition);
//   * the iterator returned by a *failed* static_set insert into a full set is not inspected (only `.second == false`
//     and "set unchanged" are demanded by the property);
//   * moved-from sets are only assigned to, never read.
#include <etl/flat_set.hpp>
#include <etl/functional.hpp>
#include <etl/inplace_vector.hpp>
#include <etl/set.hpp>
#include <etl/vector.hpp>

#include "rc.hpp"
#include "iterators.hpp"

#include <algorithm>
#include <iterator>
#include <set>
#include <vector>

#ifndef C09_PART
    #define C09_PART 0
#endif

namespace {

using vf::OpsCase;
using vf::RawOp;

constexpr int universe = 6; // keys 0..5

// ------------------------------------------------------------------ heterogeneous key (no conversion to int)
struct HKey {
    int v;
};
constexpr auto operator<(int a, HKey b) -> bool { return a < b.v; }
constexpr auto operator<(HKey a, int b) -> bool { return a.v < b; }
constexpr auto operator>(int a, HKey b) -> bool { return a > b.v; }
constexpr auto operator>(HKey a, int b) -> bool { return a.v > b; }

// ------------------------------------------------------------------ stateful comparator (direction is run-time state)
struct DirComp {
    bool desc{false};
    constexpr auto operator()(int a, int b) const -> bool { return desc ? b < a : a < b; }
};

template <typename C>
struct StdComp;
template <>
struct StdComp<etl::less<int>> {
    using type = std::less<int>;
};
template <>
struct StdComp<etl::greater<int>> {
    using type = std::greater<int>;
};
template <>
struct StdComp<etl::less<>> {
    using type = std::less<>;
};
template <>
struct StdComp<etl::greater<>> {
    using type = std::greater<>;
};
template <>
struct StdComp<DirComp> {
    using type = DirComp;
};

// ------------------------------------------------------------------ inplace_vector-backed sequence container
// etl::inplace_vector has no insert / erase; flat_set needs emplace(pos, x), erase, clear and the iterator accessors.
// This adapter supplies exactly those on top of etl::inplace_vector (value-initialised, see DESIGN §6 row C02/C03).
bool g_adapter_overflow = false; // latched: the harness asked the adapter for more than N elements (generator bug)

template <typename T, std::size_t Cap>
struct IVec {
    using value_type             = T;
    using size_type              = std::size_t;
    using difference_type        = std::ptrdiff_t;
    using reference              = T&;
    using const_reference        = T const&;
    using iterator               = T*;
    using const_iterator         = T const*;
    using reverse_iterator       = etl::reverse_iterator<iterator>;
    using const_reverse_iterator = etl::reverse_iterator<const_iterator>;

    etl::inplace_vector<T, Cap> s{};

    IVec() = default;
    template <typename It>
    IVec(It first, It last)
    {
        for (; first != last; ++first) { push_back(*first); }
    }

    [[nodiscard]] auto begin() noexcept -> iterator { return s.data(); }
    [[nodiscard]] auto begin() const noexcept -> const_iterator { return s.data(); }
    [[nodiscard]] auto cbegin() const noexcept -> const_iterator { return s.data(); }
    [[nodiscard]] auto end() noexcept -> iterator { return s.data() + s.size(); }
    [[nodiscard]] auto end() const noexcept -> const_iterator { return s.data() + s.size(); }
    [[nodiscard]] auto cend() const noexcept -> const_iterator { return s.data() + s.size(); }
    [[nodiscard]] auto rbegin() noexcept -> reverse_iterator { return reverse_iterator(end()); }
    [[nodiscard]] auto rbegin() const noexcept -> const_reverse_iterator { return const_reverse_iterator(end()); }
    [[nodiscard]] auto crbegin() const noexcept -> const_reverse_iterator { return const_reverse_iterator(end()); }
    [[nodiscard]] auto rend() noexcept -> reverse_iterator { return reverse_iterator(begin()); }
    [[nodiscard]] auto rend() const noexcept -> const_reverse_iterator { return const_reverse_iterator(begin()); }
    [[nodiscard]] auto crend() const noexcept -> const_reverse_iterator { return const_reverse_iterator(begin()); }
    [[nodiscard]] auto empty() const noexcept -> bool { return s.empty(); }
    [[nodiscard]] auto size() const noexcept -> size_type { return s.size(); }
    [[nodiscard]] auto max_size() const noexcept -> size_type { return Cap; }

    auto push_back(T const& v) -> void
    {
        if (s.try_push_back(v) == nullptr) { g_adapter_overflow = true; }
    }
    template <typename... Args>
    auto emplace(const_iterator pos, Args&&... args) -> iterator
    {
        auto idx = pos - cbegin();
        if (s.try_emplace_back(static_cast<Args&&>(args)...) == nullptr) {
            g_adapter_overflow = true;
            return begin() + idx;
        }
        std::rotate(begin() + idx, end() - 1, end());
        return begin() + idx;
    }
    auto erase(const_iterator first, const_iterator last) -> iterator
    {
        auto f = begin() + (first - cbegin());
        auto l = begin() + (last - cbegin());
        auto n = l - f;
        std::move(l, end(), f);
        for (difference_type i = 0; i < n; ++i) { s.pop_back(); }
        return f;
    }
    auto erase(const_iterator pos) -> iterator { return erase(pos, pos + 1); }
    auto clear() noexcept -> void { s.clear(); }
};

// ------------------------------------------------------------------ helpers
inline auto pick(std::uint32_t raw, std::size_t room) -> std::size_t
{
    switch (raw % 8) {
    case 0: return 0;
    case 1: return room >= 1 ? 1 : 0;
    case 2: return room;
    case 3: return room >= 1 ? room - 1 : 0;
    default: return (raw / 8) % (room + 1);
    }
}

// offset of an iterator (all iterators here are pointers) or a deterministic sentinel when it is not inside [b,e]
template <typename It>
inline auto off(It b, It e, It it) -> long
{
    if (it == nullptr) { return -1000; } // null iterator
    if (std::less<>{}(it, b) || std::less<>{}(e, it)) { return -999; } // outside the container
    return static_cast<long>(it - b);
}
inline auto show_off(long o) -> std::string
{
    if (o == -1000) { return "null"; }
    if (o == -999) { return "outside [begin,end]"; }
    return std::to_string(o);
}
template <typename Seq>
inline auto show_seq(Seq const& s) -> std::string
{
    std::string o = "[";
    bool first    = true;
    for (auto v : s) {
        if (!first) { o += ' '; }
        first = false;
        o += std::to_string(v);
    }
    return o + "]";
}

// keys of a range-style op: digit i of `a` in base 6, shifted by i*stride
inline auto range_keys(std::uint32_t a, std::uint32_t stride, std::size_t len) -> std::vector<int>
{
    std::vector<int> k;
    auto d = a % 1296U;
    for (std::size_t i = 0; i < len; ++i) {
        k.push_back(static_cast<int>((d % 6U + i * stride) % 6U));
        d /= 6U;
    }
    return k;
}

enum Code : std::uint32_t {
    INSERT_CREF, INSERT_RREF, EMPLACE, INSERT_RANGE, ERASE_KEY, ERASE_ITER, ERASE_RANGE, CLEAR, SWAP_MEMBER, SWAP_FREE, COMPARE,
    COPY_CTOR_MUTATE, COPY_ASSIGN, MOVE_ASSIGN, MOVE_CTOR, SELF_COPY_ASSIGN, CTOR_RANGE, OBSERVE,
    NCODES_STATIC,
    // flat_set only
    INSERT_HINT_CREF = NCODES_STATIC, INSERT_HINT_RREF, EMPLACE_HINT, ERASE_CONST_ITER, EXTRACT, REPLACE, CTOR_CONTAINER, CTOR_SORTED_UNIQUE, ERASE_IF,
    NCODES_FLAT
};
char const* const code_names[] = {"insert(const&)", "insert(&&)", "emplace", "insert(first,last)", "erase(key)", "erase(iterator)", "erase(first,last)", "clear", "swap(member)", "swap(free)",
    "compare", "copy-ctor+mutate copy", "copy-assign", "move-assign", "move-ctor", "self copy-assign", "ctor(first,last)", "observe", "insert(hint,const&)", "insert(hint,&&)", "emplace_hint",
    "erase(const_iterator)", "extract", "replace", "ctor(container)", "ctor(sorted_unique,...)", "erase_if"};

template <typename Cont>
inline auto fill(Cont& c, std::vector<int> const& keys) -> void
{
    for (auto k : keys) { c.push_back(k); }
}

// ------------------------------------------------------------------ the lock-step runner
template <typename SetT, typename CompT, std::size_t Cap, bool Flat>
struct Runner {
    using Set                         = SetT;
    using Comp                        = CompT;
    using SComp                       = typename StdComp<Comp>::type;
    using Model                       = std::set<int, SComp>;
    static constexpr std::size_t N    = Cap;
    static constexpr bool flat        = Flat;
    static constexpr bool transparent = etl::detail::is_transparent_v<Comp>;
    static constexpr bool stateful    = std::is_same_v<Comp, DirComp>;
    static constexpr std::uint32_t ncodes = Flat ? NCODES_FLAT : NCODES_STATIC;

    static auto make_set(bool desc) -> Set
    {
        if constexpr (stateful) {
            return Set(DirComp{desc});
        } else {
            (void)desc;
            return Set{};
        }
    }
    static auto make_model(bool desc) -> Model
    {
        if constexpr (stateful) {
            return Model(DirComp{desc});
        } else {
            (void)desc;
            return Model{};
        }
    }

    // every lookup answer for one key (of type K), const and non-const overloads
    template <typename K>
    static auto lookups(char const* name, char const* ktype, Set& x, Model const& m, K const& k, int kv) -> std::string
    {
        Set const& cx = x;
        auto mo       = [&](auto it) { return static_cast<long>(std::distance(m.begin(), it)); };
        auto bad      = [&](char const* fn, long got, long want) {
            return std::string(name) + ": " + fn + "(" + ktype + " " + std::to_string(kv) + ") gives offset " + show_off(got) + ", std::set gives " + std::to_string(want);
        };
        long const wf = mo(m.find(k)), wl = mo(m.lower_bound(k)), wu = mo(m.upper_bound(k));
        if (auto o = off(x.begin(), x.end(), x.find(k)); o != wf) { return bad("find", o, wf); }
        if (auto o = off(cx.begin(), cx.end(), cx.find(k)); o != wf) { return bad("find const", o, wf); }
        if (cx.contains(k) != (m.count(k) != 0)) { return std::string(name) + ": contains(" + ktype + " " + std::to_string(kv) + ") is " + (cx.contains(k) ? "true" : "false") + ", std::set says " + (m.count(k) != 0 ? "true" : "false"); }
        if (static_cast<std::size_t>(cx.count(k)) != m.count(k)) { return std::string(name) + ": count(" + ktype + " " + std::to_string(kv) + ") is " + std::to_string(cx.count(k)) + ", std::set says " + std::to_string(m.count(k)); }
        if (auto o = off(x.begin(), x.end(), x.lower_bound(k)); o != wl) { return bad("lower_bound", o, wl); }
        if (auto o = off(cx.begin(), cx.end(), cx.lower_bound(k)); o != wl) { return bad("lower_bound const", o, wl); }
        if (auto o = off(x.begin(), x.end(), x.upper_bound(k)); o != wu) { return bad("upper_bound", o, wu); }
        if (auto o = off(cx.begin(), cx.end(), cx.upper_bound(k)); o != wu) { return bad("upper_bound const", o, wu); }
        if constexpr (flat) { // static_set::equal_range does not compile on this tree
            auto r = x.equal_range(k);
            if (auto o = off(x.begin(), x.end(), r.first); o != wl) { return bad("equal_range.first", o, wl); }
            if (auto o = off(x.begin(), x.end(), r.second); o != wu) { return bad("equal_range.second", o, wu); }
            auto cr = cx.equal_range(k);
            if (auto o = off(cx.begin(), cx.end(), cr.first); o != wl) { return bad("equal_range const .first", o, wl); }
            if (auto o = off(cx.begin(), cx.end(), cr.second); o != wu) { return bad("equal_range const .second", o, wu); }
        }
        return "";
    }

    static auto compare(char const* name, Set& x, Model const& m) -> std::string
    {
        Set const& cx = x;
        std::vector<int> const seq(m.begin(), m.end());
        if (cx.size() != m.size()) {
            std::string got = cx.size() <= N ? " content " + show_seq(cx) : std::string();
            return std::string(name) + ": size " + std::to_string(cx.size()) + got + ", std::set has " + std::to_string(m.size()) + " " + show_seq(seq);
        }
        if (cx.empty() != m.empty()) { return std::string(name) + ": empty() wrong"; }
        if (cx.max_size() != N) { return std::string(name) + ": max_size() != N"; }
        if constexpr (!flat) {
            if (cx.full() != (m.size() == N)) { return std::string(name) + ": full() wrong"; }
        }
        if (static_cast<std::size_t>(x.end() - x.begin()) != m.size() || static_cast<std::size_t>(cx.end() - cx.begin()) != m.size() || static_cast<std::size_t>(cx.cend() - cx.cbegin()) != m.size()) {
            return std::string(name) + ": end()-begin() != size()";
        }
        if (!std::equal(cx.begin(), cx.end(), seq.begin())) { return std::string(name) + ": iterates " + show_seq(cx) + ", std::set iterates " + show_seq(seq); }
        if (!std::equal(x.begin(), x.end(), seq.begin()) || !std::equal(cx.cbegin(), cx.cend(), seq.begin())) { return std::string(name) + ": begin()/cbegin() iteration differs from const begin()"; }
        // invariant: strictly ascending under the container's own comparator (and under the oracle's)
        {
            auto kc = cx.key_comp();
            auto vc = cx.value_comp();
            auto mc = m.key_comp();
            for (std::size_t i = 0; i + 1 < seq.size(); ++i) {
                int const p = cx.begin()[i];
                int const q = cx.begin()[i + 1];
                if (!kc(p, q) || kc(q, p) || !vc(p, q) || vc(q, p) || !mc(p, q)) { return std::string(name) + ": not strictly ascending under the comparator: " + show_seq(cx); }
            }
            if constexpr (stateful) {
                if (kc.desc != mc.desc) { return std::string(name) + ": key_comp() direction is " + (kc.desc ? "descending" : "ascending") + ", std::set's is " + (mc.desc ? "descending" : "ascending"); }
            }
        }
        // reverse iteration
        {
            std::size_t i = seq.size();
            for (auto r = cx.rbegin(); r != cx.rend(); ++r) {
                if (i == 0) { return std::string(name) + ": reverse iteration longer than size()"; }
                --i;
                if (*r != seq[i]) { return std::string(name) + ": reverse iteration differs at " + std::to_string(i); }
            }
            if (i != 0) { return std::string(name) + ": reverse iteration shorter than size()"; }
            i = seq.size();
            for (auto r = x.rbegin(); r != x.rend(); ++r) {
                if (i == 0) { return std::string(name) + ": non-const reverse iteration longer than size()"; }
                --i;
                if (*r != seq[i]) { return std::string(name) + ": non-const reverse iteration differs at " + std::to_string(i); }
            }
            i = seq.size();
            for (auto r = cx.crbegin(); r != cx.crend(); ++r) {
                if (i == 0) { return std::string(name) + ": crbegin iteration longer than size()"; }
                --i;
                if (*r != seq[i]) { return std::string(name) + ": crbegin iteration differs at " + std::to_string(i); }
            }
        }
        // every lookup, keys just outside the universe included
        for (int k = -1; k <= universe; ++k) {
            if (auto e = lookups(name, "int", x, m, k, k); !e.empty()) { return e; }
            if constexpr (transparent) {
                if (auto e = lookups(name, "long", x, m, static_cast<long>(k), k); !e.empty()) { return e; }
                if (auto e = lookups(name, "HKey", x, m, HKey{k}, k); !e.empty()) { return e; }
            }
        }
        return "";
    }

    static auto run(OpsCase const& k, int stats) -> std::string
    {
        std::string err;
        bool nt_dup = false, nt_full_new = false, nt_erase_succ = false;
        bool f_full = false, f_full_dup = false, f_multi_erase = false, f_swap_nonempty = false, f_range_dup = false, f_extract = false;
        g_adapter_overflow     = false;
        vf::it::g_out_of_range = false;
        struct Sandwich {
            std::uint64_t pre{0xA5A5A5A5A5A5A5A5ULL};
            Set a;
            std::uint64_t mid{0x5A5A5A5A5A5A5A5AULL};
            Set b;
            std::uint64_t post{0xC3C3C3C3C3C3C3C3ULL};
        } sw{0xA5A5A5A5A5A5A5A5ULL, make_set(false), 0x5A5A5A5A5A5A5A5AULL, make_set(true), 0xC3C3C3C3C3C3C3C3ULL};
        Model ma = make_model(false), mb = make_model(true);
        for (auto const& op : k.ops) {
            bool const tb = (op.c & 1U) != 0;
            Set& x        = tb ? sw.b : sw.a;
            Set& y        = tb ? sw.a : sw.b;
            Model& mx     = tb ? mb : ma;
            Model& my     = tb ? ma : mb;
            auto const stride = (op.c >> 1) % 6U;
            int key       = static_cast<int>(op.a % 6U);
            auto code     = op.code % ncodes;
            // ---- re-map what is impossible / not askable in the current state
            if (mx.empty() && (code == ERASE_ITER || code == ERASE_CONST_ITER)) { code = INSERT_CREF; }
            bool const is_single_insert = code == INSERT_CREF || code == INSERT_RREF || code == EMPLACE || code == INSERT_HINT_CREF || code == INSERT_HINT_RREF || code == EMPLACE_HINT;
            if (flat && is_single_insert && mx.size() == N && mx.count(key) == 0) {
                // flat_set over a fixed-capacity container: a new key would exceed the capacity -> ask for a duplicate instead
                key = *std::next(mx.begin(), static_cast<std::ptrdiff_t>(op.a % N));
            }
            if (stats > 1) { vf::count((std::string("op.") + code_names[code]).c_str()); }

            auto check_insert = [&](auto const& r, char const* what) {
                bool const present = mx.count(key) != 0;
                bool const full    = mx.size() == N;
                nt_dup |= present;
                f_full_dup |= present && full;
                if (!flat && full && !present) {
                    nt_full_new = true; // static_set: failure must be reported, set unchanged (compare() below sees the unchanged model)
                    if (r.second) { err = std::string(what) + " of the new key " + std::to_string(key) + " into a full set reported inserted=true"; }
                    return;
                }
                auto [mit, mins] = mx.insert(key);
                long const want  = static_cast<long>(std::distance(mx.begin(), mit));
                long const got   = off(x.begin(), x.end(), r.first);
                if (static_cast<bool>(r.second) != mins) {
                    err = std::string(what) + " of key " + std::to_string(key) + " returned inserted=" + (r.second ? "true" : "false") + ", std::set " + (mins ? "true" : "false");
                } else if (got != want) {
                    err = std::string(what) + " of key " + std::to_string(key) + " (inserted=" + (mins ? "true" : "false") + ") returned iterator offset " + show_off(got) + ", std::set " + std::to_string(want);
                }
            };
            // keys of a range op, cut so that the set never needs more than N keys; random-access sources never longer than N
            bool had_dup  = false;
            auto fit_keys = [&](Model const& base, std::vector<int> keys, bool random_access) {
                std::set<int> u(base.begin(), base.end());
                std::vector<int> out;
                for (auto q : keys) {
                    if (random_access && out.size() == N) { break; }
                    if (u.count(q) == 0 && u.size() == N) { break; }
                    had_dup |= u.count(q) != 0;
                    u.insert(q);
                    out.push_back(q);
                }
                return out;
            };

            switch (code) {
            case INSERT_CREF: {
                int const v = key;
                auto r      = x.insert(v);
                check_insert(r, "insert(const&)");
                break;
            }
            case INSERT_RREF: {
                int v  = key;
                auto r = x.insert(std::move(v));
                check_insert(r, "insert(&&)");
                break;
            }
            case EMPLACE: {
                auto r = x.emplace(key);
                check_insert(r, "emplace");
                break;
            }
            case INSERT_RANGE: {
                bool const ra = ((op.b / 5U) % 2U) == 0;
                auto keys     = fit_keys(mx, range_keys(op.a, stride, op.b % 5U), false);
                nt_dup |= had_dup;
                f_range_dup |= had_dup;
                int src[4]       = {0, 0, 0, 0};
                std::copy(keys.begin(), keys.end(), src);
                int const* f = src;
                if (ra) {
                    x.insert(f, f + keys.size());
                } else {
                    using It = vf::it::In<int const>;
                    x.insert(It(f, f, f + keys.size()), It(f + keys.size(), f, f + keys.size()));
                }
                mx.insert(keys.begin(), keys.end());
                if (!std::equal(keys.begin(), keys.end(), src)) { err = "insert(first,last) modified its source range"; }
                break;
            }
            case ERASE_KEY: {
                bool const absent = mx.count(key) == 0;
                nt_erase_succ |= absent && mx.upper_bound(key) != mx.end();
                auto n = x.erase(key);
                auto e = mx.erase(key);
                if (static_cast<std::size_t>(n) != e) { err = "erase(key " + std::to_string(key) + ") returned " + std::to_string(n) + ", std::set " + std::to_string(e); }
                break;
            }
            case ERASE_ITER: {
                auto p  = static_cast<std::ptrdiff_t>(op.a % mx.size());
                auto it = x.erase(x.begin() + p);
                mx.erase(std::next(mx.begin(), p));
                if (auto o = off(x.begin(), x.end(), it); o != p) { err = "erase(iterator at " + std::to_string(p) + ") returned iterator offset " + show_off(o) + ", expected " + std::to_string(p); }
                break;
            }
            case ERASE_CONST_ITER: {
                if constexpr (flat) {
                    auto p  = static_cast<std::ptrdiff_t>(op.a % mx.size());
                    auto it = x.erase(x.cbegin() + p);
                    mx.erase(std::next(mx.begin(), p));
                    if (auto o = off(x.begin(), x.end(), it); o != p) { err = "erase(const_iterator at " + std::to_string(p) + ") returned iterator offset " + show_off(o) + ", expected " + std::to_string(p); }
                }
                break;
            }
            case ERASE_RANGE: {
                auto f = static_cast<std::ptrdiff_t>(op.a % (mx.size() + 1));
                auto l = f + static_cast<std::ptrdiff_t>(pick(op.b, mx.size() - static_cast<std::size_t>(f)));
                f_multi_erase |= (l - f) >= 2;
                long o = 0;
                if constexpr (flat) {
                    auto it = x.erase(x.cbegin() + f, x.cbegin() + l);
                    o       = off(x.begin(), x.end(), it);
                } else {
                    auto it = x.erase(x.begin() + f, x.begin() + l);
                    o       = off(x.begin(), x.end(), it);
                }
                mx.erase(std::next(mx.begin(), f), std::next(mx.begin(), l));
                if (o != f) { err = "erase(first " + std::to_string(f) + ", last " + std::to_string(l) + ") returned iterator offset " + show_off(o) + ", expected " + std::to_string(f); }
                break;
            }
            case CLEAR: {
                x.clear();
                mx.clear();
                break;
            }
            case SWAP_MEMBER: {
                f_swap_nonempty |= !mx.empty() && !my.empty();
                x.swap(y);
                mx.swap(my);
                break;
            }
            case SWAP_FREE: {
                f_swap_nonempty |= !mx.empty() && !my.empty();
                using etl::swap;
                swap(x, y);
                mx.swap(my);
                break;
            }
            case COMPARE: {
                Set const& cx = x;
                Set const& cy = y;
                if ((cx == cy) != (mx == my)) { err = "operator== differs from std::set"; }
                if ((cx != cy) != (mx != my)) { err = "operator!= differs from std::set"; }
                if ((cx < cy) != (mx < my)) { err = "operator< differs from std::set"; }
                if ((cx <= cy) != (mx <= my)) { err = "operator<= differs from std::set"; }
                if ((cx > cy) != (mx > my)) { err = "operator> differs from std::set"; }
                if ((cx >= cy) != (mx >= my)) { err = "operator>= differs from std::set"; }
                if (!(cx == cx) || (cx != cx) || (cx < cx) || !(cx <= cx)) { err = "relational operators not reflexive"; }
                break;
            }
            case COPY_CTOR_MUTATE: {
                Set c(x);
                Model mc(mx);
                if (auto e = compare("copy", c, mc); !e.empty()) { err = "copy constructor: " + e; }
                if (!mc.empty()) {
                    c.erase(c.begin());
                    mc.erase(mc.begin());
                }
                if (mc.size() < N) {
                    c.insert(key);
                    mc.insert(key);
                }
                if (auto e = compare("mutated copy", c, mc); !e.empty() && err.empty()) { err = e; }
                if (auto e = compare("source after mutating its copy", x, mx); !e.empty() && err.empty()) { err = e; }
                break;
            }
            case COPY_ASSIGN: {
                y  = x;
                my = mx;
                break;
            }
            case MOVE_ASSIGN: {
                y  = std::move(x);
                my = mx;
                x  = y; // the moved-from set is only assigned to
                break;
            }
            case MOVE_CTOR: {
                Set c(std::move(x));
                if (auto e = compare("move-constructed", c, mx); !e.empty()) { err = "move constructor: " + e; }
                x = std::move(c);
                break;
            }
            case SELF_COPY_ASSIGN: {
                Set& alias = x;
                x          = alias;
                break;
            }
            case CTOR_RANGE: {
                bool const ra = ((op.b / 5U) % 2U) == 0;
                auto keys     = fit_keys(Model(mx.key_comp()), range_keys(op.a, stride, op.b % 5U), ra);
                nt_dup |= had_dup;
                f_range_dup |= had_dup;
                int src[4] = {0, 0, 0, 0};
                std::copy(keys.begin(), keys.end(), src);
                int const* f = src;
                using It     = vf::it::In<int const>;
                Model mc(keys.begin(), keys.end(), mx.key_comp());
                auto build = [&]() -> Set {
                    if constexpr (flat) {
                        Set const& cx = x;
                        if (ra) { return Set(f, f + keys.size(), cx.key_comp()); }
                        return Set(It(f, f, f + keys.size()), It(f + keys.size(), f, f + keys.size()), cx.key_comp());
                    } else {
                        if (ra) { return Set(f, f + keys.size()); }
                        return Set(It(f, f, f + keys.size()), It(f + keys.size(), f, f + keys.size()));
                    }
                };
                Set c = build();
                if (auto e = compare("ctor(first,last)", c, mc); !e.empty()) { err = e; }
                y  = c;
                my = mc;
                break;
            }
            case OBSERVE: break;
            default: break;
            }

            if constexpr (flat) {
                using Cont = typename Set::container_type;
                switch (code) {
                case INSERT_HINT_CREF:
                case INSERT_HINT_RREF:
                case EMPLACE_HINT: {
                    auto hp            = static_cast<std::ptrdiff_t>(op.b % (mx.size() + 1));
                    bool const present = mx.count(key) != 0;
                    nt_dup |= present;
                    f_full_dup |= present && mx.size() == N;
                    typename Set::iterator it{};
                    if (code == INSERT_HINT_CREF) {
                        int const v = key;
                        it          = x.insert(x.cbegin() + hp, v);
                    } else if (code == INSERT_HINT_RREF) {
                        int v = key;
                        it    = x.insert(x.cbegin() + hp, std::move(v));
                    } else {
                        it = x.emplace_hint(x.cbegin() + hp, key);
                    }
                    auto mit        = mx.insert(std::next(mx.begin(), hp), key);
                    long const want = static_cast<long>(std::distance(mx.begin(), mit));
                    if (auto o = off(x.begin(), x.end(), it); o != want) { err = std::string(code_names[code]) + " of key " + std::to_string(key) + " returned iterator offset " + show_off(o) + ", std::set " + std::to_string(want); }
                    break;
                }
                case EXTRACT: {
                    f_extract |= !mx.empty();
                    std::vector<int> const seq(mx.begin(), mx.end());
                    Cont c = std::move(x).extract();
                    if (c.size() != seq.size() || !std::equal(seq.begin(), seq.end(), c.begin())) {
                        err = "extract() returned a container of size " + std::to_string(c.size()) + (c.size() <= N ? " " + show_seq(c) : std::string()) + ", the set held " + show_seq(seq);
                    }
                    if ((op.b & 1U) != 0) {
                        x.replace(std::move(c)); // round trip: the set is as before
                    } else {
                        mx.clear(); // *this is emptied by extract()
                    }
                    break;
                }
                case REPLACE: {
                    std::vector<int> keys;
                    for (int q = 0; q < universe; ++q) {
                        if (((op.a % 64U) >> q) & 1U) { keys.push_back(q); }
                    }
                    std::sort(keys.begin(), keys.end(), mx.key_comp()); // sorted + unique under the set's comparator (replace() keeps it)
                    if (keys.size() > N) { keys.resize(N); }
                    Cont c;
                    fill(c, keys);
                    x.replace(std::move(c));
                    Model nm(keys.begin(), keys.end(), mx.key_comp());
                    mx.swap(nm);
                    break;
                }
                case CTOR_CONTAINER: {
                    auto keys = range_keys(op.a, stride, std::min<std::size_t>(op.b % 5U, N));
                    nt_dup |= std::set<int>(keys.begin(), keys.end()).size() != keys.size();
                    Cont c;
                    fill(c, keys);
                    Set s(c); // sorts and removes duplicates; value-initialised comparator
                    Model mc(keys.begin(), keys.end(), SComp{});
                    if (auto e = compare("ctor(container)", s, mc); !e.empty()) { err = e; }
                    if (c.size() != keys.size() || !std::equal(keys.begin(), keys.end(), c.begin())) { err = "ctor(container const&) modified its argument"; }
                    y  = std::move(s);
                    my = mc;
                    break;
                }
                case CTOR_SORTED_UNIQUE: {
                    std::vector<int> keys;
                    for (int q = 0; q < universe; ++q) {
                        if (((op.a % 64U) >> q) & 1U) { keys.push_back(q); }
                    }
                    if (keys.size() > N) { keys.resize(N); }
                    Set const& cx = x;
                    if ((op.b & 1U) != 0) {
                        // (sorted_unique, first, last, comp): sorted under the comparator that is passed
                        std::sort(keys.begin(), keys.end(), mx.key_comp());
                        int src[6] = {0, 0, 0, 0, 0, 0};
                        std::copy(keys.begin(), keys.end(), src);
                        int const* f = src;
                        Set s(etl::sorted_unique, f, f + keys.size(), cx.key_comp());
                        Model mc(keys.begin(), keys.end(), mx.key_comp());
                        if (auto e = compare("ctor(sorted_unique,first,last)", s, mc); !e.empty()) { err = e; }
                        y  = s;
                        my = mc;
                    } else {
                        // (sorted_unique, container): value-initialised comparator
                        std::sort(keys.begin(), keys.end(), SComp{});
                        Cont c;
                        fill(c, keys);
                        Set s(etl::sorted_unique, std::move(c));
                        Model mc(keys.begin(), keys.end(), SComp{});
                        if (auto e = compare("ctor(sorted_unique,container)", s, mc); !e.empty()) { err = e; }
                        y  = std::move(s);
                        my = mc;
                    }
                    break;
                }
                case ERASE_IF: {
                    int const par = static_cast<int>(op.a & 1U);
                    auto n        = etl::erase_if(x, [par](int v) { return (v & 1) == par; });
                    auto e        = std::erase_if(mx, [par](int v) { return (v & 1) == par; });
                    if (static_cast<std::size_t>(n) != e) { err = "erase_if returned " + std::to_string(n) + ", std::erase_if " + std::to_string(e); }
                    break;
                }
                default: break;
                }
            }

            f_full |= mx.size() == N || my.size() == N;
            if (err.empty()) { err = compare(tb ? "B" : "A", x, mx); }
            if (err.empty()) { err = compare(tb ? "A" : "B", y, my); }
            if (err.empty() && (sw.pre != 0xA5A5A5A5A5A5A5A5ULL || sw.mid != 0x5A5A5A5A5A5A5A5AULL || sw.post != 0xC3C3C3C3C3C3C3C3ULL)) { err = "canary next to the set was overwritten"; }
            if (err.empty() && vf::it::g_out_of_range) { err = "an input iterator was advanced / dereferenced outside its range"; }
            if (err.empty() && g_adapter_overflow) { err = "HARNESS: the backing adapter was asked to exceed its capacity (generator unsound, or the set inserted a duplicate)"; }
            if (!err.empty()) {
                err = std::string("after ") + code_names[code] + ": " + err;
                break;
            }
        }
        if (stats > 1) {
            vf::label(flat ? "flat_set.hist.duplicate_insert" : "static_set.hist.duplicate_insert", nt_dup);
            vf::label(flat ? "flat_set.hist.reached_full" : "static_set.hist.reached_full", f_full);
            vf::label(flat ? "flat_set.hist.duplicate_insert_while_full" : "static_set.hist.duplicate_insert_while_full", f_full_dup);
            vf::label(flat ? "flat_set.hist.erase_absent_key_with_successor" : "static_set.hist.erase_absent_key_with_successor", nt_erase_succ);
            vf::label(flat ? "flat_set.hist.range_erase_of_2_or_more" : "static_set.hist.range_erase_of_2_or_more", f_multi_erase);
            vf::label(flat ? "flat_set.hist.swap_of_two_non_empty" : "static_set.hist.swap_of_two_non_empty", f_swap_nonempty);
            if constexpr (flat) {
                vf::label("flat_set.hist.extract_non_empty", f_extract);
            } else {
                vf::label("static_set.hist.new_key_into_full_set", nt_full_new);
            }
        }
        bool const nt = nt_dup || nt_full_new || nt_erase_succ;
        if (stats == 1 && nt) { vf::nontrivial(vf::digest(k)); }
        if (stats == 2 && nt) { vf::nontrivial(vf::digest(k)); }
        if (stats == 3 && nt) { vf::nontrivial_count(); } // enumerated histories: no repetition, counted directly
        return err;
    }
};

// ------------------------------------------------------------------ flat_multiset: construction only (that is all it has)
template <typename Cont, typename CompT>
struct MultiRunner {
    using M     = etl::flat_multiset<int, Cont, CompT>;
    using SComp = typename StdComp<CompT>::type;
    static auto check(char const* name, M& m, std::vector<int> const& want) -> std::string
    {
        M const& cm = m;
        if (cm.size() != want.size()) { return std::string(name) + ": size " + std::to_string(cm.size()) + ", std::multiset has " + std::to_string(want.size()); }
        if (cm.empty() != want.empty()) { return std::string(name) + ": empty() wrong"; }
        if (cm.max_size() != 4) { return std::string(name) + ": max_size() != capacity of the container"; }
        if (static_cast<std::size_t>(cm.end() - cm.begin()) != want.size() || static_cast<std::size_t>(m.end() - m.begin()) != want.size() || static_cast<std::size_t>(cm.cend() - cm.cbegin()) != want.size()) {
            return std::string(name) + ": end()-begin() != size()";
        }
        if (!std::equal(want.begin(), want.end(), cm.begin())) { return std::string(name) + ": iterates " + show_seq(cm) + ", std::multiset iterates " + show_seq(want); }
        if (!std::equal(want.begin(), want.end(), m.begin()) || !std::equal(want.begin(), want.end(), cm.cbegin())) { return std::string(name) + ": begin()/cbegin() iteration differs from const begin()"; }
        CompT comp{};
        for (std::size_t i = 0; i + 1 < want.size(); ++i) {
            if (comp(cm.begin()[i + 1], cm.begin()[i])) { return std::string(name) + ": not weakly ascending under the comparator: " + show_seq(cm); }
        }
        std::size_t i = want.size();
        for (auto r = cm.rbegin(); r != cm.rend(); ++r) {
            if (i == 0) { return std::string(name) + ": reverse iteration longer than size()"; }
            --i;
            if (*r != want[i]) { return std::string(name) + ": reverse iteration differs at " + std::to_string(i); }
        }
        if (i != 0) { return std::string(name) + ": reverse iteration shorter than size()"; }
        i = want.size();
        for (auto r = m.rbegin(); r != m.rend(); ++r) {
            if (i == 0) { return std::string(name) + ": non-const reverse iteration longer than size()"; }
            --i;
            if (*r != want[i]) { return std::string(name) + ": non-const reverse iteration differs at " + std::to_string(i); }
        }
        i = want.size();
        for (auto r = cm.crbegin(); r != cm.crend(); ++r) {
            if (i == 0) { return std::string(name) + ": crbegin iteration longer than size()"; }
            --i;
            if (*r != want[i]) { return std::string(name) + ": crbegin iteration differs at " + std::to_string(i); }
        }
        return "";
    }
    static auto run(OpsCase const& k, int stats) -> std::string
    {
        g_adapter_overflow = false;
        std::vector<int> keys;
        for (auto const& op : k.ops) {
            if (keys.size() < 4) { keys.push_back(static_cast<int>(op.a % 6U)); }
        }
        std::multiset<int, SComp> oracle(keys.begin(), keys.end());
        std::vector<int> const want(oracle.begin(), oracle.end());
        std::string err;
        {
            Cont c;
            fill(c, keys);
            M m(c);
            err = check("flat_multiset(container)", m, want);
            if (err.empty() && (c.size() != keys.size() || !std::equal(keys.begin(), keys.end(), c.begin()))) { err = "flat_multiset(container) modified the caller's container"; }
            if (err.empty()) {
                M cp(m);
                err = check("copy of flat_multiset", cp, want);
                if (err.empty()) {
                    M mv(std::move(cp));
                    err = check("moved flat_multiset", mv, want);
                }
            }
        }
        if (err.empty()) {
            Cont c;
            fill(c, want); // already in weakly ascending order
            M m(etl::sorted_equivalent, std::move(c));
            err = check("flat_multiset(sorted_equivalent,container)", m, want);
        }
        if (err.empty()) {
            M m;
            err = check("flat_multiset()", m, {});
            if (err.empty()) {
                M m2{CompT{}};
                err = check("flat_multiset(comp)", m2, {});
            }
        }
        if (err.empty() && g_adapter_overflow) { err = "HARNESS: adapter overflow"; }
        bool const nt = std::set<int>(keys.begin(), keys.end()).size() != keys.size() || !std::is_sorted(keys.begin(), keys.end(), SComp{});
        if (stats > 0) {
            vf::label("flat_multiset.input_has_duplicates", std::set<int>(keys.begin(), keys.end()).size() != keys.size());
            vf::label("flat_multiset.input_unsorted", !std::is_sorted(keys.begin(), keys.end(), SComp{}));
            if (nt) { vf::nontrivial_count(); }
        }
        return err;
    }
};

// ------------------------------------------------------------------ configuration table
struct Config {
    char const* name;
    std::string (*run)(OpsCase const&, int);
    std::uint32_t ncodes;
    int kind; // 0 static_set, 1 flat_set, 2 flat_multiset
    std::size_t cap;
};

template <std::size_t N>
using SVec = etl::static_vector<int, N>;
template <std::size_t N>
using AVec = IVec<int, N>;

#define SS(N, C) Config{"static_set<int," #N "," #C ">", &Runner<etl::static_set<int, N, C>, C, N, false>::run, NCODES_STATIC, 0, N}
#define FS(N, C) Config{"flat_set<int,static_vector<int," #N ">," #C ">", &Runner<etl::flat_set<int, SVec<N>, C>, C, N, true>::run, NCODES_FLAT, 1, N}
#define FA(N, C) Config{"flat_set<int,inplace_vector_adapter<int," #N ">," #C ">", &Runner<etl::flat_set<int, AVec<N>, C>, C, N, true>::run, NCODES_FLAT, 1, N}
#define MS(CONT, CNAME, C) Config{"flat_multiset<int," CNAME "," #C ">", &MultiRunner<CONT, C>::run, 1, 2, 4}

using less_int    = etl::less<int>;
using greater_int = etl::greater<int>;
using less_void   = etl::less<>;
using greater_void = etl::greater<>;

Config const configs[] = {
#if C09_PART == 0
    SS(1, less_int), SS(3, less_int), SS(4, less_int), SS(1, greater_int), SS(3, greater_int), SS(4, greater_int), SS(1, less_void), SS(3, less_void), SS(4, less_void), SS(3, greater_void),
#elif C09_PART == 1
    FS(1, less_int), FS(3, less_int), FS(4, less_int), FS(1, greater_int), FS(3, greater_int), FS(4, greater_int), FS(1, less_void), FS(3, less_void), FS(4, less_void), FS(3, greater_void),
#else
    FA(3, less_int), FA(4, greater_int), FA(3, less_void), FS(3, DirComp), FA(4, DirComp),
    MS(SVec<4>, "static_vector<int,4>", less_int), MS(SVec<4>, "static_vector<int,4>", greater_int), MS(SVec<4>, "static_vector<int,4>", less_void), MS(AVec<4>, "inplace_vector_adapter<int,4>", greater_void),
#endif
};
constexpr std::uint32_t nconfigs = sizeof(configs) / sizeof(configs[0]);

auto run_case(OpsCase const& k, int stats) -> std::string
{
    auto const& cfg = configs[k.cfg % nconfigs];
    auto d          = cfg.run(k, stats);
    return d.empty() ? d : std::string(cfg.name) + ": " + d;
}

auto describe(OpsCase const& k) -> std::string
{
    auto const& cfg = configs[k.cfg % nconfigs];
    std::string s   = std::string(cfg.name) + " :";
    for (auto const& o : k.ops) {
        if (cfg.kind == 2) {
            s += " " + std::to_string(o.a % 6U);
        } else {
            s += " " + std::string(code_names[o.code % cfg.ncodes]) + "[" + std::to_string(o.a) + "," + std::to_string(o.b) + "," + std::to_string(o.c) + "]";
        }
    }
    return s;
}

// ------------------------------------------------------------------ E2 alphabets
struct ArgSpace {
    std::uint32_t code;
    std::vector<std::uint32_t> as, bs, cs;
};

// every concrete argument of every op for a set of capacity `cap` (decoded modulo the current size, so the lists cover
// every key 0..5, every position 0..size, every (first,last) pair, both targets, both source-iterator kinds)
auto concrete_ops(Config const& cfg) -> std::vector<RawOp>
{
    std::vector<std::uint32_t> const keys{0, 1, 2, 3, 4, 5}, poss{0, 1, 2, 3, 4}, tgt{0, 1}, one{0};
    std::vector<std::uint32_t> const lens{0, 1, 2, 3, 12, 20, 28};       // pick(): 0, 1, all, all-1, and explicit 1,2,3
    std::vector<std::uint32_t> const seqs{0, 1, 7, 8, 14, 23, 86, 129, 215, 373, 1295}; // digit strings: repeats, ascending, descending, mixed
    std::vector<std::uint32_t> const rlen{0, 1, 2, 3, 4, 6, 7, 8, 9};    // length 0..4, random-access source (0..4) / input iterators (5..9)
    std::vector<std::uint32_t> const tgt_stride{0, 1, 2, 3, 4, 5};       // target x stride {0,1,2}
    std::vector<std::uint32_t> masks;
    for (std::uint32_t m = 0; m < 64; ++m) { masks.push_back(m); }
    std::vector<ArgSpace> sp{
        {INSERT_CREF, keys, one, tgt}, {INSERT_RREF, keys, one, tgt}, {EMPLACE, keys, one, tgt}, {INSERT_RANGE, seqs, rlen, tgt_stride}, {ERASE_KEY, keys, one, tgt}, {ERASE_ITER, poss, one, tgt},
        {ERASE_RANGE, poss, lens, tgt}, {CLEAR, one, one, tgt}, {SWAP_MEMBER, one, one, tgt}, {SWAP_FREE, one, one, tgt}, {COMPARE, one, one, tgt}, {COPY_CTOR_MUTATE, keys, one, tgt},
        {COPY_ASSIGN, one, one, tgt}, {MOVE_ASSIGN, one, one, tgt}, {MOVE_CTOR, one, one, tgt}, {SELF_COPY_ASSIGN, one, one, tgt}, {CTOR_RANGE, seqs, rlen, tgt_stride}, {OBSERVE, one, one, tgt},
    };
    if (cfg.kind == 1) {
        std::vector<ArgSpace> fl{
            {INSERT_HINT_CREF, keys, poss, tgt}, {INSERT_HINT_RREF, keys, poss, tgt}, {EMPLACE_HINT, keys, poss, tgt}, {ERASE_CONST_ITER, poss, one, tgt}, {EXTRACT, one, tgt, tgt}, {REPLACE, masks, one, tgt},
            {CTOR_CONTAINER, seqs, poss, tgt_stride}, {CTOR_SORTED_UNIQUE, masks, tgt, tgt}, {ERASE_IF, tgt, one, tgt},
        };
        sp.insert(sp.end(), fl.begin(), fl.end());
    }
    std::vector<RawOp> out;
    for (auto const& s : sp) {
        for (auto a : s.as) {
            for (auto b : s.bs) {
                for (auto c : s.cs) { out.push_back(RawOp{s.code, a, b, c}); }
            }
        }
    }
    return out;
}

// compact alphabet for the exhaustive histories
auto history_alphabet(Config const& cfg, bool reduced) -> std::vector<RawOp>
{
    std::vector<RawOp> a{
        {INSERT_CREF, 0, 0, 0}, {INSERT_CREF, 2, 0, 0}, {INSERT_RREF, 4, 0, 0}, {EMPLACE, 3, 0, 0}, {INSERT_CREF, 5, 0, 1}, // the last one targets B
        {ERASE_KEY, 2, 0, 0}, {ERASE_KEY, 3, 0, 0}, {ERASE_KEY, 1, 0, 0}, {ERASE_ITER, 0, 0, 0}, {ERASE_RANGE, 0, 2, 0}, {ERASE_RANGE, 1, 2, 0},
        {SWAP_MEMBER, 0, 0, 0}, {COPY_ASSIGN, 0, 0, 0},
    };
    if (!reduced) {
        std::vector<RawOp> more{
            {INSERT_RANGE, 8, 3, 0} /* keys 2 1 0 */, {INSERT_RANGE, 23, 7, 2} /* keys 5 4, input iterators */, {ERASE_ITER, 1, 0, 0}, {ERASE_RANGE, 0, 3, 0}, {CLEAR, 0, 0, 0}, {SWAP_FREE, 0, 0, 1}, {COMPARE, 0, 0, 0},
            {MOVE_ASSIGN, 0, 0, 0}, {MOVE_CTOR, 0, 0, 0}, {COPY_CTOR_MUTATE, 1, 0, 0}, {CTOR_RANGE, 129, 3, 0} /* keys 3 3 3 */, {SELF_COPY_ASSIGN, 0, 0, 0},
        };
        a.insert(a.end(), more.begin(), more.end());
    }
    if (cfg.kind == 1) {
        std::vector<RawOp> fl{{INSERT_HINT_CREF, 1, 0, 0}, {EMPLACE_HINT, 4, 4, 0}, {EXTRACT, 0, 0, 0}, {EXTRACT, 0, 1, 0}, {REPLACE, 0x2A, 0, 0} /* keys 1 3 5 */};
        if (!reduced) {
            std::vector<RawOp> more{{INSERT_HINT_RREF, 3, 1, 0}, {ERASE_CONST_ITER, 0, 0, 0}, {CTOR_CONTAINER, 86, 3, 0} /* keys 2 2 2 */, {CTOR_SORTED_UNIQUE, 0x15, 1, 0}, {ERASE_IF, 0, 0, 0}};
            fl.insert(fl.end(), more.begin(), more.end());
        }
        a.insert(a.end(), fl.begin(), fl.end());
    }
    return a;
}

void enum_states_x_ops(vf::Ctx& c)
{
    std::uint64_t n = 0;
    for (std::uint32_t ci = 0; ci < nconfigs; ++ci) {
        auto const& cfg = configs[ci];
        if (cfg.kind == 2) { continue; }
        auto const ops = concrete_ops(cfg);
        for (std::uint32_t mask = 0; mask < 64; ++mask) {
            if (static_cast<std::size_t>(__builtin_popcount(mask)) > cfg.cap) { continue; }
            for (int order = 0; order < 2; ++order) {          // insertion order ascending / descending
                for (int bfill = 0; bfill < 2; ++bfill) {      // the other set empty / {1,4} (cut to the capacity)
                    std::vector<RawOp> prefix;
                    for (int i = 0; i < universe; ++i) {
                        int const q = order == 0 ? i : universe - 1 - i;
                        if ((mask >> q) & 1U) { prefix.push_back(RawOp{INSERT_CREF, static_cast<std::uint32_t>(q), 0, 0}); }
                    }
                    if (bfill == 1) {
                        prefix.push_back(RawOp{INSERT_CREF, 1, 0, 1});
                        if (cfg.cap >= 2) { prefix.push_back(RawOp{INSERT_CREF, 4, 0, 1}); }
                    }
                    for (auto const& op : ops) {
                        if (!c.mine(n++)) { continue; }
                        OpsCase k;
                        k.cfg = ci;
                        k.ops = prefix;
                        k.ops.push_back(op);
                        vf::Flight<OpsCase> fl("state_x_op", k);
                        vf::eval("state_x_op");
                        auto d = run_case(k, 1);
                        if (!d.empty()) {
                            vf::mismatch("state_x_op", k, d);
                            return;
                        }
                    }
                }
            }
        }
    }
}

void enum_short_histories(vf::Ctx& c)
{
    for (std::uint32_t ci = 0; ci < nconfigs; ++ci) {
        auto const& cfg = configs[ci];
        if (cfg.kind == 2) { continue; }
        bool failed = false;
        auto go     = [&](std::vector<RawOp> const& alpha, int depth) {
            vf::enum_histories(ci, alpha, depth, [&](OpsCase const& k) {
                if (failed) { return; }
                vf::Flight<OpsCase> fl("enum_histories", k);
                vf::eval("enum_histories");
                auto d = run_case(k, 3);
                if (!d.empty()) {
                    failed = true;
                    vf::mismatch("enum_histories", k, d);
                }
            });
        };
        // quick: every history of depth 4 over the full alphabet; thorough: depth 5 over the full and depth 6 over the reduced alphabet
        go(history_alphabet(cfg, false), c.thorough() ? 5 : 4);
        if (c.thorough()) { go(history_alphabet(cfg, true), 6); }
    }
}

void enum_multisets(vf::Ctx& c)
{
    std::uint64_t n = 0;
    for (std::uint32_t ci = 0; ci < nconfigs; ++ci) {
        if (configs[ci].kind != 2) { continue; }
        for (int len = 0; len <= 4; ++len) {
            int total = 1;
            for (int i = 0; i < len; ++i) { total *= universe; }
            for (int v = 0; v < total; ++v) {
                if (!c.mine(n++)) { continue; }
                OpsCase k;
                k.cfg = ci;
                int d = v;
                for (int i = 0; i < len; ++i) {
                    k.ops.push_back(RawOp{0, static_cast<std::uint32_t>(d % universe), 0, 0});
                    d /= universe;
                }
                vf::Flight<OpsCase> fl("multiset", k);
                vf::eval("multiset");
                auto e = run_case(k, 1);
                if (len >= 3 && (v % 97) == 0) { vf::sample("multiset", [&] { return describe(k); }); }
                if (!e.empty()) {
                    vf::mismatch("multiset", k, e);
                    return;
                }
            }
        }
    }
}

} // namespace

void vf_run(vf::Ctx& c)
{
    enum_multisets(c);
    enum_states_x_ops(c);
    enum_short_histories(c);
    // E1: random histories of <= 30 ops, every configuration (each shard has its own seed)
    int const per_cfg = c.thorough() ? 4000 : 600;
    for (std::uint32_t ci = 0; ci < nconfigs; ++ci) {
        auto const& cfg = configs[ci];
        if (cfg.kind == 2) { continue; }
        auto gen = rc::gen::map(vf::gen_history(1, cfg.ncodes, 30), [ci](OpsCase k) {
            k.cfg = ci;
            return k;
        });
        std::string sub = std::string("histories/") + cfg.name;
        vf::rc_check<OpsCase>(sub.c_str(), gen, per_cfg, 100, [&](OpsCase const& k) {
            vf::eval("histories");
            auto d = run_case(k, 2);
            if (k.ops.size() >= 6) { vf::sample("histories", [&] { return describe(k); }); }
            return d;
        });
    }
}

std::string vf_replay(std::string const&, std::string const& cs)
{
    auto k = vf::parse_ops(cs);
    vf::Flight<OpsCase> fl("replay", k);
    std::fprintf(stderr, "replaying: %s\n", describe(k).c_str());
    return run_case(k, 0);
}
