// C09 — static_set / flat_set / flat_multiset stay sorted + unique and answer like std::set.
// Engines: E2 (every reachable set x every concrete op; all histories of depth 4/5 over a concrete alphabet;
//          every container of <= 4 keys for flat_multiset) and E1 (rapidcheck histories, shrinking).
// Oracle : std::set<int, Cmp> (std::multiset for flat_multiset) driven in lock-step by the same decoded ops.  The
//          oracle's comparator is one run-time-direction functor (ascending for less<int>/less<>, descending for
//          greater<int>/greater<>): for int keys it orders exactly like the std functor of the same name, and it keeps
//          all oracle-side code out of the per-configuration templates (compile time).
//
// One source, six translation units (registry passes -DC09_PART=0..5 so they compile in parallel):
//   PART 0  static_set<int,N,Comp>                     N in {1,3,4}, Comp = less<int> | greater<int>
//   PART 1  static_set<int,N,less<>> (transparent, heterogeneous lookups with long), static_set<int,3,greater<>>;
//           fill-to-capacity scenarios at the size-type boundaries (255, 256, 257, 65536, 65537)
//   PART 2  flat_set<int, static_vector<int,N>, Comp>  N in {1,3,4}, Comp = less<int> | greater<int>
//   PART 3  flat_set<int, static_vector<int,N>, less<>>, flat_set<int, static_vector<int,3>, greater<>>;
//           bulk construction / insert(first,last) of 9..40 keys (capacity 40) under greater / greater<> / a user comparator
//   PART 4  flat_set over an inplace_vector-backed adapter
//   PART 5  flat_set with a *stateful* comparator (two directions, so that swap / copy / move must carry the
//           comparator along); flat_multiset construction from every container of <= 4 keys and from containers of
//           9..40 keys; static_set / flat_set over a struct key with a destructive move (see Rec)
//
// What is NOT part of the check on this tree (does not compile / declared but never defined / absent):
//   static_set::equal_range (returns `iterator`, body returns a pair: hard error when instantiated), static_set insert
//   with hint / emplace_hint / extract / replace / erase(const_iterator) / erase_if (commented out in the header),
//   flat_set::insert(sorted_unique_t, first, last) (declared, never defined), every modifier of flat_multiset (it only
//   has constructors, iteration and size on this tree).
// What is deliberately never asked (soundness):
//   * flat_set on a fixed-capacity container is never asked to hold more than N keys (backing container's precondition);
//   * range insert / range construction never need more than N distinct keys (a void-returning range insert cannot
//     "report failure"); random-access source ranges are never longer than N (static_set's documented precondition);
//   * the iterator returned by a *failed* static_set insert into a full set is not inspected (only `.second == false`
//     and "set unchanged" are demanded by the property);
//   * moved-from sets are only assigned to, never read.
#include <etl/flat_set.hpp>
#include <etl/functional.hpp>
#include <etl/inplace_vector.hpp>
#include <etl/set.hpp>
#include <etl/vector.hpp>

#include "rc.hpp"
#include "iterators.hpp"

#include <algorithm>
#include <cstdarg>
#include <iterator>
#include <memory>
#include <set>
#include <vector>

#ifndef C09_PART
    #define C09_PART 0
#endif

namespace {

using vf::OpsCase;
using vf::RawOp;

constexpr int universe  = 6;  // keys 0..5 (capacities 1,3,4); the large capacities 8 and 17 of the random part use keys 0..19
constexpr int max_nkeys = 22; // lookups are asked for -1..U

// ------------------------------------------------------------------ comparators
// run-time direction: the oracle's comparator for every configuration, and the *stateful* comparator of PART 12
struct DirComp {
    bool desc{false};
    constexpr auto operator()(int a, int b) const -> bool { return desc ? b < a : a < b; }
};
using Model = std::set<int, DirComp>;

template <typename C>
inline constexpr bool descending_v = false;
template <>
inline constexpr bool descending_v<etl::greater<int>> = true;
template <>
inline constexpr bool descending_v<etl::greater<>> = true;
// a user-written (not etl::) descending comparator
struct RevLess {
    constexpr auto operator()(int a, int b) const -> bool { return b < a; }
};
template <>
inline constexpr bool descending_v<RevLess> = true;

// ------------------------------------------------------------------ inplace_vector-backed sequence container
// etl::inplace_vector has no insert / erase / assignment; flat_set needs emplace(pos, x), erase, clear, the iterator
// accessors and assignability.  This adapter supplies exactly those on top of etl::inplace_vector.
bool g_adapter_overflow = false; // latched: the adapter was asked for more than N elements

template <typename T, std::size_t Cap>
struct IVec {
    using value_type             = T;
    using size_type              = std::size_t;
    using difference_type        = std::ptrdiff_t;
    using reference              = T&;
    using const_reference        = T const&;
    using iterator               = T*;
    using const_iterator         = T const*;
    using reverse_iterator       = etl::reverse_iterator<iterator>;
    using const_reverse_iterator = etl::reverse_iterator<const_iterator>;

    etl::inplace_vector<T, Cap> s{};

    IVec() = default;
    template <typename It>
    IVec(It first, It last)
    {
        for (; first != last; ++first) { push_back(*first); }
    }
    IVec(IVec const& o) { assign(o); }
    IVec(IVec&& o) noexcept
    {
        assign(o);
        o.clear();
    }
    auto operator=(IVec const& o) -> IVec&
    {
        if (this != &o) { assign(o); }
        return *this;
    }
    auto operator=(IVec&& o) noexcept -> IVec&
    {
        if (this != &o) {
            assign(o);
            o.clear();
        }
        return *this;
    }
    auto assign(IVec const& o) -> void
    {
        s.clear();
        for (auto const& v : o) { push_back(v); }
    }

    [[nodiscard]] auto begin() noexcept -> iterator { return s.data(); }
    [[nodiscard]] auto begin() const noexcept -> const_iterator { return s.data(); }
    [[nodiscard]] auto cbegin() const noexcept -> const_iterator { return s.data(); }
    [[nodiscard]] auto end() noexcept -> iterator { return s.data() + s.size(); }
    [[nodiscard]] auto end() const noexcept -> const_iterator { return s.data() + s.size(); }
    [[nodiscard]] auto cend() const noexcept -> const_iterator { return s.data() + s.size(); }
    [[nodiscard]] auto rbegin() noexcept -> reverse_iterator { return reverse_iterator(end()); }
    [[nodiscard]] auto rbegin() const noexcept -> const_reverse_iterator { return const_reverse_iterator(end()); }
    [[nodiscard]] auto crbegin() const noexcept -> const_reverse_iterator { return const_reverse_iterator(end()); }
    [[nodiscard]] auto rend() noexcept -> reverse_iterator { return reverse_iterator(begin()); }
    [[nodiscard]] auto rend() const noexcept -> const_reverse_iterator { return const_reverse_iterator(begin()); }
    [[nodiscard]] auto crend() const noexcept -> const_reverse_iterator { return const_reverse_iterator(begin()); }
    [[nodiscard]] auto empty() const noexcept -> bool { return s.empty(); }
    [[nodiscard]] auto size() const noexcept -> size_type { return s.size(); }
    [[nodiscard]] auto max_size() const noexcept -> size_type { return Cap; }

    auto push_back(T const& v) -> void
    {
        if (s.try_push_back(v) == nullptr) { g_adapter_overflow = true; }
    }
    template <typename... Args>
    auto emplace(const_iterator pos, Args&&... args) -> iterator
    {
        auto idx = pos - cbegin();
        if (s.try_emplace_back(static_cast<Args&&>(args)...) == nullptr) {
            g_adapter_overflow = true;
            return begin() + idx;
        }
        std::rotate(begin() + idx, end() - 1, end());
        return begin() + idx;
    }
    auto erase(const_iterator first, const_iterator last) -> iterator
    {
        auto f = begin() + (first - cbegin());
        auto l = begin() + (last - cbegin());
        auto n = l - f;
        std::move(l, end(), f);
        for (difference_type i = 0; i < n; ++i) { s.pop_back(); }
        return f;
    }
    auto erase(const_iterator pos) -> iterator { return erase(pos, pos + 1); }
    auto clear() noexcept -> void { s.clear(); }
};

// ------------------------------------------------------------------ non-template helpers (kept out of the templates on purpose)
__attribute__((noinline, format(printf, 1, 2))) auto fmt(char const* f, ...) -> std::string
{
    char buf[768];
    va_list ap;
    va_start(ap, f);
    std::vsnprintf(buf, sizeof buf, f, ap);
    va_end(ap);
    return buf;
}

// length of an erase range, biased to "everything", "all but one" and to lengths >= 2
auto splitmix64(std::uint64_t z) -> std::uint64_t
{
    z += 0x9E3779B97F4A7C15ULL;
    z = (z ^ (z >> 30)) * 0xBF58476D1CE4E5B9ULL;
    z = (z ^ (z >> 27)) * 0x94D049BB133111EBULL;
    return z ^ (z >> 31);
}

auto pick(std::uint32_t raw, std::size_t room) -> std::size_t
{
    switch (raw % 8) {
    case 0: return 0;
    case 1: return room >= 1 ? 1 : 0;
    case 2: return room;
    case 3: return room >= 1 ? room - 1 : 0;
    case 4: return room >= 2 ? 2 : room;
    case 5: return room;
    case 6: return room >= 3 ? 3 : room;
    default: return (raw / 8) % (room + 1);
    }
}

// offset of an iterator (all iterators here are pointers) or a deterministic sentinel when it is not inside [b,e]
template <typename It>
inline auto off(It b, It e, It it) -> long
{
    if (it == nullptr) { return -1000; }                               // null iterator
    if (std::less<>{}(it, b) || std::less<>{}(e, it)) { return -999; } // outside the container
    return static_cast<long>(it - b);
}
auto show_off(long o) -> std::string
{
    if (o == -1000) { return "null"; }
    if (o == -999) { return "outside [begin,end]"; }
    return std::to_string(o);
}

struct KeySeq { // a short key sequence without the heap
    int v[48]{};
    std::size_t n{0};
    bool overflow{false};
    auto push(int q) -> void
    {
        if (n < 48) {
            v[n++] = q;
        } else {
            overflow = true;
        }
    }
    [[nodiscard]] auto begin() const -> int const* { return v; }
    [[nodiscard]] auto end() const -> int const* { return v + n; }
};
auto operator==(KeySeq const& a, KeySeq const& b) -> bool { return a.n == b.n && !a.overflow && !b.overflow && std::equal(a.begin(), a.end(), b.begin()); }
auto show_seq(KeySeq const& s) -> std::string
{
    std::string o = "[";
    for (std::size_t i = 0; i < s.n; ++i) {
        if (i != 0) { o += ' '; }
        o += std::to_string(s.v[i]);
    }
    if (s.overflow) { o += " ..."; }
    return o + "]";
}
auto seq_of(std::vector<int> const& v) -> KeySeq
{
    KeySeq s;
    for (auto q : v) { s.push(q); }
    return s;
}
auto seq_of(Model const& m) -> KeySeq
{
    KeySeq s;
    for (auto q : m) { s.push(q); }
    return s;
}
auto reversed(KeySeq const& s) -> KeySeq
{
    KeySeq r;
    for (std::size_t i = s.n; i > 0; --i) { r.push(s.v[i - 1]); }
    return r;
}

// keys of a range-style op: digit i of `a` in base 6, shifted by i*stride.  Large universe (u = 20): the two base-20
// digits of `a` and the two of `a`/7 are repeated cyclically, i.e. an unsorted source full of duplicates
auto range_keys(std::uint32_t a, std::uint32_t stride, std::size_t len, std::uint32_t u = 6U) -> std::vector<int>
{
    std::vector<int> k;
    if (u == 6U) {
        auto d = a % 1296U;
        for (std::size_t i = 0; i < len; ++i) {
            k.push_back(static_cast<int>((d % 6U + i * stride) % 6U));
            d /= 6U;
        }
    } else {
        std::uint32_t const dig[4] = {a % u, (a / u) % u, (a / 7U) % u, (a / 7U / u) % u};
        for (std::size_t i = 0; i < len; ++i) { k.push_back(static_cast<int>((dig[i % 4] + (i / 4) * stride) % u)); }
    }
    return k;
}
auto mask_keys(std::uint32_t mask) -> std::vector<int>
{
    std::vector<int> keys;
    for (int q = 0; q < universe; ++q) {
        if (((mask % 64U) >> q) & 1U) { keys.push_back(q); }
    }
    return keys;
}
// keys of a range op, cut so that the set never needs more than `cap` keys; random-access sources never longer than `cap`
auto fit_keys(Model const& base, std::vector<int> const& keys, bool random_access, std::size_t cap, bool& had_dup) -> std::vector<int>
{
    std::set<int> u(base.begin(), base.end());
    std::vector<int> out;
    for (auto q : keys) {
        if (random_access && out.size() == cap) { break; }
        if (u.count(q) == 0 && u.size() == cap) { break; }
        had_dup |= u.count(q) != 0;
        u.insert(q);
        out.push_back(q);
    }
    return out;
}
auto has_dups(std::vector<int> const& keys) -> bool { return std::set<int>(keys.begin(), keys.end()).size() != keys.size(); }

enum Code : std::uint32_t {
    INSERT_CREF, INSERT_RREF, EMPLACE, INSERT_RANGE, ERASE_KEY, ERASE_ITER, ERASE_RANGE, CLEAR, SWAP_MEMBER, SWAP_FREE, COMPARE,
    COPY_CTOR_MUTATE, COPY_ASSIGN, MOVE_ASSIGN, MOVE_CTOR, SELF_COPY_ASSIGN, CTOR_RANGE, OBSERVE,
    NCODES_STATIC,
    // flat_set only
    INSERT_HINT_CREF = NCODES_STATIC, INSERT_HINT_RREF, EMPLACE_HINT, ERASE_CONST_ITER, EXTRACT, REPLACE, CTOR_CONTAINER, CTOR_SORTED_UNIQUE, ERASE_IF,
    NCODES_FLAT
};
char const* const code_names[] = {"insert(const&)", "insert(&&)", "emplace", "insert(first,last)", "erase(key)", "erase(iterator)", "erase(first,last)", "clear", "swap(member)", "swap(free)",
    "compare", "copy-ctor+mutate copy", "copy-assign", "move-assign", "move-ctor", "self copy-assign", "ctor(first,last)", "observe", "insert(hint,const&)", "insert(hint,&&)", "emplace_hint",
    "erase(const_iterator)", "extract", "replace", "ctor(container)", "ctor(sorted_unique,...)", "erase_if"};

// ------------------------------------------------------------------ what is observed on the etl set (filled by template code) ...
enum Fn { F_FIND, F_FIND_C, F_CONTAINS, F_COUNT, F_LB, F_LB_C, F_UB, F_UB_C, F_ER1, F_ER2, F_ERC1, F_ERC2, NFN };
char const* const fn_names[] = {"find", "find const", "contains", "count", "lower_bound", "lower_bound const", "upper_bound", "upper_bound const", "equal_range.first", "equal_range.second", "equal_range const .first",
    "equal_range const .second"};
struct Obs {
    std::size_t size{0}, max_size{0};
    bool empty{false};
    int full{-1}; // -1: the container has no full()
    long d_nc{0}, d_c{0}, d_cc{0};
    bool content_read{false}, full_level{false};
    KeySeq fwd_c, fwd_nc, fwd_cc, rev_c, rev_nc, rev_cc;
    bool ascending{true};
    int comp_desc{-1}; // -1: stateless comparator
    int nkt{1};        // key types looked up: int, (long)
    bool has_equal_range{false};
    int nk{8};         // keys looked up: -1 .. nk-2
    long lk[2][max_nkeys][NFN]{};
    int nw{0};         // wide probes looked up (transparent comparators only), see wide_probe()
    long wk[8][NFN]{};
};

// Probes of convertible-but-wider arithmetic types whose value is NOT representable in the key type int: a transparent
// comparator must compare the ORIGINAL value (std::set does); an implementation that converts to the key first finds
// 2 for 2.5 and 3 for 2^32 + 3.
struct WideProbe {
    bool is_ll;
    double d;
    long long ll;
};
constexpr int nwide = 8;
auto wide_probe(int idx, int u) -> WideProbe
{
    constexpr long long two32 = 4294967296LL;
    switch (idx) {
    case 0: return {false, -0.5, 0};                         // below every key, converts to 0
    case 1: return {false, 2.5, 0};                          // between two keys, converts to 2
    case 2: return {false, 3.75, 0};
    case 3: return {false, static_cast<double>(u) - 0.5, 0}; // above every key, converts to the largest key
    case 4: return {true, 0, two32 + 2};                     // > INT_MAX, wraps to 2
    case 5: return {true, 0, -two32 + 3};                    // < INT_MIN, wraps to 3
    case 6: return {true, 0, 2147483648LL};                  // INT_MAX + 1, wraps to INT_MIN
    default: return {true, 0, 2 * two32 + (u - 1)};          // wraps to the largest key
    }
}
template <typename OSet>
auto wide_expect(OSet const& o, WideProbe const& p, long* want) -> void
{
    auto mo = [&](typename OSet::const_iterator it) { return static_cast<long>(std::distance(o.begin(), it)); };
    long wf = 0, wl = 0, wu = 0, wc = 0;
    if (p.is_ll) {
        wf = mo(o.find(p.ll)), wl = mo(o.lower_bound(p.ll)), wu = mo(o.upper_bound(p.ll)), wc = static_cast<long>(o.count(p.ll));
    } else {
        wf = mo(o.find(p.d)), wl = mo(o.lower_bound(p.d)), wu = mo(o.upper_bound(p.d)), wc = static_cast<long>(o.count(p.d));
    }
    long const w[NFN] = {wf, wf, wc != 0 ? 1 : 0, wc, wl, wl, wu, wu, wl, wu, wl, wu};
    std::copy(w, w + NFN, want);
}

// ------------------------------------------------------------------ ... and how it is judged against std::set (no templates)
auto judge(char const* name, Obs const& o, Model const& m, std::size_t cap) -> std::string
{
    auto const seq = seq_of(m);
    if (o.size != m.size()) { return fmt("%s: size %zu%s%s, std::set has %zu %s", name, o.size, o.content_read ? " content " : "", o.content_read ? show_seq(o.fwd_c).c_str() : "", m.size(), show_seq(seq).c_str()); }
    if (o.empty != m.empty()) { return fmt("%s: empty() wrong", name); }
    if (o.max_size != cap) { return fmt("%s: max_size() != N", name); }
    if (o.full != -1 && (o.full != 0) != (m.size() == cap)) { return fmt("%s: full() wrong", name); }
    if (o.d_nc != static_cast<long>(m.size()) || o.d_c != o.d_nc || o.d_cc != o.d_nc) { return fmt("%s: end()-begin() != size()", name); }
    if (!(o.fwd_c == seq)) { return fmt("%s: iterates %s, std::set iterates %s", name, show_seq(o.fwd_c).c_str(), show_seq(seq).c_str()); }
    if (!o.full_level) { return ""; }
    if (!(o.fwd_nc == seq) || !(o.fwd_cc == seq)) { return fmt("%s: begin()/cbegin() iteration differs from const begin()", name); }
    if (!o.ascending) { return fmt("%s: not strictly ascending under its own key_comp()/value_comp(): %s", name, show_seq(o.fwd_c).c_str()); }
    if (o.comp_desc != -1 && (o.comp_desc != 0) != m.key_comp().desc) { return fmt("%s: key_comp() orders %s, std::set's orders %s", name, o.comp_desc != 0 ? "descending" : "ascending", m.key_comp().desc ? "descending" : "ascending"); }
    auto const rseq = reversed(seq);
    if (!(o.rev_c == rseq)) { return fmt("%s: reverse iteration gives %s, expected %s", name, show_seq(o.rev_c).c_str(), show_seq(rseq).c_str()); }
    if (!(o.rev_nc == rseq)) { return fmt("%s: non-const reverse iteration gives %s, expected %s", name, show_seq(o.rev_nc).c_str(), show_seq(rseq).c_str()); }
    if (!(o.rev_cc == rseq)) { return fmt("%s: crbegin iteration gives %s, expected %s", name, show_seq(o.rev_cc).c_str(), show_seq(rseq).c_str()); }
    for (int i = 0; i < o.nk; ++i) {
        int const k   = i - 1;
        auto mo       = [&](Model::const_iterator it) { return static_cast<long>(std::distance(m.begin(), it)); };
        long const wf = mo(m.find(k)), wl = mo(m.lower_bound(k)), wu = mo(m.upper_bound(k)), wc = static_cast<long>(m.count(k));
        long const want[NFN] = {wf, wf, wc, wc, wl, wl, wu, wu, wl, wu, wl, wu};
        for (int t = 0; t < o.nkt; ++t) {
            for (int f = 0; f < (o.has_equal_range ? NFN : F_ER1); ++f) {
                long const got = o.lk[t][i][f];
                if (got == want[f]) { continue; }
                char const* kt = t == 0 ? "int" : "long";
                if (f == F_CONTAINS) { return fmt("%s: contains(%s %d) is %s, std::set says %s", name, kt, k, got != 0 ? "true" : "false", wc != 0 ? "true" : "false"); }
                if (f == F_COUNT) { return fmt("%s: count(%s %d) is %ld, std::set says %ld", name, kt, k, got, wc); }
                return fmt("%s: %s(%s %d) gives offset %s, std::set gives %ld", name, fn_names[f], kt, k, show_off(got).c_str(), want[f]);
            }
        }
    }
    if (o.nw > 0) { // oracle: std::set with the std transparent comparator of the same direction, asked with the same probe
        std::set<int, std::less<>> const up(m.begin(), m.end());
        std::set<int, std::greater<>> const down(m.begin(), m.end());
        for (int i = 0; i < o.nw; ++i) {
            auto const p = wide_probe(i, o.nk - 2);
            long want[NFN];
            if (m.key_comp().desc) {
                wide_expect(down, p, want);
            } else {
                wide_expect(up, p, want);
            }
            for (int f = 0; f < (o.has_equal_range ? NFN : F_ER1); ++f) {
                long const got = o.wk[i][f];
                if (got == want[f]) { continue; }
                std::string const pv = p.is_ll ? fmt("long long %lld", p.ll) : fmt("double %g", p.d);
                if (f == F_CONTAINS || f == F_COUNT) { return fmt("%s: %s(%s) is %ld, std::set with the same transparent comparator says %ld", name, fn_names[f], pv.c_str(), got, want[f]); }
                return fmt("%s: %s(%s) gives offset %s, std::set with the same transparent comparator gives %ld", name, fn_names[f], pv.c_str(), show_off(got).c_str(), want[f]);
            }
        }
    }
    return "";
}

template <bool Flat, typename Set, typename K>
inline auto look(Set& x, K const& k, long* out) -> void
{
    Set const& cx = x;
    out[F_FIND]     = off(x.begin(), x.end(), x.find(k));
    out[F_FIND_C]   = off(cx.begin(), cx.end(), cx.find(k));
    out[F_CONTAINS] = cx.contains(k) ? 1 : 0;
    out[F_COUNT]    = static_cast<long>(cx.count(k));
    out[F_LB]       = off(x.begin(), x.end(), x.lower_bound(k));
    out[F_LB_C]     = off(cx.begin(), cx.end(), cx.lower_bound(k));
    out[F_UB]       = off(x.begin(), x.end(), x.upper_bound(k));
    out[F_UB_C]     = off(cx.begin(), cx.end(), cx.upper_bound(k));
    if constexpr (Flat) { // static_set::equal_range does not compile on this tree
        auto r       = x.equal_range(k);
        out[F_ER1]   = off(x.begin(), x.end(), r.first);
        out[F_ER2]   = off(x.begin(), x.end(), r.second);
        auto cr      = cx.equal_range(k);
        out[F_ERC1]  = off(cx.begin(), cx.end(), cr.first);
        out[F_ERC2]  = off(cx.begin(), cx.end(), cr.second);
    }
}

// full = false: size + content only (the set an operation cannot have touched)
template <std::size_t N, int U, bool Flat, bool Transparent, bool Stateful, typename Set>
auto observe(Set& x, bool full, Obs& o) -> void
{
    Set const& cx = x;
    o.size        = cx.size();
    o.empty       = cx.empty();
    o.max_size    = cx.max_size();
    if constexpr (!Flat) { o.full = cx.full() ? 1 : 0; }
    o.d_nc         = static_cast<long>(x.end() - x.begin());
    o.d_c          = static_cast<long>(cx.end() - cx.begin());
    o.d_cc         = static_cast<long>(cx.cend() - cx.cbegin());
    o.content_read = o.size <= N && o.d_c == static_cast<long>(o.size) && o.d_nc == o.d_c && o.d_cc == o.d_c;
    o.full_level   = full;
    if (!o.content_read) { return; }
    for (auto it = cx.begin(); it != cx.end(); ++it) { o.fwd_c.push(*it); }
    if (!full) { return; }
    for (auto it = x.begin(); it != x.end(); ++it) { o.fwd_nc.push(*it); }
    for (auto it = cx.cbegin(); it != cx.cend(); ++it) { o.fwd_cc.push(*it); }
    for (auto r = cx.rbegin(); r != cx.rend() && !o.rev_c.overflow; ++r) { o.rev_c.push(*r); }
    for (auto r = x.rbegin(); r != x.rend() && !o.rev_nc.overflow; ++r) { o.rev_nc.push(*r); }
    for (auto r = cx.crbegin(); r != cx.crend() && !o.rev_cc.overflow; ++r) { o.rev_cc.push(*r); }
    auto const kc = cx.key_comp();
    auto const vc = cx.value_comp();
    for (std::size_t i = 0; i + 1 < o.fwd_c.n; ++i) {
        int const p = o.fwd_c.v[i];
        int const q = o.fwd_c.v[i + 1];
        if (!kc(p, q) || kc(q, p) || !vc(p, q) || vc(q, p)) { o.ascending = false; }
    }
    if constexpr (Stateful) { o.comp_desc = kc.desc ? 1 : 0; }
    o.has_equal_range = Flat;
    o.nkt             = Transparent ? 2 : 1;
    o.nk              = U + 2;
    for (int i = 0; i < U + 2; ++i) {
        int const k = i - 1;
        look<Flat>(x, k, o.lk[0][i]);
        if constexpr (Transparent) { look<Flat>(x, static_cast<long>(k), o.lk[1][i]); } // heterogeneous lookup
    }
    if constexpr (Transparent) { // values that convert to int but are not representable in it
        o.nw = nwide;
        for (int i = 0; i < nwide; ++i) {
            auto const p = wide_probe(i, U);
            if (p.is_ll) {
                look<Flat>(x, p.ll, o.wk[i]);
            } else {
                look<Flat>(x, p.d, o.wk[i]);
            }
        }
    }
}

template <typename Cont>
inline auto fill(Cont& c, std::vector<int> const& keys) -> void
{
    for (auto k : keys) { c.push_back(k); }
}
template <typename Cont>
inline auto snapshot(Cont const& c, std::size_t cap) -> KeySeq
{
    KeySeq s;
    if (c.size() <= cap) {
        for (auto it = c.begin(); it != c.end(); ++it) { s.push(*it); }
    } else {
        s.overflow = true;
    }
    return s;
}

struct Flags {
    bool nt_dup = false, nt_full_new = false, nt_erase_succ = false;
    bool f_full = false, f_full_dup = false, f_multi_erase = false, f_swap_nonempty = false, f_extract = false;
};
auto record(Flags const& f, bool flat, std::size_t cap, int stats, OpsCase const& k) -> void
{
    if (stats > 1) {
        vf::label(flat ? "flat_set.hist.duplicate_insert" : "static_set.hist.duplicate_insert", f.nt_dup);
        vf::label(flat ? "flat_set.hist.reached_full" : "static_set.hist.reached_full", f.f_full);
        vf::label(flat ? "flat_set.hist.duplicate_insert_while_full" : "static_set.hist.duplicate_insert_while_full", f.f_full_dup);
        vf::label(flat ? "flat_set.hist.erase_absent_key_with_successor" : "static_set.hist.erase_absent_key_with_successor", f.nt_erase_succ);
        if (cap >= 2) { // impossible for capacity 1
            vf::label(flat ? "flat_set.hist.range_erase_of_2_or_more (N>=3)" : "static_set.hist.range_erase_of_2_or_more (N>=3)", f.f_multi_erase);
        }
        vf::label(flat ? "flat_set.hist.swap_of_two_non_empty" : "static_set.hist.swap_of_two_non_empty", f.f_swap_nonempty);
        if (flat) {
            vf::label("flat_set.hist.extract_non_empty", f.f_extract);
        } else {
            vf::label("static_set.hist.new_key_into_full_set", f.nt_full_new);
        }
    }
    bool const nt = f.nt_dup || f.nt_full_new || f.nt_erase_succ;
    if (stats == 2 && nt) { vf::nontrivial(vf::digest(k)); }
    if (stats == 1 && nt) { vf::nontrivial_count(); } // enumerations: no repetition, counted directly
}

// judges the result of a single-key insert and applies it to the model
auto judge_insert(char const* what, Model& mx, int key, std::size_t cap, bool flat, bool inserted, long got, Flags& fl) -> std::string
{
    bool const present = mx.count(key) != 0;
    bool const full    = mx.size() == cap;
    fl.nt_dup |= present;
    fl.f_full_dup |= present && full;
    if (!flat && full && !present) {
        fl.nt_full_new = true; // static_set: failure must be reported and the set left unchanged (the model is left unchanged)
        if (inserted) { return fmt("%s of the new key %d into a full set reported inserted=true", what, key); }
        return "";
    }
    auto [mit, mins] = mx.insert(key);
    long const want  = static_cast<long>(std::distance(mx.begin(), mit));
    if (inserted != mins) { return fmt("%s of key %d returned inserted=%s, std::set %s", what, key, inserted ? "true" : "false", mins ? "true" : "false"); }
    if (got != want) { return fmt("%s of key %d (inserted=%s) returned iterator offset %s, std::set %ld", what, key, mins ? "true" : "false", show_off(got).c_str(), want); }
    return "";
}
auto judge_relations(bool const got[6], Model const& mx, Model const& my) -> std::string
{
    bool const want[6]    = {mx == my, mx != my, mx < my, mx <= my, mx > my, mx >= my};
    char const* const n[] = {"==", "!=", "<", "<=", ">", ">="};
    for (int i = 0; i < 6; ++i) {
        if (got[i] != want[i]) { return fmt("operator%s is %s, std::set says %s", n[i], got[i] ? "true" : "false", want[i] ? "true" : "false"); }
    }
    return "";
}

// ------------------------------------------------------------------ the lock-step runner
template <typename SetT, typename CompT, std::size_t Cap, bool Flat>
struct Runner {
    using Set                             = SetT;
    using Comp                            = CompT;
    static constexpr std::size_t N        = Cap;
    static constexpr bool flat            = Flat;
    static constexpr bool transparent     = etl::detail::is_transparent_v<Comp>;
    static constexpr bool stateful        = std::is_same_v<Comp, DirComp>;
    static constexpr bool desc            = descending_v<Comp>;
    static constexpr std::uint32_t ncodes = Flat ? NCODES_FLAT : NCODES_STATIC;
    static constexpr std::uint32_t U      = Cap > 4 ? 20U : 6U; // key universe 0..U-1
    static constexpr std::uint32_t RL     = Cap > 4 ? 9U : 5U;  // source ranges have 0..RL-1 elements

    // stateful comparator: A ascending, B descending; otherwise both sets order as Comp does
    static auto make_set(bool second) -> Set
    {
        if constexpr (stateful) {
            return Set(DirComp{second});
        } else {
            (void)second;
            return Set{};
        }
    }
    static auto make_model(bool second) -> Model { return Model(DirComp{stateful ? second : desc}); }
    static auto default_comp() -> DirComp { return DirComp{stateful ? false : desc}; } // what a value-initialised Comp orders like

    static auto compare(char const* name, Set& x, Model const& m, bool full = true) -> std::string
    {
        Obs o;
        observe<N, static_cast<int>(U), Flat, transparent, stateful>(x, full, o);
        return judge(name, o, m, N);
    }

    // ops with index < check_from are applied (return values still checked) but the sets are not compared after them:
    // the enumerators use it for prefixes that another enumerated case checks completely
    static auto run(OpsCase const& k, int stats, std::size_t check_from) -> std::string
    {
        std::string err;
        std::size_t op_index = 0;
        Flags fl;
        g_adapter_overflow     = false;
        vf::it::g_out_of_range = false;
        struct Sandwich {
            std::uint64_t pre{0xA5A5A5A5A5A5A5A5ULL};
            Set a;
            std::uint64_t mid{0x5A5A5A5A5A5A5A5AULL};
            Set b;
            std::uint64_t post{0xC3C3C3C3C3C3C3C3ULL};
        } sw{0xA5A5A5A5A5A5A5A5ULL, make_set(false), 0x5A5A5A5A5A5A5A5AULL, make_set(true), 0xC3C3C3C3C3C3C3C3ULL};
        Model ma = make_model(false), mb = make_model(true);
        for (auto const& op : k.ops) {
            bool const tb     = (op.c & 1U) != 0;
            Set& x            = tb ? sw.b : sw.a;
            Set& y            = tb ? sw.a : sw.b;
            Model& mx         = tb ? mb : ma;
            Model& my         = tb ? ma : mb;
            auto const stride = (op.c >> 1) % U;
            int key           = static_cast<int>(op.a % U);
            auto code         = op.code % ncodes;
            // ---- re-map what is impossible / not askable in the current state
            if (mx.empty() && (code == ERASE_ITER || code == ERASE_CONST_ITER)) { code = INSERT_CREF; }
            bool const is_single_insert = code == INSERT_CREF || code == INSERT_RREF || code == EMPLACE || code == INSERT_HINT_CREF || code == INSERT_HINT_RREF || code == EMPLACE_HINT;
            if (flat && is_single_insert && mx.size() == N && mx.count(key) == 0) {
                // flat_set over a fixed-capacity container: a new key would exceed the capacity -> ask for a duplicate instead
                key = *std::next(mx.begin(), static_cast<std::ptrdiff_t>(op.a % N));
            }
            if (stats > 1) { vf::count((std::string("op.") + code_names[code]).c_str()); }
            bool had_dup = false;

            switch (code) {
            case INSERT_CREF: {
                int const v   = key;
                int const* pv = &v;
                if ((op.b & 1U) != 0 && mx.count(key) != 0) { pv = &x.begin()[std::distance(mx.begin(), mx.find(key))]; } // the argument aliases the element already stored
                auto r = x.insert(*pv);
                err    = judge_insert("insert(const&)", mx, key, N, flat, r.second, off(x.begin(), x.end(), r.first), fl);
                break;
            }
            case INSERT_RREF: {
                int v  = key;
                auto r = x.insert(std::move(v));
                err    = judge_insert("insert(&&)", mx, key, N, flat, r.second, off(x.begin(), x.end(), r.first), fl);
                break;
            }
            case EMPLACE: {
                int const v   = key;
                int const* pv = &v;
                if ((op.b & 1U) != 0 && mx.count(key) != 0) { pv = &x.begin()[std::distance(mx.begin(), mx.find(key))]; } // emplace(*it)
                auto r = x.emplace(*pv);
                err    = judge_insert("emplace", mx, key, N, flat, r.second, off(x.begin(), x.end(), r.first), fl);
                break;
            }
            case INSERT_RANGE: {
                bool const ra = ((op.b / RL) % 2U) == 0;
                auto keys     = fit_keys(mx, range_keys(op.a, stride, op.b % RL, U), false, N, had_dup);
                fl.nt_dup |= had_dup;
                int src[8] = {0, 0, 0, 0, 0, 0, 0, 0};
                std::copy(keys.begin(), keys.end(), src);
                int const* f = src;
                if (ra) {
                    x.insert(f, f + keys.size());
                } else {
                    using It = vf::it::In<int const>;
                    x.insert(It(f, f, f + keys.size()), It(f + keys.size(), f, f + keys.size()));
                }
                mx.insert(keys.begin(), keys.end());
                if (!std::equal(keys.begin(), keys.end(), src)) { err = "insert(first,last) modified its source range"; }
                break;
            }
            case ERASE_KEY: {
                bool const absent = mx.count(key) == 0;
                fl.nt_erase_succ |= absent && mx.upper_bound(key) != mx.end();
                int const v   = key;
                int const* pv = &v;
                if ((op.b & 1U) != 0 && !absent) { pv = &x.begin()[std::distance(mx.begin(), mx.find(key))]; } // erase(*it): the argument is the element being erased
                auto n = x.erase(*pv);
                auto e = mx.erase(key);
                if (static_cast<std::size_t>(n) != e) { err = fmt("erase(key %d) returned %zu, std::set %zu", key, static_cast<std::size_t>(n), e); }
                break;
            }
            case ERASE_ITER: {
                auto p  = static_cast<std::ptrdiff_t>(op.a % mx.size());
                auto it = x.erase(x.begin() + p);
                mx.erase(std::next(mx.begin(), p));
                if (auto o = off(x.begin(), x.end(), it); o != p) { err = fmt("erase(iterator at %td) returned iterator offset %s, expected %td", p, show_off(o).c_str(), p); }
                break;
            }
            case ERASE_CONST_ITER: {
                if constexpr (flat) {
                    auto p  = static_cast<std::ptrdiff_t>(op.a % mx.size());
                    auto it = x.erase(x.cbegin() + p);
                    mx.erase(std::next(mx.begin(), p));
                    if (auto o = off(x.begin(), x.end(), it); o != p) { err = fmt("erase(const_iterator at %td) returned iterator offset %s, expected %td", p, show_off(o).c_str(), p); }
                }
                break;
            }
            case ERASE_RANGE: {
                // first = a % (size+1), or begin() when bit 1 of c is set (biases random histories to ranges of >= 2 elements)
                auto f = ((op.c >> 1) & 1U) != 0 ? std::ptrdiff_t{0} : static_cast<std::ptrdiff_t>(op.a % (mx.size() + 1));
                auto l = f + static_cast<std::ptrdiff_t>(pick(op.b, mx.size() - static_cast<std::size_t>(f)));
                fl.f_multi_erase |= (l - f) >= 2;
                long o = 0;
                if constexpr (flat) {
                    auto it = x.erase(x.cbegin() + f, x.cbegin() + l);
                    o       = off(x.begin(), x.end(), it);
                } else {
                    auto it = x.erase(x.begin() + f, x.begin() + l);
                    o       = off(x.begin(), x.end(), it);
                }
                mx.erase(std::next(mx.begin(), f), std::next(mx.begin(), l));
                if (o != f) { err = fmt("erase(first %td, last %td) returned iterator offset %s, expected %td", f, l, show_off(o).c_str(), f); }
                break;
            }
            case CLEAR: {
                x.clear();
                mx.clear();
                break;
            }
            case SWAP_MEMBER: {
                fl.f_swap_nonempty |= !mx.empty() && !my.empty();
                x.swap(y);
                mx.swap(my);
                break;
            }
            case SWAP_FREE: {
                fl.f_swap_nonempty |= !mx.empty() && !my.empty();
                using etl::swap;
                swap(x, y);
                mx.swap(my);
                break;
            }
            case COMPARE: {
                Set const& cx     = x;
                Set const& cy     = y;
                bool const got[6] = {cx == cy, cx != cy, cx < cy, cx <= cy, cx > cy, cx >= cy};
                err               = judge_relations(got, mx, my);
                if (err.empty() && (!(cx == cx) || (cx != cx) || (cx < cx) || !(cx <= cx))) { err = "relational operators not reflexive"; }
                break;
            }
            case COPY_CTOR_MUTATE: {
                Set c(x);
                Model mc(mx);
                if (auto e = compare("copy", c, mc); !e.empty()) { err = "copy constructor: " + e; }
                if (!mc.empty()) {
                    c.erase(c.begin());
                    mc.erase(mc.begin());
                }
                if (mc.size() < N) {
                    c.insert(key);
                    mc.insert(key);
                }
                if (auto e = compare("mutated copy", c, mc); !e.empty() && err.empty()) { err = e; }
                if (auto e = compare("source after mutating its copy", x, mx); !e.empty() && err.empty()) { err = e; }
                break;
            }
            case COPY_ASSIGN: {
                y  = x;
                my = mx;
                break;
            }
            case MOVE_ASSIGN: {
                y  = std::move(x);
                my = mx;
                x  = y; // the moved-from set is only assigned to
                break;
            }
            case MOVE_CTOR: {
                Set c(std::move(x));
                if (auto e = compare("move-constructed", c, mx); !e.empty()) { err = "move constructor: " + e; }
                x = std::move(c);
                break;
            }
            case SELF_COPY_ASSIGN: {
                Set& alias = x;
                x          = alias;
                break;
            }
            case CTOR_RANGE: {
                bool const ra = ((op.b / RL) % 2U) == 0;
                auto keys     = fit_keys(Model(mx.key_comp()), range_keys(op.a, stride, op.b % RL, U), ra, N, had_dup);
                fl.nt_dup |= had_dup;
                int src[8] = {0, 0, 0, 0, 0, 0, 0, 0};
                std::copy(keys.begin(), keys.end(), src);
                int const* f = src;
                using It     = vf::it::In<int const>;
                Model mc(keys.begin(), keys.end(), mx.key_comp());
                auto build = [&]() -> Set {
                    if constexpr (flat) {
                        Set const& cx = x;
                        if (ra) { return Set(f, f + keys.size(), cx.key_comp()); }
                        return Set(It(f, f, f + keys.size()), It(f + keys.size(), f, f + keys.size()), cx.key_comp());
                    } else {
                        if (ra) { return Set(f, f + keys.size()); }
                        return Set(It(f, f, f + keys.size()), It(f + keys.size(), f, f + keys.size()));
                    }
                };
                Set c = build();
                if (auto e = compare("ctor(first,last)", c, mc); !e.empty()) { err = e; }
                y  = c;
                my = mc;
                break;
            }
            case OBSERVE: break;
            default: break;
            }

            if constexpr (flat) {
                using Cont = typename Set::container_type;
                switch (code) {
                case INSERT_HINT_CREF:
                case INSERT_HINT_RREF:
                case EMPLACE_HINT: {
                    auto hp            = static_cast<std::ptrdiff_t>(op.b % (mx.size() + 1));
                    bool const present = mx.count(key) != 0;
                    fl.nt_dup |= present;
                    fl.f_full_dup |= present && mx.size() == N;
                    typename Set::iterator it{};
                    if (code == INSERT_HINT_CREF) {
                        int const v = key;
                        it          = x.insert(x.cbegin() + hp, v);
                    } else if (code == INSERT_HINT_RREF) {
                        int v = key;
                        it    = x.insert(x.cbegin() + hp, std::move(v));
                    } else {
                        it = x.emplace_hint(x.cbegin() + hp, key);
                    }
                    auto mit        = mx.insert(std::next(mx.begin(), hp), key);
                    long const want = static_cast<long>(std::distance(mx.begin(), mit));
                    if (auto o = off(x.begin(), x.end(), it); o != want) { err = fmt("%s of key %d returned iterator offset %s, std::set %ld", code_names[code], key, show_off(o).c_str(), want); }
                    break;
                }
                case EXTRACT: {
                    fl.f_extract |= !mx.empty();
                    auto const seq = seq_of(mx);
                    Cont c         = std::move(x).extract();
                    if (auto got = snapshot(c, N); !(got == seq)) { err = fmt("extract() returned a container of size %zu %s, the set held %s", static_cast<std::size_t>(c.size()), show_seq(got).c_str(), show_seq(seq).c_str()); }
                    if ((op.b & 1U) != 0) {
                        x.replace(std::move(c)); // round trip: the set is as before
                    } else {
                        mx.clear(); // *this is emptied by extract()
                    }
                    break;
                }
                case REPLACE: {
                    auto keys = mask_keys(op.a);
                    std::sort(keys.begin(), keys.end(), mx.key_comp()); // sorted + unique under the set's comparator (replace() keeps it)
                    if (keys.size() > N) { keys.resize(N); }
                    Cont c;
                    fill(c, keys);
                    x.replace(std::move(c));
                    Model nm(keys.begin(), keys.end(), mx.key_comp());
                    mx.swap(nm);
                    break;
                }
                case CTOR_CONTAINER: {
                    auto keys = range_keys(op.a, stride, std::min<std::size_t>(op.b % RL, N), U);
                    fl.nt_dup |= has_dups(keys);
                    Cont c;
                    fill(c, keys);
                    Set s(c); // sorts and removes duplicates; value-initialised comparator
                    Model mc(keys.begin(), keys.end(), default_comp());
                    if (auto e = compare("ctor(container)", s, mc); !e.empty()) { err = e; }
                    if (!(snapshot(c, N) == seq_of(keys))) { err = "ctor(container const&) modified its argument"; }
                    y  = std::move(s);
                    my = mc;
                    break;
                }
                case CTOR_SORTED_UNIQUE: {
                    auto keys = mask_keys(op.a);
                    if (keys.size() > N) { keys.resize(N); }
                    Set const& cx = x;
                    if ((op.b & 1U) != 0) {
                        // (sorted_unique, first, last, comp): sorted under the comparator that is passed
                        std::sort(keys.begin(), keys.end(), mx.key_comp());
                        int src[6] = {0, 0, 0, 0, 0, 0};
                        std::copy(keys.begin(), keys.end(), src);
                        int const* f = src;
                        Set s(etl::sorted_unique, f, f + keys.size(), cx.key_comp());
                        Model mc(keys.begin(), keys.end(), mx.key_comp());
                        if (auto e = compare("ctor(sorted_unique,first,last)", s, mc); !e.empty()) { err = e; }
                        y  = s;
                        my = mc;
                    } else {
                        // (sorted_unique, container): value-initialised comparator
                        std::sort(keys.begin(), keys.end(), default_comp());
                        Cont c;
                        fill(c, keys);
                        Set s(etl::sorted_unique, std::move(c));
                        Model mc(keys.begin(), keys.end(), default_comp());
                        if (auto e = compare("ctor(sorted_unique,container)", s, mc); !e.empty()) { err = e; }
                        y  = std::move(s);
                        my = mc;
                    }
                    break;
                }
                case ERASE_IF: {
                    int const par = static_cast<int>(op.a & 1U);
                    auto n        = etl::erase_if(x, [par](int v) { return (v & 1) == par; });
                    auto e        = std::erase_if(mx, [par](int v) { return (v & 1) == par; });
                    if (static_cast<std::size_t>(n) != e) { err = fmt("erase_if returned %zu, std::erase_if %zu", static_cast<std::size_t>(n), static_cast<std::size_t>(e)); }
                    break;
                }
                default: break;
                }
            }

            fl.f_full |= mx.size() == N || my.size() == N;
            bool const checked   = op_index++ >= check_from;
            bool const touches_y = code == SWAP_MEMBER || code == SWAP_FREE || code == COPY_ASSIGN || code == MOVE_ASSIGN || code == CTOR_RANGE || code == CTOR_CONTAINER || code == CTOR_SORTED_UNIQUE;
            if (err.empty() && checked) { err = compare(tb ? "B" : "A", x, mx, true); }
            if (err.empty() && checked) { err = compare(tb ? "A" : "B", y, my, touches_y); }
            if (err.empty() && (sw.pre != 0xA5A5A5A5A5A5A5A5ULL || sw.mid != 0x5A5A5A5A5A5A5A5AULL || sw.post != 0xC3C3C3C3C3C3C3C3ULL)) { err = "canary next to the set was overwritten"; }
            if (err.empty() && vf::it::g_out_of_range) { err = "an input iterator was advanced / dereferenced outside its range"; }
            if (err.empty() && g_adapter_overflow) { err = "the backing container was asked to exceed its capacity although the set never needs more than N keys"; }
            if (!err.empty()) {
                err = std::string("after ") + code_names[code] + ": " + err;
                break;
            }
        }
        record(fl, flat, N, stats, k);
        return err;
    }
};

// ------------------------------------------------------------------ flat_multiset: construction only (that is all it has)
[[maybe_unused]] auto judge_multi(char const* name, std::size_t size, bool empty, std::size_t max_size, long d_nc, long d_c, long d_cc, KeySeq const (&s)[6], bool weakly_ascending, std::vector<int> const& want, std::size_t cap = 4) -> std::string
{
    auto const w = seq_of(want);
    if (size != want.size()) { return fmt("%s: size %zu, std::multiset has %zu", name, size, want.size()); }
    if (empty != want.empty()) { return fmt("%s: empty() wrong", name); }
    if (max_size != cap) { return fmt("%s: max_size() != capacity of the container", name); }
    if (d_nc != static_cast<long>(want.size()) || d_c != d_nc || d_cc != d_nc) { return fmt("%s: end()-begin() != size()", name); }
    if (!(s[0] == w)) { return fmt("%s: iterates %s, std::multiset iterates %s", name, show_seq(s[0]).c_str(), show_seq(w).c_str()); }
    if (!(s[1] == w) || !(s[2] == w)) { return fmt("%s: begin()/cbegin() iteration differs from const begin()", name); }
    if (!weakly_ascending) { return fmt("%s: not weakly ascending under the comparator: %s", name, show_seq(s[0]).c_str()); }
    auto const r = reversed(w);
    if (!(s[3] == r) || !(s[4] == r) || !(s[5] == r)) { return fmt("%s: reverse iteration gives %s / %s / %s, expected %s", name, show_seq(s[3]).c_str(), show_seq(s[4]).c_str(), show_seq(s[5]).c_str(), show_seq(r).c_str()); }
    return "";
}

// Cap = 4: one op per key (every container of <= 4 keys is enumerated).  Cap = 40 ("bulk"): the first op describes a
// whole container: 9..40 keys (a), hashed from a seed (b) over a universe of 6 / 20 / 1000 values (c) — long enough for
// every code path of the sort behind the constructor, with many, some or hardly any duplicates.
auto bulk_keys(RawOp const& op, std::size_t cap) -> std::vector<int>
{
    std::size_t const len       = std::min<std::size_t>(9U + op.a % 32U, cap);
    std::uint32_t const univ[3] = {6U, 20U, 1000U};
    std::vector<int> keys;
    for (std::size_t i = 0; i < len; ++i) { keys.push_back(static_cast<int>(splitmix64((static_cast<std::uint64_t>(op.b) << 16) + i) % univ[op.c % 3U])); }
    return keys;
}

template <typename Cont, typename CompT, std::size_t Cap = 4>
struct MultiRunner {
    using M = etl::flat_multiset<int, Cont, CompT>;
    static auto check(char const* name, M& m, std::vector<int> const& want) -> std::string
    {
        M const& cm = m;
        KeySeq s[6];
        long const d_nc = static_cast<long>(m.end() - m.begin()), d_c = static_cast<long>(cm.end() - cm.begin()), d_cc = static_cast<long>(cm.cend() - cm.cbegin());
        bool asc = true;
        if (cm.size() <= Cap && d_c == static_cast<long>(cm.size()) && d_nc == d_c && d_cc == d_c) {
            for (auto it = cm.begin(); it != cm.end(); ++it) { s[0].push(*it); }
            for (auto it = m.begin(); it != m.end(); ++it) { s[1].push(*it); }
            for (auto it = cm.cbegin(); it != cm.cend(); ++it) { s[2].push(*it); }
            for (auto r = cm.rbegin(); r != cm.rend() && !s[3].overflow; ++r) { s[3].push(*r); }
            for (auto r = m.rbegin(); r != m.rend() && !s[4].overflow; ++r) { s[4].push(*r); }
            for (auto r = cm.crbegin(); r != cm.crend() && !s[5].overflow; ++r) { s[5].push(*r); }
            CompT comp{};
            for (std::size_t i = 0; i + 1 < s[0].n; ++i) {
                if (comp(s[0].v[i + 1], s[0].v[i])) { asc = false; }
            }
        }
        return judge_multi(name, cm.size(), cm.empty(), cm.max_size(), d_nc, d_c, d_cc, s, asc, want, Cap);
    }
    static auto run(OpsCase const& k, int stats, std::size_t /*check_from*/) -> std::string
    {
        g_adapter_overflow = false;
        std::vector<int> keys;
        if constexpr (Cap > 4) {
            if (!k.ops.empty()) { keys = bulk_keys(k.ops[0], Cap); }
        } else {
            for (auto const& op : k.ops) {
                if (keys.size() < 4) { keys.push_back(static_cast<int>(op.a % 6U)); }
            }
        }
        DirComp const dc{descending_v<CompT>};
        std::multiset<int, DirComp> oracle(keys.begin(), keys.end(), dc);
        std::vector<int> const want(oracle.begin(), oracle.end());
        std::string err;
        {
            Cont c;
            fill(c, keys);
            M m(c);
            err = check("flat_multiset(container)", m, want);
            if (err.empty() && !(snapshot(c, Cap) == seq_of(keys))) { err = "flat_multiset(container) modified the caller's container"; }
            if (err.empty()) {
                M cp(m);
                err = check("copy of flat_multiset", cp, want);
                if (err.empty()) {
                    M mv(std::move(cp));
                    err = check("moved flat_multiset", mv, want);
                }
            }
        }
        if (err.empty()) {
            Cont c;
            fill(c, want); // already in weakly ascending order
            M m(etl::sorted_equivalent, std::move(c));
            err = check("flat_multiset(sorted_equivalent,container)", m, want);
        }
        if (err.empty()) {
            M m;
            err = check("flat_multiset()", m, {});
            if (err.empty()) {
                M m2{CompT{}};
                err = check("flat_multiset(comp)", m2, {});
            }
        }
        if (err.empty() && g_adapter_overflow) { err = "the backing container was asked to exceed its capacity"; }
        bool const dups = has_dups(keys), unsorted = !std::is_sorted(keys.begin(), keys.end(), dc);
        if (stats > 0) {
            vf::label("flat_multiset.input_has_duplicates", dups);
            vf::label("flat_multiset.input_unsorted", unsorted);
            if (dups || unsorted) { vf::nontrivial_count(); }
        }
        return err;
    }
};

// ------------------------------------------------------------------ struct keys: equivalence is coarser than equality
// Key {dept,id,tag}: the comparator orders by (dept,id) and ignores tag, operator== looks at all three fields, so there
// are keys that are equivalent to a stored one without being equal to it.  The comparator is transparent and also
// accepts Dept{d}, which compares on dept only and is NOT convertible to the key: one Dept is equivalent to several
// stored keys, and std::set answers find / count / lower_bound / upper_bound / equal_range for it with the whole run.
// Moving a Rec really transfers its state: the source is left observably dead (-7,-7,-7), so an element that was
// assigned from an already moved-from object, or moved twice, shows up in the content comparison with std::set.
struct Rec {
    int dept{0};
    int id{0};
    int tag{0};
    constexpr Rec() = default;
    constexpr Rec(int d, int i, int t) : dept{d}, id{i}, tag{t} { }
    constexpr Rec(Rec const&)                    = default;
    constexpr auto operator=(Rec const&) -> Rec& = default;
    constexpr Rec(Rec&& o) noexcept : dept{o.dept}, id{o.id}, tag{o.tag} { o.dept = o.id = o.tag = -7; }
    constexpr auto operator=(Rec&& o) noexcept -> Rec&
    {
        if (this != &o) { // (self-move keeps the value: nothing the library may legitimately do is turned into a failure)
            dept   = o.dept;
            id     = o.id;
            tag    = o.tag;
            o.dept = o.id = o.tag = -7;
        }
        return *this;
    }
    friend auto operator<=>(Rec const&, Rec const&) = default;
};
struct Dept {
    int d;
};
struct RecLess {
    using is_transparent = void;
    constexpr auto operator()(Rec const& a, Rec const& b) const -> bool { return a.dept != b.dept ? a.dept < b.dept : a.id < b.id; }
    constexpr auto operator()(Rec const& a, Dept b) const -> bool { return a.dept < b.d; }
    constexpr auto operator()(Dept a, Rec const& b) const -> bool { return a.d < b.dept; }
};
using RModel               = std::set<Rec, RecLess>;
constexpr int rec_universe = 18; // 3 departments x 3 ids x 2 tags
constexpr int ndepts       = 5;  // Dept -1 .. 3
auto rec_of(std::uint32_t a) -> Rec { return Rec{static_cast<int>(a % 3U), static_cast<int>((a / 3U) % 3U), static_cast<int>((a / 9U) % 2U)}; }
auto show_rec(Rec const& r) -> std::string { return fmt("%d.%d/%d", r.dept, r.id, r.tag); }
auto show_recs(std::vector<Rec> const& v) -> std::string
{
    std::string o = "[";
    for (std::size_t i = 0; i < v.size(); ++i) { o += (i != 0 ? " " : "") + show_rec(v[i]); }
    return o + "]";
}

enum RCode : std::uint32_t { R_INSERT_CREF, R_INSERT_RREF, R_EMPLACE, R_ERASE_KEY, R_ERASE_ITER, R_INSERT_RANGE, R_CLEAR, R_INSERT_ALIAS, R_ERASE_ALIAS, R_OBSERVE, R_ERASE_RANGE, R_MOVE_ROUND_TRIP, R_COPY_ROUND_TRIP, R_NCODES_STATIC, R_INSERT_HINT = R_NCODES_STATIC, R_NCODES_FLAT };
char const* const rcode_names[] = {"insert(const&)", "insert(&&)", "emplace(dept,id,tag)", "erase(key)", "erase(iterator)", "insert(first,last)", "clear", "insert(*it)", "erase(*it)", "observe", "erase(first,last)", "move-construct + move-assign back", "copy-construct + copy-assign back", "insert(hint,const&)"};

struct RObs {
    std::size_t size{0};
    bool empty{false};
    int full{-1};
    bool content_read{false}, ascending{true}, has_equal_range{false};
    std::vector<Rec> content;
    long lk[rec_universe][NFN]{};
    long dk[ndepts][NFN]{};
};
struct RExclude { // open known findings (see known_findings.json): the class is not asked while the tag is excluded
    bool static_find_by_equality{false}, flat_erase_by_equality{false}, static_hetero_count{false}, flat_hetero_count{false};
};
// sub-property name carrying the open-finding classes that are excluded in this run (replays must see the same ones)
auto with_excl(std::string sub) -> std::string
{
    std::string tags;
    for (char const* t : {"static_set.find_by_equality", "static_set.hetero_count", "flat_set.hetero_count", "flat_set.erase_by_equality"}) {
        if (vf::ctx().excluded(t)) { tags += (tags.empty() ? "" : ",") + std::string(t); }
    }
    return tags.empty() ? sub : sub + " excluding=" + tags;
}
auto rexclude() -> RExclude
{
    auto const& c = vf::ctx();
    return RExclude{c.excluded("static_set.find_by_equality"), c.excluded("flat_set.erase_by_equality"), c.excluded("static_set.hetero_count"), c.excluded("flat_set.hetero_count")};
}

auto rjudge(char const* name, RObs const& o, RModel const& m, std::size_t cap, bool flat, bool& hetero_multi) -> std::string
{
    auto const ex = rexclude();
    std::vector<Rec> const seq(m.begin(), m.end());
    if (o.size != m.size()) { return fmt("%s: size %zu%s%s, std::set has %zu %s", name, o.size, o.content_read ? " content " : "", o.content_read ? show_recs(o.content).c_str() : "", m.size(), show_recs(seq).c_str()); }
    if (o.empty != m.empty()) { return fmt("%s: empty() wrong", name); }
    if (o.full != -1 && (o.full != 0) != (m.size() == cap)) { return fmt("%s: full() wrong", name); }
    if (!o.content_read) { return fmt("%s: end()-begin() != size()", name); }
    if (o.content != seq) { return fmt("%s: iterates %s, std::set iterates %s", name, show_recs(o.content).c_str(), show_recs(seq).c_str()); }
    if (!o.ascending) { return fmt("%s: not strictly ascending under its own key_comp(): %s", name, show_recs(o.content).c_str()); }
    auto mo       = [&](RModel::const_iterator it) { return static_cast<long>(std::distance(m.begin(), it)); };
    int const nfn = o.has_equal_range ? NFN : F_ER1;
    for (int i = 0; i < rec_universe; ++i) {
        Rec const r   = rec_of(static_cast<std::uint32_t>(i));
        auto const mf = m.find(r);
        long const wf = mo(mf), wl = mo(m.lower_bound(r)), wu = mo(m.upper_bound(r)), wc = static_cast<long>(m.count(r));
        long const want[NFN] = {wf, wf, wc, wc, wl, wl, wu, wu, wl, wu, wl, wu};
        bool const eq_ne     = mf != m.end() && !(*mf == r); // equivalent to a stored key without being equal to it
        for (int f = 0; f < nfn; ++f) {
            if (!flat && eq_ne && f <= F_COUNT && ex.static_find_by_equality) {
                vf::excluded_known("static_set.find_by_equality");
                continue;
            }
            long const got = o.lk[i][f];
            if (got == want[f]) { continue; }
            if (f == F_CONTAINS) { return fmt("%s: contains(%s) is %s, std::set says %s", name, show_rec(r).c_str(), got != 0 ? "true" : "false", wc != 0 ? "true" : "false"); }
            if (f == F_COUNT) { return fmt("%s: count(%s) is %ld, std::set says %ld", name, show_rec(r).c_str(), got, wc); }
            return fmt("%s: %s(%s) gives offset %s, std::set gives %ld", name, fn_names[f], show_rec(r).c_str(), show_off(got).c_str(), want[f]);
        }
    }
    for (int i = 0; i < ndepts; ++i) {
        Dept const d{i - 1};
        long const wl = mo(m.lower_bound(d)), wu = mo(m.upper_bound(d)), wc = wu - wl, end = static_cast<long>(m.size());
        hetero_multi |= wc >= 2;
        long const want[NFN] = {wl, wl, wc != 0 ? 1 : 0, wc, wl, wl, wu, wu, wl, wu, wl, wu};
        for (int f = 0; f < nfn; ++f) {
            long const got = o.dk[i][f];
            if (f == F_FIND || f == F_FIND_C) { // any element of the equivalent run is a correct answer ([associative.reqmts]: "an element")
                bool const ok = wc == 0 ? got == end : (got >= wl && got < wu);
                if (!ok) { return fmt("%s: %s(Dept %d) gives offset %s, std::set's equivalent elements are [%ld,%ld) of %ld", name, fn_names[f], d.d, show_off(got).c_str(), wl, wu, end); }
                continue;
            }
            if (f == F_COUNT && wc >= 2 && (flat ? ex.flat_hetero_count : ex.static_hetero_count)) {
                vf::excluded_known(flat ? "flat_set.hetero_count" : "static_set.hetero_count");
                if (got == 0) { return fmt("%s: count(Dept %d) is 0, std::set says %ld", name, d.d, wc); }
                continue;
            }
            if (got == want[f]) { continue; }
            if (f == F_CONTAINS) { return fmt("%s: contains(Dept %d) is %s, std::set says %s", name, d.d, got != 0 ? "true" : "false", wc != 0 ? "true" : "false"); }
            if (f == F_COUNT) { return fmt("%s: count(Dept %d) is %ld, std::set says %ld", name, d.d, got, wc); }
            return fmt("%s: %s(Dept %d) gives offset %s, std::set gives %ld", name, fn_names[f], d.d, show_off(got).c_str(), want[f]);
        }
    }
    return "";
}

struct RFlags {
    bool dup{false}, full_new{false}, erase_succ{false}, eq_ne_key{false}, hetero_multi{false}, alias{false}, reached_full{false};
};
auto rrecord(RFlags const& f, bool flat, int stats, OpsCase const& k) -> void
{
    if (stats > 1) {
        vf::label(flat ? "flat_set<Rec>.hist.equivalent_but_not_equal_key" : "static_set<Rec>.hist.equivalent_but_not_equal_key", f.eq_ne_key);
        vf::label(flat ? "flat_set<Rec>.hist.heterogeneous_lookup_matches_several" : "static_set<Rec>.hist.heterogeneous_lookup_matches_several", f.hetero_multi);
        vf::label(flat ? "flat_set<Rec>.hist.argument_aliases_an_element" : "static_set<Rec>.hist.argument_aliases_an_element", f.alias);
        vf::label(flat ? "flat_set<Rec>.hist.reached_full" : "static_set<Rec>.hist.reached_full", f.reached_full);
    }
    bool const nt = f.dup || f.full_new || f.erase_succ;
    if (stats == 2 && nt) { vf::nontrivial(vf::digest(k)); }
    if (stats == 1 && nt) { vf::nontrivial_count(); }
}
// judges a single-key insert and applies it to the model (std::set keeps the element that is already there)
[[maybe_unused]] auto rjudge_insert(char const* what, RModel& m, Rec const& r, std::size_t cap, bool flat, bool inserted, long got, RFlags& fl) -> std::string
{
    auto const it      = m.find(r);
    bool const present = it != m.end();
    fl.dup |= present;
    fl.eq_ne_key |= present && !(*it == r);
    if (!flat && m.size() == cap && !present) {
        fl.full_new = true;
        if (inserted) { return fmt("%s of the new key %s into a full set reported inserted=true", what, show_rec(r).c_str()); }
        return "";
    }
    auto [mit, mins] = m.insert(r);
    long const want  = static_cast<long>(std::distance(m.begin(), mit));
    if (inserted != mins) { return fmt("%s of key %s returned inserted=%s, std::set %s", what, show_rec(r).c_str(), inserted ? "true" : "false", mins ? "true" : "false"); }
    if (got != want) { return fmt("%s of key %s (inserted=%s) returned iterator offset %s, std::set %ld", what, show_rec(r).c_str(), mins ? "true" : "false", show_off(got).c_str(), want); }
    return "";
}

template <typename Set, std::size_t N, bool Flat>
struct RecRunner {
    static constexpr std::uint32_t ncodes = Flat ? R_NCODES_FLAT : R_NCODES_STATIC;

    static auto compare(char const* name, Set& x, RModel const& m, bool& hetero_multi) -> std::string
    {
        Set const& cx = x;
        RObs o;
        o.size  = cx.size();
        o.empty = cx.empty();
        if constexpr (!Flat) { o.full = cx.full() ? 1 : 0; }
        o.content_read = o.size <= N && static_cast<std::size_t>(cx.end() - cx.begin()) == o.size && static_cast<std::size_t>(x.end() - x.begin()) == o.size;
        if (o.content_read) {
            for (auto it = cx.begin(); it != cx.end(); ++it) { o.content.push_back(*it); }
            auto const kc = cx.key_comp();
            for (std::size_t i = 0; i + 1 < o.content.size(); ++i) {
                if (!kc(o.content[i], o.content[i + 1]) || kc(o.content[i + 1], o.content[i])) { o.ascending = false; }
            }
            o.has_equal_range = Flat;
            for (int i = 0; i < rec_universe; ++i) { look<Flat>(x, rec_of(static_cast<std::uint32_t>(i)), o.lk[i]); }
            for (int i = 0; i < ndepts; ++i) { look<Flat>(x, Dept{i - 1}, o.dk[i]); }
        }
        return rjudge(name, o, m, N, Flat, hetero_multi);
    }

    static auto run(OpsCase const& k, int stats, std::size_t check_from) -> std::string
    {
        std::string err;
        RFlags fl;
        auto const ex          = rexclude();
        std::size_t op_index   = 0;
        g_adapter_overflow     = false;
        vf::it::g_out_of_range = false;
        Set x{};
        RModel m;
        for (auto const& op : k.ops) {
            auto code = op.code % ncodes;
            Rec r     = rec_of(op.a % static_cast<std::uint32_t>(rec_universe));
            if (m.empty() && (code == R_ERASE_ITER || code == R_INSERT_ALIAS || code == R_ERASE_ALIAS)) { code = R_INSERT_CREF; }
            bool const single_insert = code == R_INSERT_CREF || code == R_INSERT_RREF || code == R_EMPLACE || code == R_INSERT_HINT;
            if (Flat && single_insert && m.size() == N && m.find(r) == m.end()) {
                // never beyond the capacity of the backing container: ask for a key equivalent to a stored one instead (tag from the raw key)
                Rec const e = *std::next(m.begin(), static_cast<std::ptrdiff_t>(op.a % N));
                r           = Rec{e.dept, e.id, r.tag};
            }
            if (stats > 1) { vf::count((std::string("rec.op.") + rcode_names[code]).c_str()); }
            switch (code) {
            case R_INSERT_CREF: {
                Rec const v = r;
                auto res    = x.insert(v);
                err         = rjudge_insert("insert(const&)", m, r, N, Flat, res.second, off(x.begin(), x.end(), res.first), fl);
                break;
            }
            case R_INSERT_RREF: {
                Rec v    = r;
                auto res = x.insert(std::move(v));
                err      = rjudge_insert("insert(&&)", m, r, N, Flat, res.second, off(x.begin(), x.end(), res.first), fl);
                break;
            }
            case R_EMPLACE: {
                auto res = x.emplace(r.dept, r.id, r.tag);
                err      = rjudge_insert("emplace", m, r, N, Flat, res.second, off(x.begin(), x.end(), res.first), fl);
                break;
            }
            case R_INSERT_HINT: {
                if constexpr (Flat) {
                    auto hp       = static_cast<std::ptrdiff_t>(op.b % (m.size() + 1));
                    auto const mf = m.find(r);
                    fl.dup |= mf != m.end();
                    fl.eq_ne_key |= mf != m.end() && !(*mf == r);
                    Rec const v     = r;
                    auto it         = x.insert(x.cbegin() + hp, v);
                    auto mit        = m.insert(std::next(m.begin(), hp), r);
                    long const want = static_cast<long>(std::distance(m.begin(), mit));
                    if (auto o = off(x.begin(), x.end(), it); o != want) { err = fmt("insert(hint,const&) of key %s returned iterator offset %s, std::set %ld", show_rec(r).c_str(), show_off(o).c_str(), want); }
                }
                break;
            }
            case R_ERASE_KEY: {
                auto const mf = m.find(r);
                bool eq_ne    = mf != m.end() && !(*mf == r);
                if (Flat && eq_ne && ex.flat_erase_by_equality) { // open finding: only keys equal to the stored one are asked
                    vf::excluded_known("flat_set.erase_by_equality");
                    r     = *mf;
                    eq_ne = false;
                }
                fl.eq_ne_key |= eq_ne;
                fl.erase_succ |= mf == m.end() && m.upper_bound(r) != m.end();
                auto n = x.erase(r);
                auto e = m.erase(r);
                if (static_cast<std::size_t>(n) != e) { err = fmt("erase(key %s) returned %zu, std::set %zu", show_rec(r).c_str(), static_cast<std::size_t>(n), e); }
                break;
            }
            case R_ERASE_ITER: {
                auto p  = static_cast<std::ptrdiff_t>(op.a % m.size());
                auto it = x.erase(x.begin() + p);
                m.erase(std::next(m.begin(), p));
                if (auto o = off(x.begin(), x.end(), it); o != p) { err = fmt("erase(iterator at %td) returned iterator offset %s, expected %td", p, show_off(o).c_str(), p); }
                break;
            }
            case R_INSERT_RANGE: {
                // unsorted source with many duplicates and equivalent-but-not-equal keys; cut so that the set never needs more than N keys
                std::size_t const len = op.b % 8U;
                bool const ra         = ((op.b / 8U) % 2U) == 0;
                Rec src[8];
                std::size_t n = 0;
                RModel u(m);
                for (std::size_t i = 0; i < len; ++i) {
                    Rec const q = rec_of((op.a + static_cast<std::uint32_t>(i % 3) * 7U + static_cast<std::uint32_t>(i / 3) * ((op.c >> 1) % 18U)) % 18U);
                    auto uf     = u.find(q);
                    if (uf == u.end() && u.size() == N) { break; }
                    fl.dup |= uf != u.end();
                    fl.eq_ne_key |= uf != u.end() && !(*uf == q);
                    u.insert(q);
                    src[n++] = q;
                }
                Rec const* f = src;
                if (ra) {
                    x.insert(f, f + n);
                } else {
                    using It = vf::it::In<Rec const>;
                    x.insert(It(f, f, f + n), It(f + n, f, f + n));
                }
                m.insert(f, f + n);
                break;
            }
            case R_CLEAR: {
                x.clear();
                m.clear();
                break;
            }
            case R_INSERT_ALIAS: { // s.insert(*it): the argument lives inside the set
                auto p   = static_cast<std::ptrdiff_t>(op.a % m.size());
                auto res = x.insert(x.begin()[p]);
                fl.alias = fl.dup = true;
                if (res.second) {
                    err = "insert(*it) reported inserted=true";
                } else if (auto o = off(x.begin(), x.end(), res.first); o != p) {
                    err = fmt("insert(*it) for the element at %td returned iterator offset %s", p, show_off(o).c_str());
                }
                break;
            }
            case R_ERASE_RANGE: {
                auto f = static_cast<std::ptrdiff_t>(op.a % (m.size() + 1));
                auto l = f + static_cast<std::ptrdiff_t>(pick(op.b, m.size() - static_cast<std::size_t>(f)));
                long o = 0;
                if constexpr (Flat) {
                    o = off(x.begin(), x.end(), x.erase(x.cbegin() + f, x.cbegin() + l));
                } else {
                    o = off(x.begin(), x.end(), x.erase(x.begin() + f, x.begin() + l));
                }
                m.erase(std::next(m.begin(), f), std::next(m.begin(), l));
                if (o != f) { err = fmt("erase(first %td, last %td) returned iterator offset %s, expected %td", f, l, show_off(o).c_str(), f); }
                break;
            }
            case R_MOVE_ROUND_TRIP: { // the elements travel through two real moves
                Set c(std::move(x));
                bool hm = false;
                if (auto e = compare("move-constructed", c, m, hm); !e.empty()) { err = e; }
                x = std::move(c);
                break;
            }
            case R_COPY_ROUND_TRIP: {
                Set c(x);
                x.clear();
                x = c;
                bool hm = false;
                if (auto e = compare("copy", c, m, hm); !e.empty()) { err = e; }
                break;
            }
            case R_ERASE_ALIAS: { // s.erase(*it): the argument is the element that is erased
                auto p   = static_cast<std::ptrdiff_t>(op.a % m.size());
                auto n   = x.erase(x.begin()[p]);
                fl.alias = true;
                m.erase(std::next(m.begin(), p));
                if (n != 1) { err = fmt("erase(*it) for the element at %td returned %zu, std::set 1", p, static_cast<std::size_t>(n)); }
                break;
            }
            default: break;
            }
            fl.reached_full |= m.size() == N;
            if (err.empty() && op_index++ >= check_from) { err = compare("set", x, m, fl.hetero_multi); }
            if (err.empty() && vf::it::g_out_of_range) { err = "an input iterator was advanced / dereferenced outside its range"; }
            if (err.empty() && g_adapter_overflow) { err = "the backing container was asked to exceed its capacity although the set never needs more than N keys"; }
            if (!err.empty()) {
                err = std::string("after ") + rcode_names[code] + ": " + err;
                break;
            }
        }
        rrecord(fl, Flat, stats, k);
        return err;
    }
};

// ------------------------------------------------------------------ scenarios for large capacities and bulk construction
// (a) FILL: capacities at the boundaries of the size type (255, 256, 257, 65535, 65536, 65537) are filled COMPLETELY
//     (ascending / descending / shuffled insertion order), then: everything compared with std::set; a new key into the
//     full static_set must fail; a duplicate must be found; one erase, one more insert, everything compared again.
// (b) BULK (capacity 40): construction from a range of 9..40 keys with duplicates, a second insert(first,last), for
//     flat_set also construction from a container, from (sorted_unique, container) and assignment, under every comparator.
enum SCode : std::uint32_t { S_FILL, S_BULK, S_NCODES };
char const* const scode_names[] = {"fill-to-capacity", "bulk-construct"};

template <bool Flat, typename Set>
auto big_compare(char const* name, Set& x, Model const& m, std::size_t cap, bool lookups) -> std::string
{
    Set const& cx = x;
    if (cx.size() != m.size()) { return fmt("%s: size() is %zu, std::set has %zu", name, static_cast<std::size_t>(cx.size()), m.size()); }
    if (cx.empty() != m.empty()) { return fmt("%s: empty() is %s with %zu elements", name, cx.empty() ? "true" : "false", m.size()); }
    if (cx.max_size() != cap) { return fmt("%s: max_size() != N", name); }
    if constexpr (!Flat) {
        if (cx.full() != (m.size() == cap)) { return fmt("%s: full() is %s with %zu of %zu elements", name, cx.full() ? "true" : "false", m.size(), cap); }
    }
    if (static_cast<std::size_t>(cx.end() - cx.begin()) != m.size() || static_cast<std::size_t>(x.end() - x.begin()) != m.size()) { return fmt("%s: end()-begin() is %td, size %zu", name, cx.end() - cx.begin(), m.size()); }
    std::vector<int> const seq(m.begin(), m.end());
    for (std::size_t i = 0; i < seq.size(); ++i) {
        if (cx.begin()[i] != seq[i]) { return fmt("%s: element %zu is %d, std::set has %d", name, i, cx.begin()[i], seq[i]); }
    }
    auto const kc = cx.key_comp();
    for (std::size_t i = 0; i + 1 < seq.size(); ++i) {
        if (!kc(cx.begin()[i], cx.begin()[i + 1])) { return fmt("%s: not strictly ascending under key_comp() at %zu", name, i); }
    }
    auto rlast = cx.rend();
    if (!seq.empty()) { --rlast; }
    if (!seq.empty() && (*cx.rbegin() != seq.back() || *rlast != seq.front())) { return fmt("%s: reverse iteration does not start at the last / end at the first element", name); }
    if (!lookups || seq.empty()) { return ""; }
    auto const mc  = m.key_comp();
    int const lo   = *std::min_element(seq.begin(), seq.end()) - 1;
    int const hi   = *std::max_element(seq.begin(), seq.end()) + 1;
    long const n   = static_cast<long>(seq.size());
    int const span = hi - lo;
    for (int k = lo; k <= hi; ++k) {
        if (span > 4000 && k - lo > 600 && hi - k > 600 && (k % 61) != 0) { continue; } // very large sets: both ends completely, every 61st key in between
        long const wl = static_cast<long>(std::lower_bound(seq.begin(), seq.end(), k, mc) - seq.begin());
        long const wu = static_cast<long>(std::upper_bound(seq.begin(), seq.end(), k, mc) - seq.begin());
        long const wf = wl < wu ? wl : n;
        long got[8]   = {off(x.begin(), x.end(), x.find(k)), off(cx.begin(), cx.end(), cx.find(k)), cx.contains(k) ? 1 : 0, static_cast<long>(cx.count(k)), off(x.begin(), x.end(), x.lower_bound(k)),
              off(cx.begin(), cx.end(), cx.lower_bound(k)), off(x.begin(), x.end(), x.upper_bound(k)), off(cx.begin(), cx.end(), cx.upper_bound(k))};
        long const want[8] = {wf, wf, wu - wl, wu - wl, wl, wl, wu, wu};
        for (int f = 0; f < 8; ++f) {
            if (got[f] != want[f]) { return fmt("%s: %s(%d) gives %s, std::set gives %ld (size %ld)", name, fn_names[f], k, show_off(got[f]).c_str(), want[f], n); }
        }
        if constexpr (Flat) {
            auto r = cx.equal_range(k);
            if (off(cx.begin(), cx.end(), r.first) != wl || off(cx.begin(), cx.end(), r.second) != wu) { return fmt("%s: equal_range(%d) differs from std::set's [%ld,%ld)", name, k, wl, wu); }
        }
    }
    return "";
}

template <typename SetT, typename CompT, std::size_t N, bool Flat>
struct ScenarioRunner {
    using Set = SetT;
    static auto model() -> Model { return Model(DirComp{descending_v<CompT>}); }

    static auto fill(RawOp const& op) -> std::string
    {
        // N distinct odd keys, so that there are absent keys between any two of them
        std::vector<int> ks(N);
        for (std::size_t i = 0; i < N; ++i) { ks[i] = static_cast<int>(2 * i + 1); }
        auto const order = N > 1000 ? 0U : op.a % 3U; // the very large sets are only filled in ascending order (every other order is quadratic)
        if (order == 1) { std::reverse(ks.begin(), ks.end()); }
        if (order == 2) {
            vf::Rng rng(op.b + 1U);
            for (std::size_t i = N; i > 1; --i) { std::swap(ks[i - 1], ks[rng.below(i)]); }
        }
        if (descending_v<CompT> && order == 0) { std::reverse(ks.begin(), ks.end()); } // "ascending" means: every insert goes to the end
        auto px = std::make_unique<Set>();
        Set& x  = *px;
        Model m = model();
        for (std::size_t i = 0; i < N; ++i) {
            int const key = ks[i];
            bool ins      = false;
            long pos      = 0;
            if (i % 3 == 0) {
                auto r = x.insert(key);
                ins    = r.second;
                pos    = off(x.begin(), x.end(), r.first);
            } else if (i % 3 == 1) {
                int v  = key;
                auto r = x.insert(std::move(v));
                ins    = r.second;
                pos    = off(x.begin(), x.end(), r.first);
            } else {
                auto r = x.emplace(key);
                ins    = r.second;
                pos    = off(x.begin(), x.end(), r.first);
            }
            m.insert(key);
            if (!ins) { return fmt("insert number %zu (key %d) into a set of capacity %zu reported inserted=false", i + 1, key, N); }
            if (x.size() != i + 1) { return fmt("after insert number %zu size() is %zu", i + 1, static_cast<std::size_t>(x.size())); }
            if (pos < 0 || pos > static_cast<long>(i) || x.begin()[pos] != key) { return fmt("insert number %zu (key %d) returned an iterator that does not point at the key (offset %s)", i + 1, key, show_off(pos).c_str()); }
        }
        if (auto e = big_compare<Flat>("filled to capacity", x, m, N, true); !e.empty()) { return e; }
        // duplicate into the full set: found, not inserted
        {
            int const dup = ks[op.b % N];
            auto r        = x.insert(dup);
            long const w  = static_cast<long>(std::distance(m.begin(), m.find(dup)));
            if (r.second || off(x.begin(), x.end(), r.first) != w) { return fmt("insert of the stored key %d into the full set: inserted=%s, iterator offset %s, std::set {%ld,false}", dup, r.second ? "true" : "false", show_off(off(x.begin(), x.end(), r.first)).c_str(), w); }
        }
        if constexpr (!Flat) { // new keys into the full static_set: failure, nothing changes
            for (int nk : {0, static_cast<int>(2 * N + 5), static_cast<int>(N) - (static_cast<int>(N) % 2)}) {
                if (x.insert(nk).second) { return fmt("insert of the new key %d into the full set reported inserted=true", nk); }
            }
            if (auto e = big_compare<Flat>("full set after rejected inserts", x, m, N, false); !e.empty()) { return e; }
        }
        // one erase, one more insert
        int const victim = ks[op.c % N];
        if (auto n = x.erase(victim); n != 1) { return fmt("erase(key %d) on the full set returned %zu", victim, static_cast<std::size_t>(n)); }
        m.erase(victim);
        if (auto e = big_compare<Flat>("after one erase", x, m, N, false); !e.empty()) { return e; }
        int const fresh = victim + 1; // an even key next to the erased one
        if (!x.insert(fresh).second) { return fmt("insert of the new key %d after one erase reported inserted=false", fresh); }
        m.insert(fresh);
        if (auto e = big_compare<Flat>("after one erase and one more insert", x, m, N, true); !e.empty()) { return e; }
        // erase through an iterator, refill, then empty it
        x.erase(x.begin());
        m.erase(m.begin());
        x.emplace(static_cast<int>(2 * N + 7));
        m.insert(static_cast<int>(2 * N + 7));
        if (auto e = big_compare<Flat>("after erase(begin()) and emplace", x, m, N, false); !e.empty()) { return e; }
        auto cp = std::make_unique<Set>(x);
        if (auto e = big_compare<Flat>("copy of the full set", *cp, m, N, false); !e.empty()) { return e; }
        x.clear();
        m.clear();
        return big_compare<Flat>("cleared", x, m, N, false);
    }

    static auto bulk(RawOp const& op, bool& had_dup) -> std::string
    {
        if constexpr (N <= 64) {
            auto const keys = bulk_keys(op, N);
            had_dup         = has_dups(keys);
            int src[64]{};
            std::copy(keys.begin(), keys.end(), src);
            int const* f = src;
            Model m      = model();
            m.insert(keys.begin(), keys.end());
            auto make = [&]() -> Set {
                if constexpr (Flat) {
                    return Set(f, f + keys.size());
                } else {
                    return Set(f, f + keys.size());
                }
            };
            Set c = make();
            if (auto e = big_compare<Flat>("constructed from a range", c, m, N, true); !e.empty()) { return e; }
            // a second, overlapping range (cut so that the set never needs more than N keys), through input iterators for odd seeds
            bool dup2        = false;
            auto const keys2 = fit_keys(m, bulk_keys(RawOp{op.code, op.a + 7U, op.b + 1U, op.c}, N), false, N, dup2);
            int src2[64]{};
            std::copy(keys2.begin(), keys2.end(), src2);
            int const* g = src2;
            if ((op.b & 1U) != 0) {
                using It = vf::it::In<int const>;
                c.insert(It(g, g, g + keys2.size()), It(g + keys2.size(), g, g + keys2.size()));
            } else {
                c.insert(g, g + keys2.size());
            }
            m.insert(keys2.begin(), keys2.end());
            if (auto e = big_compare<Flat>("after insert(first,last)", c, m, N, true); !e.empty()) { return e; }
            if (vf::it::g_out_of_range) { return "an input iterator was advanced / dereferenced outside its range"; }
            if constexpr (Flat) {
                using Cont = typename Set::container_type;
                Model m1   = model();
                m1.insert(keys.begin(), keys.end());
                Cont cont;
                for (auto q : keys) { cont.push_back(q); }
                Set d(cont);
                if (auto e = big_compare<Flat>("constructed from a container", d, m1, N, true); !e.empty()) { return e; }
                Set e2;
                e2 = d;
                if (auto e = big_compare<Flat>("copy-assigned", e2, m1, N, false); !e.empty()) { return e; }
                Cont sorted;
                for (auto q : m1) { sorted.push_back(q); }
                Set s3(etl::sorted_unique, std::move(sorted));
                if (auto e = big_compare<Flat>("constructed from (sorted_unique, container)", s3, m1, N, true); !e.empty()) { return e; }
                e2 = std::move(s3);
                if (auto e = big_compare<Flat>("move-assigned", e2, m1, N, false); !e.empty()) { return e; }
            }
        } else {
            (void)op;
            (void)had_dup;
        }
        return "";
    }

    static auto run(OpsCase const& k, int stats, std::size_t /*check_from*/) -> std::string
    {
        if (k.ops.empty()) { return ""; }
        vf::it::g_out_of_range = false;
        auto const& op         = k.ops[0];
        auto code              = op.code % S_NCODES;
        if (N > 64 && code == S_BULK) { code = S_FILL; }
        bool had_dup = false;
        auto err     = code == S_FILL ? fill(op) : bulk(op, had_dup);
        if (stats > 0) {
            if (code == S_FILL || had_dup) { vf::nontrivial_count(); }
        }
        return err.empty() ? err : std::string(scode_names[code]) + ": " + err;
    }
};

// ------------------------------------------------------------------ configuration table
struct Config {
    char const* name;
    std::string (*run)(OpsCase const&, int, std::size_t);
    std::uint32_t ncodes;
    int kind; // 0 static_set, 1 flat_set, 2 flat_multiset, 3 static_set / flat_set with the struct key Rec, 4 scenarios (fill / bulk), 5 bulk flat_multiset
    std::size_t cap;
};

template <std::size_t N>
using SVec = etl::static_vector<int, N>;
template <std::size_t N>
using AVec = IVec<int, N>;

#define SS(N, C) Config{"static_set<int," #N "," #C ">", &Runner<etl::static_set<int, N, C>, C, N, false>::run, NCODES_STATIC, 0, N}
#define FS(N, C) Config{"flat_set<int,static_vector<int," #N ">," #C ">", &Runner<etl::flat_set<int, SVec<N>, C>, C, N, true>::run, NCODES_FLAT, 1, N}
#define FA(N, C) Config{"flat_set<int,inplace_vector_adapter<int," #N ">," #C ">", &Runner<etl::flat_set<int, AVec<N>, C>, C, N, true>::run, NCODES_FLAT, 1, N}
#define RS(N) Config{"static_set<Rec," #N ",RecLess>", &RecRunner<etl::static_set<Rec, N, RecLess>, N, false>::run, R_NCODES_STATIC, 3, N}
#define RF(N) Config{"flat_set<Rec,static_vector<Rec," #N ">,RecLess>", &RecRunner<etl::flat_set<Rec, etl::static_vector<Rec, N>, RecLess>, N, true>::run, R_NCODES_FLAT, 3, N}
#define XS(N, C) Config{"static_set<int," #N "," #C "> (scenarios)", &ScenarioRunner<etl::static_set<int, N, C>, C, N, false>::run, S_NCODES, 4, N}
#define XF(N, C) Config{"flat_set<int,static_vector<int," #N ">," #C "> (scenarios)", &ScenarioRunner<etl::flat_set<int, SVec<N>, C>, C, N, true>::run, S_NCODES, 4, N}
#define MB(C) Config{"flat_multiset<int,static_vector<int,40>," #C "> (bulk)", &MultiRunner<SVec<40>, C, 40>::run, 1, 5, 40}
#define MS(CONT, CNAME, C) Config{"flat_multiset<int," CNAME "," #C ">", &MultiRunner<CONT, C>::run, 1, 2, 4}

using less_int     = etl::less<int>;
using greater_int  = etl::greater<int>;
using less_void    = etl::less<>;
using greater_void = etl::greater<>;

Config const configs[] = {
#if C09_PART == 0
    SS(1, less_int), SS(3, less_int), SS(4, less_int), SS(1, greater_int), SS(3, greater_int), SS(4, greater_int),
#elif C09_PART == 1
    SS(1, less_void), SS(3, less_void), SS(4, less_void), SS(3, greater_void),
    // capacities at the boundaries of the size type, filled completely; bulk construction under every comparator
    XS(255, less_int), XS(256, less_int), XS(257, greater_int), XF(256, greater_int), XS(65536, less_int), XS(65537, less_int), XF(65536, less_int),
#elif C09_PART == 2
    FS(1, less_int), FS(3, less_int), FS(4, less_int), FS(1, greater_int), FS(3, greater_int), FS(4, greater_int),
#elif C09_PART == 3
    FS(1, less_void), FS(3, less_void), FS(4, less_void), FS(3, greater_void),
    // bulk construction / bulk insert of 9..40 keys under non-less orderings
    XS(40, greater_int), XF(40, less_int), XF(40, greater_void), XF(40, RevLess),
#elif C09_PART == 4
    FA(3, less_int), FA(4, greater_int), FA(3, less_void),
    // large capacities with a key universe of 20: random histories only (size-dependent search paths)
    SS(8, less_int), SS(17, greater_int), FS(8, less_void), FS(17, less_int),
#else
    FS(3, DirComp), FA(4, DirComp),
    MS(SVec<4>, "static_vector<int,4>", less_int), MS(SVec<4>, "static_vector<int,4>", greater_int), MS(SVec<4>, "static_vector<int,4>", less_void), MS(AVec<4>, "inplace_vector_adapter<int,4>", greater_void),
    RS(3), RS(5), RF(3), RF(5),
    MB(less_int), MB(greater_int), MB(greater_void), MB(RevLess),
#endif
};
constexpr std::uint32_t nconfigs = sizeof(configs) / sizeof(configs[0]);

auto run_case(OpsCase const& k, int stats, std::size_t check_from = 0) -> std::string
{
    auto const& cfg = configs[k.cfg % nconfigs];
    auto d          = cfg.run(k, stats, check_from);
    return d.empty() ? d : std::string(cfg.name) + ": " + d;
}

auto describe(OpsCase const& k) -> std::string
{
    auto const& cfg = configs[k.cfg % nconfigs];
    std::string s   = std::string(cfg.name) + " :";
    for (auto const& o : k.ops) {
        if (cfg.kind == 2) {
            s += " " + std::to_string(o.a % 6U);
        } else if (cfg.kind == 4 || cfg.kind == 5) {
            s += " " + std::string(cfg.kind == 5 ? "bulk-construct" : scode_names[o.code % S_NCODES]) + "[" + std::to_string(o.a) + "," + std::to_string(o.b) + "," + std::to_string(o.c) + "]";
        } else if (cfg.kind == 3) {
            s += " " + std::string(rcode_names[o.code % cfg.ncodes]) + "[" + show_rec(rec_of(o.a % 18U)) + "; " + std::to_string(o.a) + "," + std::to_string(o.b) + "," + std::to_string(o.c) + "]";
        } else {
            s += " " + std::string(code_names[o.code % cfg.ncodes]) + "[" + std::to_string(o.a) + "," + std::to_string(o.b) + "," + std::to_string(o.c) + "]";
        }
    }
    return s;
}

// ------------------------------------------------------------------ E2 alphabets
struct ArgSpace {
    std::uint32_t code;
    std::vector<std::uint32_t> as, bs, cs;
};

// every concrete argument of every op (decoded modulo the current size, so the lists cover every key 0..5, every
// position 0..size, every (first,last) pair, both targets, both source-iterator kinds)
auto concrete_ops(Config const& cfg) -> std::vector<RawOp>
{
    std::vector<std::uint32_t> const keys{0, 1, 2, 3, 4, 5}, poss{0, 1, 2, 3, 4}, tgt{0, 1}, one{0};
    std::vector<std::uint32_t> const lens{0, 1, 2, 3, 15, 23, 31};     // pick(): 0, 1, all, all-1, and explicit 1,2,3
    std::vector<std::uint32_t> const seqs{0, 8, 23, 129, 373, 1295};   // base-6 digit strings: 0000, 2100, 5300, 3330, 1241, 5555
    std::vector<std::uint32_t> const rlen{0, 1, 2, 3, 4, 6, 7, 8, 9};  // length 0..4 from a random-access source (0..4) / from input iterators (5..9)
    std::vector<std::uint32_t> const tgt_stride{0, 1, 2, 3};           // target x stride {0,1}
    std::vector<std::uint32_t> masks;
    for (std::uint32_t m = 0; m < 64; ++m) { masks.push_back(m); }
    std::vector<ArgSpace> sp{
        {INSERT_CREF, keys, tgt, tgt}, {INSERT_RREF, keys, one, tgt}, {EMPLACE, keys, tgt, tgt}, {INSERT_RANGE, seqs, rlen, tgt_stride}, {ERASE_KEY, keys, tgt, tgt}, {ERASE_ITER, poss, one, tgt},
        {ERASE_RANGE, poss, lens, tgt}, {CLEAR, one, one, tgt}, {SWAP_MEMBER, one, one, tgt}, {SWAP_FREE, one, one, tgt}, {COMPARE, one, one, tgt}, {COPY_CTOR_MUTATE, keys, one, tgt},
        {COPY_ASSIGN, one, one, tgt}, {MOVE_ASSIGN, one, one, tgt}, {MOVE_CTOR, one, one, tgt}, {SELF_COPY_ASSIGN, one, one, tgt}, {CTOR_RANGE, seqs, rlen, tgt_stride}, {OBSERVE, one, one, tgt},
    };
    if (cfg.kind == 1) {
        std::vector<ArgSpace> fl{
            {INSERT_HINT_CREF, keys, poss, tgt}, {INSERT_HINT_RREF, keys, poss, one}, {EMPLACE_HINT, keys, poss, one}, {ERASE_CONST_ITER, poss, one, tgt}, {EXTRACT, one, tgt, tgt}, {REPLACE, masks, one, one},
            {CTOR_CONTAINER, seqs, poss, tgt_stride}, {CTOR_SORTED_UNIQUE, masks, tgt, one}, {ERASE_IF, tgt, one, tgt},
        };
        sp.insert(sp.end(), fl.begin(), fl.end());
    }
    std::vector<RawOp> out;
    for (auto const& s : sp) {
        for (auto a : s.as) {
            for (auto b : s.bs) {
                for (auto c : s.cs) { out.push_back(RawOp{s.code, a, b, c}); }
            }
        }
    }
    return out;
}

// compact alphabets for the exhaustive histories: quick = 20 letters (static_set) / 26 (flat_set), all histories of
// depth 4; thorough = 20 / 22 letters, all histories of depth 5
auto history_alphabet(Config const& cfg, bool thorough) -> std::vector<RawOp>
{
    std::vector<RawOp> a{
        {INSERT_CREF, 0, 0, 0}, {INSERT_CREF, 2, 0, 0}, {INSERT_RREF, 4, 0, 0}, {EMPLACE, 3, 0, 0}, {INSERT_CREF, 5, 0, 1}, // the last one targets B
        {ERASE_KEY, 2, 0, 0}, {ERASE_KEY, 3, 0, 0}, {ERASE_KEY, 1, 0, 0}, {ERASE_ITER, 0, 0, 0}, {ERASE_RANGE, 0, 2, 0} /* all */, {ERASE_RANGE, 1, 2, 0} /* [1,end) */,
        {SWAP_MEMBER, 0, 0, 0}, {INSERT_RANGE, 8, 3, 0} /* keys 2 1 0 */, {ERASE_RANGE, 0, 3, 0} /* all but the last */, {CLEAR, 0, 0, 0}, {COPY_ASSIGN, 0, 0, 0},
    };
    if (cfg.kind == 0 || !thorough) {
        std::vector<RawOp> more{{COMPARE, 0, 0, 0}, {MOVE_ASSIGN, 0, 0, 0}, {COPY_CTOR_MUTATE, 1, 0, 0}, {CTOR_RANGE, 129, 8, 0} /* keys 3 3 3 through input iterators */};
        a.insert(a.end(), more.begin(), more.end());
    }
    if (cfg.kind == 1) {
        std::vector<RawOp> fl{{INSERT_HINT_CREF, 1, 0, 0}, {EXTRACT, 0, 0, 0}, {EXTRACT, 0, 1, 0}, {REPLACE, 0x2A, 0, 0} /* keys 1 3 5 */, {EMPLACE_HINT, 4, 4, 0}, {ERASE_IF, 0, 0, 0}};
        a.insert(a.end(), fl.begin(), fl.end());
    }
    return a;
}

void enum_states_x_ops(vf::Ctx& c)
{
    std::uint64_t n = 0;
    for (std::uint32_t ci = 0; ci < nconfigs; ++ci) {
        auto const& cfg = configs[ci];
        if (cfg.kind >= 2 || cfg.cap > 4) { continue; }
        auto const ops = concrete_ops(cfg);
        for (std::uint32_t mask = 0; mask < 64; ++mask) {
            if (static_cast<std::size_t>(__builtin_popcount(mask)) > cfg.cap) { continue; }
            // variant 0: keys inserted ascending, other set empty; variant 1: keys inserted descending, other set {1,4} (cut to the capacity)
            for (int variant = 0; variant < 2; ++variant) {
                std::vector<RawOp> prefix;
                for (int i = 0; i < universe; ++i) {
                    int const q = variant == 0 ? i : universe - 1 - i;
                    if ((mask >> q) & 1U) { prefix.push_back(RawOp{INSERT_CREF, static_cast<std::uint32_t>(q), 0, 0}); }
                }
                if (variant == 1) {
                    prefix.push_back(RawOp{INSERT_CREF, 1, 0, 1});
                    if (cfg.cap >= 2) { prefix.push_back(RawOp{INSERT_CREF, 4, 0, 1}); }
                }
                bool first = true;
                for (auto const& op : ops) {
                    bool const check_prefix = first; // the building prefix is compared completely once per state (by whichever shard runs its first op)
                    first                   = false;
                    if (!c.mine(n++)) { continue; }
                    OpsCase k;
                    k.cfg = ci;
                    k.ops = prefix;
                    k.ops.push_back(op);
                    vf::Flight<OpsCase> fl("state_x_op", k);
                    vf::eval("state_x_op");
                    auto d = run_case(k, 1, check_prefix ? 0 : prefix.size());
                    if (!d.empty()) {
                        vf::mismatch("state_x_op", k, d);
                        return;
                    }
                }
            }
        }
    }
}

void enum_short_histories(vf::Ctx& c)
{
    for (std::uint32_t ci = 0; ci < nconfigs; ++ci) {
        auto const& cfg = configs[ci];
        if (cfg.kind >= 2 || cfg.cap > 4) { continue; }
        bool failed = false;
        auto go     = [&](std::vector<RawOp> const& alpha, int depth) {
            auto const& z = alpha[0];
            vf::enum_histories(ci, alpha, depth, [&](OpsCase const& k) {
                if (failed) { return; }
                // every proper prefix of this history is also the prefix of the history that continues it with alpha[0]s:
                // the sets are compared after op i only in the one history where everything behind i is alpha[0], so each
                // distinct prefix is compared completely exactly once over the whole enumeration
                std::size_t tail = 0;
                while (tail + 1 < k.ops.size()) {
                    auto const& o = k.ops[k.ops.size() - 1 - tail];
                    if (o.code != z.code || o.a != z.a || o.b != z.b || o.c != z.c) { break; }
                    ++tail;
                }
                vf::Flight<OpsCase> fl("enum_histories", k);
                vf::eval("enum_histories");
                auto d = run_case(k, 1, k.ops.size() - 1 - tail);
                if (!d.empty()) {
                    failed = true;
                    vf::mismatch("enum_histories", k, d);
                }
            });
        };
        go(history_alphabet(cfg, c.thorough()), c.thorough() ? 5 : 4);
    }
}

// struct-key sets: every history of depth 3 over insert / erase of every one of the 18 keys (so every equivalent-but-
// not-equal pairing, and sets where one Dept matches 0, 1 and several elements) plus the other ops
void enum_rec_histories(vf::Ctx& /*c: sharding is done by vf::enum_histories*/)
{
    for (std::uint32_t ci = 0; ci < nconfigs; ++ci) {
        auto const& cfg = configs[ci];
        if (cfg.kind != 3) { continue; }
        std::vector<RawOp> alpha;
        for (std::uint32_t a = 0; a < 18; ++a) {
            alpha.push_back(RawOp{R_INSERT_CREF, a, 0, 0});
            alpha.push_back(RawOp{R_ERASE_KEY, a, 0, 0});
        }
        for (std::uint32_t a : {4U, 13U, 8U}) { alpha.push_back(RawOp{R_EMPLACE, a, 0, 0}); }
        alpha.push_back(RawOp{R_INSERT_RREF, 10, 0, 0});
        alpha.push_back(RawOp{R_ERASE_ITER, 0, 0, 0});
        alpha.push_back(RawOp{R_ERASE_ITER, 1, 0, 0});
        alpha.push_back(RawOp{R_INSERT_RANGE, 0, 6, 2});
        alpha.push_back(RawOp{R_INSERT_RANGE, 5, 13, 8});
        alpha.push_back(RawOp{R_CLEAR, 0, 0, 0});
        alpha.push_back(RawOp{R_INSERT_ALIAS, 0, 0, 0});
        alpha.push_back(RawOp{R_INSERT_ALIAS, 1, 0, 0});
        alpha.push_back(RawOp{R_ERASE_ALIAS, 0, 0, 0});
        alpha.push_back(RawOp{R_ERASE_ALIAS, 1, 0, 0});
        alpha.push_back(RawOp{R_ERASE_RANGE, 0, 2, 0});
        alpha.push_back(RawOp{R_ERASE_RANGE, 1, 1, 0});
        alpha.push_back(RawOp{R_MOVE_ROUND_TRIP, 0, 0, 0});
        alpha.push_back(RawOp{R_COPY_ROUND_TRIP, 0, 0, 0});
        for (std::uint32_t a : {1U, 6U, 12U}) { alpha.push_back(RawOp{R_INSERT_RREF, a, 0, 0}); } // rvalues that land at the front / in the middle
        if (cfg.ncodes == R_NCODES_FLAT) {
            alpha.push_back(RawOp{R_INSERT_HINT, 9, 0, 0});
            alpha.push_back(RawOp{R_INSERT_HINT, 1, 2, 0});
        }
        bool failed   = false;
        auto const& z = alpha[0];
        auto const sub = with_excl("enum_rec_histories");
        vf::enum_histories(ci, alpha, 3, [&](OpsCase const& k) {
            if (failed) { return; }
            std::size_t tail = 0; // compare after op i only where everything behind i is alpha[0] (see enum_short_histories)
            while (tail + 1 < k.ops.size()) {
                auto const& o = k.ops[k.ops.size() - 1 - tail];
                if (o.code != z.code || o.a != z.a || o.b != z.b || o.c != z.c) { break; }
                ++tail;
            }
            vf::Flight<OpsCase> fl(sub.c_str(), k);
            vf::eval("enum_rec_histories");
            auto d = run_case(k, 1, k.ops.size() - 1 - tail);
            if (!d.empty()) {
                failed = true;
                vf::mismatch(sub.c_str(), k, d);
            }
        });
    }
}

// Keys from namespace std.  On the tree at 6a7555d static_set<std::string> / static_set<std::pair<int,int>> do not compile
// (unqualified rotate / make_pair / equal / lexicographical_compare / begin / end are ambiguous with the std:: functions
// found by ADL; candidate repair design/patches/C09-44).  A compile error is outside every property, so this probe is
// only built when the registry passes -DC09_STD_KEY_PROBE=1 (to be switched on once the repair is committed).
#if defined(C09_STD_KEY_PROBE) && C09_PART == 1
} // namespace
    #include <string>
    #include <utility>
namespace {
template <typename K>
auto std_key_probe(char const* name, K a, K b, K c) -> std::string
{
    etl::static_set<K, 4> s;
    std::set<K> m;
    for (K const& q : {b, a, c, a}) {
        auto r  = s.insert(q);
        auto mr = m.insert(q);
        if (r.second != mr.second || *r.first != *mr.first) { return std::string(name) + ": insert differs from std::set"; }
    }
    s.emplace(b);
    etl::static_set<K, 4> t(s);
    if (!(s == t) || (s != t) || (s < t) || !(s <= t)) { return std::string(name) + ": relational operators wrong on a copy"; }
    if (s.size() != m.size() || !std::equal(m.begin(), m.end(), s.begin())) { return std::string(name) + ": content differs from std::set"; }
    if (s.erase(a) != 1 || s.contains(a) || s.count(b) != 1 || s.find(c) == s.end()) { return std::string(name) + ": erase / lookups wrong"; }
    swap(s, t);
    s.erase(s.begin(), s.end());
    return s.empty() && t.size() == 2 ? "" : std::string(name) + ": swap / erase(first,last) wrong";
}
void std_key_probes(vf::Ctx& c)
{
    if (c.shard != 0) { return; }
    OpsCase k;
    k.cfg = 0;
    vf::eval("std_key_probe");
    auto d = std_key_probe<std::string>("static_set<std::string,4>", "a", "b", "c");
    if (d.empty()) { d = std_key_probe<std::pair<int, int>>("static_set<std::pair<int,int>,4>", {1, 2}, {2, 3}, {3, 4}); }
    if (!d.empty()) { vf::mismatch("std_key_probe", k, d); }
}
#else
void std_key_probes(vf::Ctx& /*c*/) { }
#endif

// fill-to-capacity and bulk-construction scenarios, and the bulk flat_multiset containers (all sharded)
void enum_scenarios(vf::Ctx& c)
{
    std::uint64_t n = 0;
    auto one        = [&](std::uint32_t ci, RawOp const& op) -> bool {
        if (!c.mine(n++)) { return true; }
        OpsCase k;
        k.cfg = ci;
        k.ops.push_back(op);
        vf::Flight<OpsCase> fl("scenarios", k);
        vf::eval("scenarios");
        auto d = run_case(k, 1);
        if (!d.empty()) {
            vf::mismatch("scenarios", k, d);
            return false;
        }
        return true;
    };
    vf::Rng rng(c.seed / 1000U + 17U); // the same extra seeds in every shard of a run
    auto const extra = static_cast<std::uint32_t>(rng.below(1U << 20));
    for (std::uint32_t ci = 0; ci < nconfigs; ++ci) {
        auto const& cfg = configs[ci];
        if (cfg.kind == 4 && cfg.cap > 64) {
            if (cfg.cap > 1000) {
                if (!one(ci, RawOp{S_FILL, 0, 3, extra})) { return; }
            } else {
                for (std::uint32_t order = 0; order < 3; ++order) {
                    if (!one(ci, RawOp{S_FILL, order, 1, 0})) { return; }
                    if (!one(ci, RawOp{S_FILL, order, extra, extra / 3U})) { return; }
                }
                if (!one(ci, RawOp{S_FILL, 2, 254, 255})) { return; }
            }
        }
        if ((cfg.kind == 4 && cfg.cap <= 64) || cfg.kind == 5) {
            for (std::uint32_t a = 0; a < 32; ++a) {         // 9 .. 40 keys
                for (std::uint32_t u = 0; u < 3; ++u) {      // universe 6 / 20 / 1000
                    for (std::uint32_t b : {0U, 1U, 2U, 3U, extra, extra + 1U}) {
                        if (!one(ci, RawOp{S_BULK, a, b, u})) { return; }
                    }
                }
            }
        }
    }
}

void enum_multisets(vf::Ctx& c)
{
    std::uint64_t n = 0;
    for (std::uint32_t ci = 0; ci < nconfigs; ++ci) {
        if (configs[ci].kind != 2) { continue; }
        for (int len = 0; len <= 4; ++len) {
            int total = 1;
            for (int i = 0; i < len; ++i) { total *= universe; }
            for (int v = 0; v < total; ++v) {
                if (!c.mine(n++)) { continue; }
                OpsCase k;
                k.cfg = ci;
                int d = v;
                for (int i = 0; i < len; ++i) {
                    k.ops.push_back(RawOp{0, static_cast<std::uint32_t>(d % universe), 0, 0});
                    d /= universe;
                }
                vf::Flight<OpsCase> fl("multiset", k);
                vf::eval("multiset");
                auto e = run_case(k, 1);
                if (len >= 3 && (v % 97) == 0) { vf::sample("multiset", [&] { return describe(k); }); }
                if (!e.empty()) {
                    vf::mismatch("multiset", k, e);
                    return;
                }
            }
        }
    }
}

} // namespace

// Keep the resident set small: ASan's default 256 MB quarantine of freed blocks is far more than these harnesses need
// (every case frees a few dozen small blocks); ASAN_OPTIONS set by bin/check still take precedence for the keys it sets.
extern "C" char const* __asan_default_options() { return "quarantine_size_mb=16:thread_local_quarantine_size_kb=256"; }

void vf_run(vf::Ctx& c)
{
    std_key_probes(c);
    enum_multisets(c);
    enum_scenarios(c);
    enum_rec_histories(c);
    enum_states_x_ops(c);
    enum_short_histories(c);
    // E1: random histories of <= 30 ops, every configuration (each shard has its own seed)
    int const per_cfg = c.thorough() ? 25000 : 3000;
    for (std::uint32_t ci = 0; ci < nconfigs; ++ci) {
        auto const& cfg = configs[ci];
        if (cfg.kind == 2 || cfg.kind >= 4) { continue; }
        auto gen = rc::gen::map(vf::gen_history(1, cfg.ncodes, 30), [ci](OpsCase k) {
            k.cfg = ci;
            return k;
        });
        std::string sub = std::string("histories/") + cfg.name;
        if (cfg.kind == 3) { sub = with_excl(sub); }
        vf::rc_check<OpsCase>(sub.c_str(), gen, per_cfg, 100, [&](OpsCase const& k) {
            vf::eval("histories");
            auto d = run_case(k, 2);
            if (k.ops.size() >= 6) { vf::sample("histories", [&] { return describe(k); }); }
            return d;
        });
    }
}

std::string vf_replay(std::string const& sub, std::string const& cs)
{
    // bin/check replays (known-finding probes, ddmin, 3x confirmation) without --exclude, so the exclusions a case was
    // found under travel in its sub: "<name> excluding=tag1,tag2" (see with_excl()).  A probe whose case would first run
    // into ANOTHER open finding names that finding's tag the same way.
    if (auto at = sub.find("excluding="); at != std::string::npos) {
        std::stringstream ss(sub.substr(at + 10));
        std::string t;
        while (std::getline(ss, t, ',')) {
            if (!t.empty()) { vf::ctx().exclude.insert(t); }
        }
    }
    auto k = vf::parse_ops(cs);
    vf::Flight<OpsCase> fl("replay", k);
    std::fprintf(stderr, "replaying: %s\n", describe(k).c_str());
    return run_case(k, 0);
}
