// C06 (part 8/8) — element-type dependent behaviour, second half: scoped enum over signed char, float, double (with
// -0.0 / +0.0) and float with NaN (equality-based algorithms only).  See C06_types.cpp / C06_typed_impl.cpp.
#include "C06_typed_impl.cpp"

namespace c06 {
namespace {

template <typename K>
auto a_t_enum(Case const& c) -> std::string { return typed<SE, false>(c); }
template <typename K>
auto a_t_float(Case const& c) -> std::string { return typed<float, false>(c); }
template <typename K>
auto a_t_double(Case const& c) -> std::string { return typed<double, false>(c); }
template <typename K>
auto a_t_float_nan(Case const& c) -> std::string { return typed<float, true>(c); }

} // namespace

auto table() -> std::vector<Entry> const&
{
    constexpr unsigned TY = D_B | D_VAL | D_LEN4;
    static std::vector<Entry> const t = {
        C06_REG(a_t_enum, "types_enum_signed_char", TY, KP),
        C06_REG(a_t_float, "types_float", TY, KP),
        C06_REG(a_t_double, "types_double", TY, KP),
        C06_REG(a_t_float_nan, "types_float_nan", TY, KP),
    };
    return t;
}

} // namespace c06

void vf_run(vf::Ctx& c) { c06::run_table(c); }
std::string vf_replay(std::string const& sub, std::string const& cs) { return c06::replay_table(sub, cs); }
