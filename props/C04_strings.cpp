// C04 — basic_inplace_string matches std::basic_string and is always null-terminated.
// Engines: E1 rapidcheck operation histories (custom shrinker) over two strings of one (Char, Capacity) configuration with
// std::basic_string<Char> as lock-step model; E2 exhaustive short histories for the small capacities.
// Op families: C04_ops_construct (ctors/assign), C04_ops_modify, C04_ops_query, C04_ops_extra (arguments inside the string
// itself, strings of another capacity, free erase with values of other types).
//
// One source, several translation units: props/registry.d/C04.json builds this file several times with -DC04_PART=<n>
// (a TU with all 40 configurations would take minutes to compile); every part instantiates a slice of the table below.
//   part 0: char x {0,1,7,15} + char/ci_traits x 16   part 1: char x {16,31,255,256} + char/ci_traits x 7   (quick + thorough)
//   parts 2..5: wchar_t / char8_t / char16_t / char32_t x {7,15,16}                       (quick only)
//   parts 6..9: wchar_t / char8_t / char16_t / char32_t x all eight capacities            (thorough only)
// so each tier builds six translation units.
// The registry also passes -O0: 87 % of the compile time of this file is optimisation + code generation of the
// sanitizer-instrumented instantiations, and -O0 halves it (the run time of the harness is small either way).
// The configuration id inside a case (OpsCase::cfg) is global: cfg = 8*char_index + capacity_index; char_index 5 is char with
// the user-supplied case-insensitive traits (etl string and std model both instantiated with c04::ci_traits).
#include <etl/cstring.hpp> // before string.hpp: replace(pos,n,cstr) calls an unqualified strlen that is only visible this way
#include <etl/string.hpp>
#include <etl/string_view.hpp>

#include "iterators.hpp"
#include "rc.hpp"

#include "C04_common.inc.cpp"
#include "C04_run.inc.cpp"
#include "C04_ops_construct.inc.cpp"
#include "C04_ops_modify.inc.cpp"
#include "C04_ops_query.inc.cpp"
#include "C04_ops_extra.inc.cpp"

#ifndef C04_PART
    #define C04_PART 0
#endif

// Keep the resident set of a harness process small (the exact-size argument buffers are freed at once; ASan's default
// 256 MB quarantine would keep all of them alive).  Options given in ASAN_OPTIONS by bin/check still take precedence.
extern "C" const char* __asan_default_options() { return "quarantine_size_mb=16:thread_local_quarantine_size_kb=64:malloc_context_size=4"; }

namespace {

using c04::NCODES;
using vf::OpsCase;
using vf::RawOp;

struct Result {
    std::string detail;
    bool nontrivial{false};
};
using RunFn = Result (*)(OpsCase const&, int);

template <typename Char, std::size_t N, typename Tr = void>
auto run_cfg(OpsCase const& k, int stats) -> Result
{
    auto r = std::make_unique<c04::Run<Char, N, Tr>>();
    Result res;
    res.detail     = r->run(k, stats);
    res.nontrivial = r->nontrivial();
    return res;
}

constexpr std::size_t caps[8]            = {0, 1, 7, 15, 16, 31, 255, 256};
constexpr char const* const char_names[6] = {"char", "wchar_t", "char8_t", "char16_t", "char32_t", "char/ci_traits"};

// capacities {7,15,16} of one character type (quick) / all eight capacities (thorough)
template <typename Char, bool MidSet>
auto pick_cap(std::uint32_t ci) -> RunFn
{
    // if constexpr: a run-time switch would instantiate all eight capacities in every part
    if constexpr (MidSet) {
        switch (ci) {
        case 2: return &run_cfg<Char, 7>;
        case 3: return &run_cfg<Char, 15>;
        case 4: return &run_cfg<Char, 16>;
        default: return nullptr;
        }
    } else {
        switch (ci) {
        case 0: return &run_cfg<Char, 0>;
        case 1: return &run_cfg<Char, 1>;
        case 2: return &run_cfg<Char, 7>;
        case 3: return &run_cfg<Char, 15>;
        case 4: return &run_cfg<Char, 16>;
        case 5: return &run_cfg<Char, 31>;
        case 6: return &run_cfg<Char, 255>;
        default: return &run_cfg<Char, 256>;
        }
    }
}

// the slice of the 5 x 8 table this translation unit instantiates
auto runner(std::uint32_t cfg) -> RunFn
{
    auto chi = (cfg / 8) % 6;
    auto ci  = cfg % 8;
    (void)chi;
    (void)ci;
#if C04_PART == 0
    if (chi == 0) {
        switch (ci) {
        case 0: return &run_cfg<char, 0>;
        case 1: return &run_cfg<char, 1>;
        case 2: return &run_cfg<char, 7>;
        case 3: return &run_cfg<char, 15>;
        default: return nullptr;
        }
    }
    if (chi == 5 && ci == 4) { return &run_cfg<char, 16, c04::ci_traits>; }
#elif C04_PART == 1
    if (chi == 0) {
        switch (ci) {
        case 4: return &run_cfg<char, 16>;
        case 5: return &run_cfg<char, 31>;
        case 6: return &run_cfg<char, 255>;
        case 7: return &run_cfg<char, 256>;
        default: return nullptr;
        }
    }
    if (chi == 5 && ci == 2) { return &run_cfg<char, 7, c04::ci_traits>; }
#elif C04_PART == 2
    if (chi == 1) { return pick_cap<wchar_t, true>(ci); }
#elif C04_PART == 3
    if (chi == 2) { return pick_cap<char8_t, true>(ci); }
#elif C04_PART == 4
    if (chi == 3) { return pick_cap<char16_t, true>(ci); }
#elif C04_PART == 5
    if (chi == 4) { return pick_cap<char32_t, true>(ci); }
#elif C04_PART == 6
    if (chi == 1) { return pick_cap<wchar_t, false>(ci); }
#elif C04_PART == 7
    if (chi == 2) { return pick_cap<char8_t, false>(ci); }
#elif C04_PART == 8
    if (chi == 3) { return pick_cap<char16_t, false>(ci); }
#elif C04_PART == 9
    if (chi == 4) { return pick_cap<char32_t, false>(ci); }
#elif C04_PART == 100 // development build only: two configurations
    if (chi == 0 && ci == 2) { return &run_cfg<char, 7>; }
    if (chi == 0 && ci == 4) { return &run_cfg<char, 16>; }
#elif C04_PART == 101 // development build only: the user-supplied-traits configurations
    if (chi == 5 && ci == 2) { return &run_cfg<char, 7, c04::ci_traits>; }
    if (chi == 5 && ci == 4) { return &run_cfg<char, 16, c04::ci_traits>; }
#endif
    return nullptr;
}

auto cfg_name(std::uint32_t cfg) -> std::string
{
    return std::string("basic_inplace_string<") + char_names[(cfg / 8) % 6] + "," + std::to_string(caps[cfg % 8]) + ">";
}

auto run_case(OpsCase const& k, int stats) -> Result
{
    auto f = runner(k.cfg);
    if (f == nullptr) { return Result{"configuration " + cfg_name(k.cfg) + " is not part of this harness (C04_PART mismatch)", false}; }
    auto r = f(k, stats);
    if (!r.detail.empty()) { r.detail = cfg_name(k.cfg) + ": " + r.detail; }
    return r;
}

auto describe(OpsCase const& k) -> std::string
{
    std::string s = cfg_name(k.cfg) + " :";
    for (auto const& o : k.ops) { s += " " + std::string(c04::code_names[o.code % NCODES]) + "[" + std::to_string(o.a) + "," + std::to_string(o.b) + "," + std::to_string(o.c) + "]"; }
    return s;
}

} // namespace

void vf_run(vf::Ctx& c)
{
    std::vector<std::uint32_t> cfgs;
    for (std::uint32_t cfg = 0; cfg < 48; ++cfg) {
        if (runner(cfg) != nullptr) { cfgs.push_back(cfg); }
    }

    // E2: every history of depth 2 (thorough: depth 3 for char capacities 0 and 1) over a concrete alphabet of two argument
    // shapes per op code, for the capacities <= 16 of this part (quick: char 0,1,7,15,16; the other types 15)
    for (auto cfg : cfgs) {
        auto cap = caps[cfg % 8];
        if (cap > 16) { continue; }
        if (!c.thorough() && cfg >= 8 && cfg < 40 && cap != 15) { continue; } // quick: the non-char types enumerate the full-tiny-layout capacity only
        int depth = (c.thorough() && cap <= 1 && cfg < 8) ? 3 : 2; // depth 3: char only (12 M cases), the budget does not allow it five times
        std::vector<RawOp> alpha;
        for (std::uint32_t code = 0; code < NCODES; ++code) {
            alpha.push_back(RawOp{code, 0, 2, 2});  // pos 0 / room-sized / target A, 'b'
            alpha.push_back(RawOp{code, 3, 1, 5});  // pos size / 1 / target B, hi unit
            if (code >= c04::ALIAS_ASSIGN_PTR_N) { alpha.push_back(RawOp{code, 2, 1, 0x1212}); } // argument starts at index 1 of the string itself
        }
        if (depth == 3) {
            // 252^3 is too much for the budget: depth 3 over the mutating ops + one query of each family
            std::vector<RawOp> a3;
            for (auto const& o : alpha) {
                if (o.code < c04::FIND_STR || o.code == c04::FIND_STR || o.code == c04::RFIND_CH || o.code == c04::FLO_STR || o.code == c04::FLNO_CH || o.code == c04::COMPARE_POS_N_STR_POS_N || o.code == c04::RELOPS_CSTR) { a3.push_back(o); }
            }
            alpha = a3;
        }
        vf::enum_histories(cfg, alpha, depth, [&](OpsCase const& k) {
            vf::Flight<OpsCase> fl("enum_histories", k);
            vf::eval("enum_histories");
            auto r = run_case(k, 1);
            if (r.nontrivial) { vf::nontrivial_count(); }
            if (!r.detail.empty()) { vf::mismatch("enum_histories", k, r.detail); }
        });
    }

    // E1: random histories of up to 40 ops, every configuration of this part
    // 2 000 (quick) / 24 000 (thorough) histories per configuration in total, divided over the shards of this part
    int per_cfg = (c.thorough() ? 24000 : 2000) / (c.nshards > 0 ? c.nshards : 1) + 1;
    for (auto cfg : cfgs) {
        auto gen = rc::gen::map(vf::gen_history(1, NCODES, 40), [cfg](OpsCase k) {
            k.cfg = cfg;
            return k;
        });
        std::string sub = "histories/" + cfg_name(cfg);
        vf::rc_check<OpsCase>(sub.c_str(), gen, per_cfg, 100, [&](OpsCase const& k) {
            vf::eval("histories");
            auto r = run_case(k, 2);
            if (r.nontrivial) {
                vf::nontrivial(vf::digest(k));
                if (k.ops.size() >= 6) { vf::sample("histories", [&] { return describe(k); }); }
            }
            return r.detail;
        });
    }
}

std::string vf_replay(std::string const&, std::string const& cs)
{
    auto k = vf::parse_ops(cs);
    vf::Flight<OpsCase> fl("replay", k);
    std::fprintf(stderr, "replaying: %s\n", describe(k).c_str());
    return run_case(k, 0).detail;
}
