// C18 (strings and memory) — etl's str*/mem*/wcs*/wmem* behave like glibc: same pointer offset / sign / length, same
// bytes in the destination, nothing touched outside the source string/count and the destination extent C defines.
//
// Engine E2 (complete small-scope enumeration) + seeded random longer strings (vf::Rng).  Oracle: glibc called with
// identically prepared arguments.  g++ is decisive: under clang half of these functions are compiler builtins.
//
// Every source, haystack, needle and destination is an exact-size heap region (Exact<T>: neighbours poisoned, so an
// access one element before or behind it is an ASan error also for size 0).  C strings carry their terminator as the
// last element.  Destinations are pre-filled with a pattern; ALL their elements are compared with what glibc leaves in an
// identically pre-filled destination, so unwritten elements count too (strncpy padding!).  Each writing function runs
// with a destination of exactly the extent C defines (slack 0) and with 3 pattern elements of slack behind it.
//
// Only calls C defines are generated: separate source and destination blocks (except memmove), memcmp/memchr/memcpy
// counts within the blocks, non-null pointers.  Comparison results are compared by SIGN, pointers as offsets.
#include <etl/cstring.hpp>
#include <etl/cwchar.hpp>

#include <cstring>
#include <cwchar>

#include "verif.hpp"

#if defined(__SANITIZE_ADDRESS__)
    #include <sanitizer/asan_interface.h>
#else
    #define ASAN_POISON_MEMORY_REGION(a, n)   ((void)(a), (void)(n))
    #define ASAN_UNPOISON_MEMORY_REGION(a, n) ((void)(a), (void)(n))
#endif

namespace {

// ---------------------------------------------------------------- exact-size heap region (see C08_string_view.cpp)
template <typename T>
struct Exact {
    static constexpr std::size_t pad = 64;
    unsigned char* block{nullptr};
    T* p{nullptr};
    std::size_t n{0};
    std::size_t total{0};
    // shift: the region starts `shift` elements behind an 8-byte boundary (misaligned sources; its END stays exact)
    explicit Exact(std::size_t count, std::size_t shift = 0) : n{count}
    {
        auto const bytes = n * sizeof(T);
        auto const lead  = shift * sizeof(T);
        total            = pad + ((lead + bytes + 7U) & ~std::size_t{7}) + pad;
        block            = static_cast<unsigned char*>(std::malloc(total));
        if (block == nullptr) { std::abort(); }
        std::memset(block, 0xCD, total);
        p = reinterpret_cast<T*>(block + pad + lead);
        ASAN_POISON_MEMORY_REGION(block, total);
        ASAN_UNPOISON_MEMORY_REGION(block + pad + lead, bytes);
    }
    ~Exact()
    {
        ASAN_UNPOISON_MEMORY_REGION(block, total);
        std::free(block);
    }
    Exact(Exact const&)                    = delete;
    auto operator=(Exact const&) -> Exact& = delete;
};

// ---------------------------------------------------------------- the two libraries, narrow and wide
#define LIBFN(name, fn)                                                                                                \
    template <typename... A>                                                                                           \
    static auto e_##name(A... a)                                                                                       \
    {                                                                                                                  \
        return etl::fn(a...);                                                                                          \
    }                                                                                                                  \
    template <typename... A>                                                                                           \
    static auto c_##name(A... a)                                                                                       \
    {                                                                                                                  \
        return std::fn(a...);                                                                                          \
    }
#define DEF_LIB(NAME, CH, CHARG, S, M, TAG)                                                                            \
    struct NAME {                                                                                                      \
        using Char                       = CH;                                                                         \
        using ChArg                      = CHARG;                                                                      \
        static constexpr char const* tag = TAG;                                                                        \
        static constexpr char const* s   = #S;                                                                         \
        static constexpr char const* m   = #M;                                                                         \
        LIBFN(len, S##len)                                                                                             \
        LIBFN(cmp, S##cmp)                                                                                             \
        LIBFN(ncmp, S##ncmp)                                                                                           \
        LIBFN(cpy, S##cpy)                                                                                             \
        LIBFN(ncpy, S##ncpy)                                                                                           \
        LIBFN(cat, S##cat)                                                                                             \
        LIBFN(ncat, S##ncat)                                                                                           \
        LIBFN(chr, S##chr)                                                                                             \
        LIBFN(rchr, S##rchr)                                                                                           \
        LIBFN(spn, S##spn)                                                                                             \
        LIBFN(cspn, S##cspn)                                                                                           \
        LIBFN(pbrk, S##pbrk)                                                                                           \
        LIBFN(str, S##str)                                                                                             \
        LIBFN(mcpy, M##cpy)                                                                                            \
        LIBFN(mmove, M##move)                                                                                          \
        LIBFN(mset, M##set)                                                                                            \
        LIBFN(mcmp, M##cmp)                                                                                            \
        LIBFN(mchr, M##chr)                                                                                            \
    };
DEF_LIB(Narrow, char, int, str, mem, "char")
DEF_LIB(Wide, wchar_t, wchar_t, wcs, wmem, "wchar_t")

// ---------------------------------------------------------------- case
#define FNS(X) X(len) X(cmp) X(ncmp) X(cpy) X(ncpy) X(cat) X(ncat) X(chr) X(rchr) X(spn) X(cspn) X(pbrk) X(str) X(mcpy) X(mmove) X(mset) X(mcmp) X(mchr) X(mcpy1) X(cpy1)
enum Fn : int {
#define X(F) F_##F,
    FNS(X)
#undef X
        FN_COUNT
};
char const* const fn_names[] = {
#define X(F) #F,
    FNS(X)
#undef X
};
auto is_mem(int fn) -> bool { return fn >= F_mcpy && fn != F_cpy1; }
auto real_name(bool wide, int fn) -> std::string
{
    std::string const base = fn_names[fn];
    if (fn == F_mcpy1) { return std::string(wide ? "wmemcpy" : "memcpy") + " (source and destination in one block)"; }
    if (fn == F_cpy1) { return std::string(wide ? "wcscpy" : "strcpy") + " (source and destination adjacent in one block)"; }
    if (is_mem(fn)) { return std::string(wide ? "wmem" : "mem") + base.substr(1); }
    return std::string(wide ? "wcs" : "str") + base;
}

struct Case {
    bool wide{false};
    int fn{0};
    std::vector<std::uint32_t> a, b; // first / second string or block (code units; C strings without their terminator)
    std::size_t n{0};                // count
    long ch{0};                      // character argument
    std::size_t x{0}, y{0};          // writing functions: x = slack behind the destination, y = pattern elements in front of it (= misalignment); memmove: x = source offset, y = destination offset
    std::size_t s{0};                // misalignment of the sources: a starts s % 8 elements, b starts s / 8 elements behind an 8-byte boundary
};
auto units(std::vector<std::uint32_t> const& v) -> std::string
{
    if (v.empty()) { return "-"; }
    std::string o;
    char b[16];
    for (std::size_t i = 0; i < v.size(); ++i) {
        std::snprintf(b, sizeof b, i ? ".%x" : "%x", v[i]);
        o += b;
    }
    return o;
}
auto show_case(Case const& k) -> std::string
{
    return std::string(k.wide ? "wchar_t " : "char ") + fn_names[k.fn] + " " + units(k.a) + " " + units(k.b) + " " + std::to_string(k.n) + " " + std::to_string(k.ch) + " " + std::to_string(k.x) + " " + std::to_string(k.y) + (k.s ? " " + std::to_string(k.s) : std::string{});
}
auto parse_units(std::string const& s, std::vector<std::uint32_t>& out) -> void
{
    out.clear();
    if (s == "-") { return; }
    std::stringstream ss(s);
    std::string t;
    while (std::getline(ss, t, '.')) { out.push_back(static_cast<std::uint32_t>(std::strtoul(t.c_str(), nullptr, 16))); }
}
auto parse_case(std::string const& cs, Case& k) -> bool
{
    std::stringstream ss(cs);
    std::string lib, fn, a, b;
    if (!(ss >> lib >> fn >> a >> b >> k.n >> k.ch >> k.x >> k.y)) { return false; }
    if (!(ss >> k.s)) { k.s = 0; }
    if (lib != "char" && lib != "wchar_t") { return false; }
    k.wide = lib == "wchar_t";
    k.fn   = -1;
    for (int i = 0; i < FN_COUNT; ++i) {
        if (fn == fn_names[i]) { k.fn = i; }
    }
    parse_units(a, k.a);
    parse_units(b, k.b);
    return k.fn >= 0;
}

auto sgn(long long v) -> int { return (v > 0) - (v < 0); }
auto off(void const* p, void const* base, std::size_t elem) -> long long
{
    if (p == nullptr) { return -1; }
    return static_cast<long long>((static_cast<char const*>(p) - static_cast<char const*>(base)) / static_cast<long long>(elem));
}
auto offs(long long o) -> std::string { return o < 0 ? std::string("null") : "+" + std::to_string(o); }
template <typename Char>
auto dump(Char const* p, std::size_t n) -> std::string
{
    std::string o = "[";
    char b[16];
    for (std::size_t i = 0; i < n; ++i) {
        std::snprintf(b, sizeof b, i ? " %x" : "%x", static_cast<unsigned>(static_cast<std::make_unsigned_t<Char>>(p[i])));
        o += b;
    }
    return o + "]";
}
template <typename Char>
void pattern(Char* p, std::size_t n)
{
    for (std::size_t i = 0; i < n; ++i) { p[i] = static_cast<Char>(0x31 + i % 9); } // '1'..'9': never NUL, never in an alphabet
}

// copies of the arguments of one case: C strings (terminator last) and raw blocks (no terminator)
template <typename Char>
struct Bufs {
    Exact<Char> az, bz, a, b;
    explicit Bufs(Case const& k) : az{k.a.size() + 1, k.s % 8}, bz{k.b.size() + 1, k.s / 8}, a{k.a.size(), k.s % 8}, b{k.b.size(), k.s / 8}
    {
        for (std::size_t i = 0; i < k.a.size(); ++i) { az.p[i] = a.p[i] = static_cast<Char>(k.a[i]); }
        for (std::size_t i = 0; i < k.b.size(); ++i) { bz.p[i] = b.p[i] = static_cast<Char>(k.b[i]); }
        az.p[k.a.size()] = Char(0);
        bz.p[k.b.size()] = Char(0);
    }
};

template <typename Char>
auto same(Exact<Char> const& e, Exact<Char> const& c) -> bool
{
    for (std::size_t i = 0; i < e.n; ++i) {
        if (e.p[i] != c.p[i]) { return false; }
    }
    return true;
}

// ---------------------------------------------------------------- ONE differential call
template <typename L>
auto run_call(Bufs<typename L::Char> const& B, Case const& k) -> std::string
{
    using Char  = typename L::Char;
    using ChArg = typename L::ChArg;
    auto const name = real_name(k.wide, k.fn);
    auto const la = k.a.size(), lb = k.b.size();
    Char const* const az = B.az.p;
    Char const* const bz = B.bz.p;
    auto* const azm      = B.az.p; // non-const overloads
    auto* const bzm      = B.bz.p;
    auto const ch        = static_cast<ChArg>(k.ch);
    auto const n         = k.n;
    auto ret_dest        = [&](void const* re, void const* de, void const* rc, void const* dc) -> std::string {
        if (re != de || rc != dc) { return name + ": returns dest" + offs(off(re, de, sizeof(Char))) + ", libc returns dest" + offs(off(rc, dc, sizeof(Char))); }
        return {};
    };
    auto dest_diff = [&](Exact<Char> const& de, Exact<Char> const& dc) -> std::string {
        if (same(de, dc)) { return {}; }
        return name + ": destination (all " + std::to_string(de.n) + " elements, pattern 31..39 = never written) etl " + dump(de.p, de.n) + " libc " + dump(dc.p, dc.n);
    };

    switch (k.fn) {
    case F_len: {
        auto const e = L::e_len(az);
        auto const c = L::c_len(az);
        if (e != c) { return name + ": etl " + std::to_string(e) + " libc " + std::to_string(c); }
        return {};
    }
    case F_cmp: {
        auto const e = sgn(L::e_cmp(az, bz));
        auto const c = sgn(L::c_cmp(az, bz));
        if (e != c) { return name + ": sign etl " + std::to_string(e) + " libc " + std::to_string(c); }
        return {};
    }
    case F_ncmp: {
        auto const e = sgn(L::e_ncmp(az, bz, n));
        auto const c = sgn(L::c_ncmp(az, bz, n));
        if (e != c) { return name + ": sign etl " + std::to_string(e) + " libc " + std::to_string(c); }
        return {};
    }
    case F_cpy:
    case F_ncpy:
    case F_mcpy: {
        auto const need = k.fn == F_cpy ? la + 1 : n;
        Exact<Char> de{k.y + need + k.x}, dc{k.y + need + k.x};
        pattern(de.p, de.n);
        pattern(dc.p, dc.n);
        auto* const dpe = de.p + k.y;
        auto* const dpc = dc.p + k.y;
        void const* re  = nullptr;
        void const* rc  = nullptr;
        if (k.fn == F_cpy) {
            re = L::e_cpy(dpe, az);
            rc = L::c_cpy(dpc, az);
        } else if (k.fn == F_ncpy) {
            re = L::e_ncpy(dpe, az, n);
            rc = L::c_ncpy(dpc, az, n);
        } else {
            re = L::e_mcpy(dpe, static_cast<Char const*>(B.a.p), n);
            rc = L::c_mcpy(dpc, static_cast<Char const*>(B.a.p), n);
        }
        if (auto d = ret_dest(re, dpe, rc, dpc); !d.empty()) { return d; }
        return dest_diff(de, dc);
    }
    case F_cat:
    case F_ncat: {
        auto const app  = k.fn == F_cat ? lb : std::min(lb, n);
        auto const need = la + app + 1;
        Exact<Char> de{k.y + need + k.x}, dc{k.y + need + k.x};
        pattern(de.p, de.n);
        pattern(dc.p, dc.n);
        auto* const dpe = de.p + k.y;
        auto* const dpc = dc.p + k.y;
        for (std::size_t i = 0; i <= la; ++i) { dpe[i] = dpc[i] = az[i]; } // the destination holds string a
        void const* re = nullptr;
        void const* rc = nullptr;
        if (k.fn == F_cat) {
            re = L::e_cat(dpe, bz);
            rc = L::c_cat(dpc, bz);
        } else {
            re = L::e_ncat(dpe, bz, n);
            rc = L::c_ncat(dpc, bz, n);
        }
        if (auto d = ret_dest(re, dpe, rc, dpc); !d.empty()) { return d; }
        return dest_diff(de, dc);
    }
    case F_chr:
    case F_rchr: {
        auto const e1 = k.fn == F_chr ? off(L::e_chr(az, ch), az, sizeof(Char)) : off(L::e_rchr(az, ch), az, sizeof(Char));
        auto const e2 = k.fn == F_chr ? off(L::e_chr(azm, ch), az, sizeof(Char)) : off(L::e_rchr(azm, ch), az, sizeof(Char));
        auto const c  = k.fn == F_chr ? off(L::c_chr(az, ch), az, sizeof(Char)) : off(L::c_rchr(az, ch), az, sizeof(Char));
        if (e1 != c || e2 != c) { return name + ": etl str" + offs(e1) + " (const overload) str" + offs(e2) + " (non-const overload), libc str" + offs(c); }
        return {};
    }
    case F_spn:
    case F_cspn: {
        auto const e = k.fn == F_spn ? L::e_spn(az, bz) : L::e_cspn(az, bz);
        auto const c = k.fn == F_spn ? L::c_spn(az, bz) : L::c_cspn(az, bz);
        if (e != c) { return name + ": etl " + std::to_string(e) + " libc " + std::to_string(c); }
        return {};
    }
    case F_pbrk:
    case F_str: {
        auto const e1 = k.fn == F_pbrk ? off(L::e_pbrk(az, bz), az, sizeof(Char)) : off(L::e_str(az, bz), az, sizeof(Char));
        auto const e2 = k.fn == F_pbrk ? off(L::e_pbrk(azm, bzm), az, sizeof(Char)) : off(L::e_str(azm, bzm), az, sizeof(Char));
        auto const c  = k.fn == F_pbrk ? off(L::c_pbrk(az, bz), az, sizeof(Char)) : off(L::c_str(az, bz), az, sizeof(Char));
        if (e1 != c || e2 != c) { return name + ": etl str" + offs(e1) + " (const overload) str" + offs(e2) + " (non-const overload), libc str" + offs(c); }
        return {};
    }
    case F_mmove: {
        // one block; source at offset x, destination at offset y, n elements, block exactly max(x,y)+n elements.
        // k.a supplies the initial content of the block (cyclically); an empty k.a means 1,2,3,...
        auto const total = std::max(k.x, k.y) + n;
        Exact<Char> be{total}, bc{total};
        for (std::size_t i = 0; i < total; ++i) { be.p[i] = bc.p[i] = la == 0 ? static_cast<Char>(i + 1) : static_cast<Char>(k.a[i % la]); }
        void const* re = L::e_mmove(be.p + k.y, static_cast<Char const*>(be.p + k.x), n);
        void const* rc = L::c_mmove(bc.p + k.y, static_cast<Char const*>(bc.p + k.x), n);
        if (auto d = ret_dest(re, be.p + k.y, rc, bc.p + k.y); !d.empty()) { return d; }
        if (!same(be, bc)) { return name + ": block after the move etl " + dump(be.p, be.n) + " libc " + dump(bc.p, bc.n); }
        return {};
    }
    case F_mset: {
        Exact<Char> de{k.y + n + k.x}, dc{k.y + n + k.x};
        pattern(de.p, de.n);
        pattern(dc.p, dc.n);
        void const* re = L::e_mset(de.p + k.y, ch, n);
        void const* rc = L::c_mset(dc.p + k.y, ch, n);
        if (auto d = ret_dest(re, de.p + k.y, rc, dc.p + k.y); !d.empty()) { return d; }
        return dest_diff(de, dc);
    }
    case F_mcmp: {
        auto const e = sgn(L::e_mcmp(static_cast<Char const*>(B.a.p), static_cast<Char const*>(B.b.p), n));
        auto const c = sgn(L::c_mcmp(static_cast<Char const*>(B.a.p), static_cast<Char const*>(B.b.p), n));
        if (e != c) { return name + ": sign etl " + std::to_string(e) + " libc " + std::to_string(c); }
        return {};
    }
    case F_mchr: {
        auto const e1 = off(L::e_mchr(static_cast<Char const*>(B.a.p), ch, n), B.a.p, sizeof(Char));
        auto const e2 = off(L::e_mchr(B.a.p, ch, n), B.a.p, sizeof(Char));
        auto const c  = off(L::c_mchr(static_cast<Char const*>(B.a.p), ch, n), B.a.p, sizeof(Char));
        if (e1 != c || e2 != c) { return name + ": etl ptr" + offs(e1) + " (const overload) ptr" + offs(e2) + " (non-const overload), libc ptr" + offs(c); }
        return {};
    }
    case F_mcpy1: {
        // one block; source [x, x+n), destination [y, y+n), disjoint (they may touch): C defines the copy
        auto const total = std::max(k.x, k.y) + n;
        Exact<Char> be{total}, bc{total};
        for (std::size_t i = 0; i < total; ++i) { be.p[i] = bc.p[i] = la == 0 ? static_cast<Char>(i + 1) : static_cast<Char>(k.a[i % la]); }
        void const* re = L::e_mcpy(be.p + k.y, static_cast<Char const*>(be.p + k.x), n);
        void const* rc = L::c_mcpy(bc.p + k.y, static_cast<Char const*>(bc.p + k.x), n);
        if (auto d = ret_dest(re, be.p + k.y, rc, bc.p + k.y); !d.empty()) { return d; }
        if (!same(be, bc)) { return name + ": block after the copy etl " + dump(be.p, be.n) + " libc " + dump(bc.p, bc.n); }
        return {};
    }
    case F_cpy1: {
        // one block of 2 * (la + 1) elements: x == 0: string a, then the destination right behind its terminator; x == 1: the
        // destination first, string a right behind it
        auto const len = la + 1;
        Exact<Char> be{2 * len}, bc{2 * len};
        pattern(be.p, be.n);
        pattern(bc.p, bc.n);
        auto const so = k.x == 0 ? 0 : len;
        auto const dx = k.x == 0 ? len : 0;
        for (std::size_t i = 0; i < len; ++i) { be.p[so + i] = bc.p[so + i] = az[i]; }
        void const* re = L::e_cpy(be.p + dx, static_cast<Char const*>(be.p + so));
        void const* rc = L::c_cpy(bc.p + dx, static_cast<Char const*>(bc.p + so));
        if (auto d = ret_dest(re, be.p + dx, rc, bc.p + dx); !d.empty()) { return d; }
        if (!same(be, bc)) { return name + ": block after the copy etl " + dump(be.p, be.n) + " libc " + dump(bc.p, bc.n); }
        return {};
    }
    default: return "harness: unknown function id";
    }
}

// ---------------------------------------------------------------- statistics (batched)
struct Tally {
    std::uint64_t evals[3]{};
    std::uint64_t cls[11]{};
    std::uint64_t strcalls{0}, memcalls{0};
} g_t;
char const* const sub_names[] = {"str", "mem", "memmove"};
char const* const cls_names[] = {"str: both strings non-empty", "str: different lengths", "str: character >= 0x80 involved", "str: count in {0, len, > len}", "mem: embedded zero element", "mem: overlapping move", "str: count > PTRDIFF_MAX (the 'no limit' idiom)", "character argument outside [CHAR_MIN, UCHAR_MAX] (narrow)", "source or destination not 8-byte aligned", "mem: count >= 16", "mem: source and destination touch (memcpy in one block)"};
void flush_tally()
{
    for (int i = 0; i < 3; ++i) {
        if (g_t.evals[i]) { vf::eval(sub_names[i], g_t.evals[i]); }
        g_t.evals[i] = 0;
    }
    for (int i = 0; i < 11; ++i) {
        auto& c = vf::stats().classes[cls_names[i]];
        c.first += g_t.cls[i];
        c.second += (i < 4 || i == 6) ? g_t.strcalls : ((i == 7 || i == 8) ? g_t.strcalls + g_t.memcalls : g_t.memcalls);
        g_t.cls[i] = 0;
    }
    g_t.strcalls = g_t.memcalls = 0;
}
auto two_strings(int fn) -> bool { return fn == F_cmp || fn == F_ncmp || fn == F_cat || fn == F_ncat || fn == F_spn || fn == F_cspn || fn == F_pbrk || fn == F_str || fn == F_mcmp; }
auto has_count(int fn) -> bool { return fn == F_ncmp || fn == F_ncpy || fn == F_ncat; }

template <typename L>
auto one(Bufs<typename L::Char> const& B, Case const& k, bool random) -> bool
{
    auto const sub = k.fn == F_mmove ? 2 : (is_mem(k.fn) ? 1 : 0);
    auto d         = run_call<L>(B, k);
    if (!d.empty()) {
        vf::mismatch(sub_names[sub], k, d);
        return false;
    }
    ++g_t.evals[sub];
    bool high = false, zero = false;
    for (auto u : k.a) {
        high = high || u >= 0x80;
        zero = zero || u == 0;
    }
    for (auto u : k.b) {
        high = high || u >= 0x80;
        zero = zero || u == 0;
    }
    bool nt           = false;
    bool const takes_ch = k.fn == F_chr || k.fn == F_rchr || k.fn == F_mchr || k.fn == F_mset;
    bool const wild_ch  = !k.wide && takes_ch && (k.ch < -128 || k.ch > 255);
    bool const writes   = k.fn == F_cpy || k.fn == F_ncpy || k.fn == F_cat || k.fn == F_ncat || k.fn == F_mcpy || k.fn == F_mset;
    auto const esz      = k.wide ? sizeof(wchar_t) : sizeof(char);
    bool const misal    = k.fn == F_mmove ? ((k.x * esz) % 8 != 0 || (k.y * esz) % 8 != 0) : (((k.s % 8) * esz) % 8 != 0 || ((k.s / 8) * esz) % 8 != 0 || (writes && (k.y * esz) % 8 != 0));
    g_t.cls[7] += wild_ch;
    g_t.cls[8] += misal;
    if (!is_mem(k.fn)) {
        auto const la = k.a.size(), lb = k.b.size();
        bool const nonempty = la > 0 && (!two_strings(k.fn) || lb > 0);
        bool const difflen  = two_strings(k.fn) && la != lb;
        auto const srclen   = k.fn == F_ncat ? lb : la;
        bool const cnt      = has_count(k.fn) && (k.n == 0 || k.n == srclen || k.n > srclen);
        ++g_t.strcalls;
        g_t.cls[0] += nonempty;
        g_t.cls[1] += difflen;
        g_t.cls[2] += high;
        g_t.cls[3] += cnt;
        bool const huge = has_count(k.fn) && k.n > (~std::size_t{0} >> 1);
        g_t.cls[6] += huge;
        nt = nonempty && (difflen || high || cnt || wild_ch || misal);
    } else {
        ++g_t.memcalls;
        bool const overlap = k.fn == F_mmove && k.n > 0 && (k.x > k.y ? k.x - k.y : k.y - k.x) < k.n && k.x != k.y;
        g_t.cls[4] += zero;
        g_t.cls[5] += overlap;
        g_t.cls[9] += k.n >= 16;
        bool const touch = k.fn == F_mcpy1 && (k.x > k.y ? k.x - k.y : k.y - k.x) == k.n;
        g_t.cls[10] += touch;
        nt = k.n > 0 && (zero || high || overlap || wild_ch || misal || touch);
    }
    if (nt) {
        if (random) {
            std::uint64_t h = vf::mix(vf::mix(vf::mix(vf::mix(vf::mix(vf::mix(vf::mix(0xC18ULL, k.wide), k.fn), k.n), static_cast<std::uint64_t>(k.ch)), k.x), k.y), k.s);
            h               = vf::fnv(k.a.data(), k.a.size() * 4, h);
            h               = vf::fnv(k.b.data(), k.b.size() * 4, vf::mix(h, 0xFF));
            vf::nontrivial(h);
        } else {
            vf::nontrivial_count();
        }
        static std::uint64_t nth[3] = {0, 0, 0};
        if ((++nth[sub] % 1999) == 1) {
            vf::sample(sub_names[sub], [&] { return real_name(k.wide, k.fn) + ": " + show_case(k); });
        }
    }
    return true;
}

auto all_strings(std::vector<std::uint32_t> const& alpha, std::size_t maxlen) -> std::vector<std::vector<std::uint32_t>>
{
    std::vector<std::vector<std::uint32_t>> out{{}};
    std::size_t from = 0;
    for (std::size_t l = 1; l <= maxlen; ++l) {
        auto const to = out.size();
        for (std::size_t i = from; i < to; ++i) {
            for (auto a : alpha) {
                auto s = out[i];
                s.push_back(a);
                out.push_back(s);
            }
        }
        from = to;
    }
    return out;
}
auto has_zero(std::vector<std::uint32_t> const& v) -> bool { return std::find(v.begin(), v.end(), 0U) != v.end(); }

auto huge_counts() -> std::vector<std::size_t> const&
{
    static std::vector<std::size_t> const v{~std::size_t{0}, (~std::size_t{0} >> 1) + 1, ~std::size_t{0} >> 1, std::size_t{1} << 32, std::size_t{1} << 31, (std::size_t{1} << 63) + 5};
    return v;
}

template <typename L>
auto ch_set() -> std::vector<long>
{
    if constexpr (sizeof(typename L::Char) == 1) {
        // int arguments: converted to char (strchr) / unsigned char (memchr, memset) -- also from outside [CHAR_MIN, UCHAR_MAX]
        return {'a', 'b', 0x80, -128, 0, 'c', 0x161, -1, 256, -256, 0x4100, 'a' + 512, 'b' - 256, 0x80 + 256, 0x7FFFFFFF, -0x7FFFFFFF - 1};
    } else {
        return {L'a', L'b', 0x80, 0, L'c', 0x10FFFF};
    }
}

template <typename L>
auto present(std::vector<std::uint32_t> const& a, long ch) -> bool
{
    using Char = typename L::Char;
    for (auto u : a) {
        if constexpr (sizeof(Char) == 1) {
            if (static_cast<unsigned char>(static_cast<Char>(u)) == static_cast<unsigned char>(ch)) { return true; }
        } else {
            if (static_cast<Char>(u) == static_cast<Char>(ch)) { return true; }
        }
    }
    return false;
}

// every call of function fn for the pair in k (arguments enumerated completely); single-string functions run for bi == 0 only
template <typename L, typename F>
void for_calls(Case& k, bool a_is_cstr, bool b_is_cstr, bool first_b, F f)
{
    auto const la = k.a.size(), lb = k.b.size();
    auto call = [&](int fn, std::size_t n, long ch, std::size_t x, std::size_t y) {
        k.fn = fn;
        k.n  = n;
        k.ch = ch;
        k.x  = x;
        k.y  = y;
        f();
    };
    if (a_is_cstr && first_b) {
        call(F_len, 0, 0, 0, 0);
        for (std::size_t slack : {0U, 3U}) {
            call(F_cpy, 0, 0, slack, 0);
            for (std::size_t n = 0; n <= la + 2; ++n) { call(F_ncpy, n, 0, slack, 0); }
        }
        for (auto ch : ch_set<L>()) {
            call(F_chr, 0, ch, 0, 0);
            call(F_rchr, 0, ch, 0, 0);
        }
    }
    if (a_is_cstr && b_is_cstr) {
        call(F_cmp, 0, 0, 0, 0);
        for (std::size_t n = 0; n <= std::max(la, lb) + 2; ++n) { call(F_ncmp, n, 0, 0, 0); }
        for (auto n : huge_counts()) { call(F_ncmp, n, 0, 0, 0); } // "no limit": C defines these calls
        for (std::size_t slack : {0U, 3U}) {
            call(F_cat, 0, 0, slack, 0);
            for (std::size_t n = 0; n <= lb + 2; ++n) { call(F_ncat, n, 0, slack, 0); }
        }
        for (auto n : huge_counts()) { call(F_ncat, n, 0, 0, 0); } // appends at most n characters: valid for any n
        call(F_spn, 0, 0, 0, 0);
        call(F_cspn, 0, 0, 0, 0);
        call(F_pbrk, 0, 0, 0, 0);
        call(F_str, 0, 0, 0, 0);
    }
    for (std::size_t n = 0; n <= std::min(la, lb); ++n) { call(F_mcmp, n, 0, 0, 0); }
    if (first_b) {
        // memchr reads sequentially and stops at the first match: any count is defined when the character is present
        for (auto ch : ch_set<L>()) {
            if (!present<L>(k.a, ch)) { continue; }
            for (auto n : huge_counts()) { call(F_mchr, n / sizeof(typename L::Char), ch, 0, 0); }
        }
        if (a_is_cstr) {
            call(F_cpy1, 0, 0, 0, 0);
            call(F_cpy1, 0, 0, 1, 0);
        }
        for (std::size_t n = 0; n <= la; ++n) {
            for (auto ch : ch_set<L>()) { call(F_mchr, n, ch, 0, 0); }
            for (std::size_t slack : {0U, 3U}) { call(F_mcpy, n, 0, slack, 0); }
        }
    }
}

template <typename L>
void enumerate(vf::Ctx& c, std::vector<std::uint32_t> const& alpha, std::size_t maxlen, std::uint64_t& work)
{
    using Char      = typename L::Char;
    auto const strs = all_strings(alpha, maxlen);
    Case k;
    k.wide = sizeof(Char) != 1;
    for (std::size_t ai = 0; ai < strs.size(); ++ai) {
        bool const az = !has_zero(strs[ai]);
        for (std::size_t bi = 0; bi < strs.size(); ++bi) {
            if (!c.mine(work++)) { continue; }
            k.a = strs[ai];
            k.b = strs[bi];
            Bufs<Char> B{k};
            vf::Flight<Case> fl("enumeration", k);
            bool ok = true;
            for_calls<L>(k, az, !has_zero(strs[bi]), bi == 0, [&] {
                if (ok) { ok = one<L>(B, k, false); }
            });
            if (!ok && !c.memory_only) { return; }
        }
        flush_tally();
    }
    // memset and memmove do not depend on a pair of strings
    k.a.clear();
    k.b.clear();
    Bufs<Char> B{k};
    vf::Flight<Case> fl("enumeration", k);
    auto const set_chars = sizeof(Char) == 1 ? std::vector<long>{0, 'a', 0x80, 0x1FF, -1} : std::vector<long>{0, L'a', 0x80, 0x10FFFF, -1};
    // memset: every length 0..40 at every misalignment of the destination (y pattern elements in front of it)
    for (std::size_t n = 0; n <= 40; ++n) {
        if (!c.mine(work++)) { continue; }
        for (auto ch : set_chars) {
            for (std::size_t y = 0; y <= 8; ++y) {
                for (std::size_t slack : {0U, 3U}) {
                    k.fn = F_mset;
                    k.n  = n;
                    k.ch = ch;
                    k.x  = slack;
                    k.y  = y;
                    if (!one<L>(B, k, false) && !c.memory_only) { return; }
                }
            }
        }
    }
    k.y = 0;
    // alignment/length sweep: strings and blocks of every length 0..40 (thorough 70) at every misalignment of the source
    // (s) and of the destination (y): where word-at-a-time fast paths have their head/tail cases
    {
        std::size_t const maxlen = c.thorough() ? 70 : 40;
        for (std::size_t len = 0; len <= maxlen; ++len) {
            for (std::size_t sa = 0; sa < 8; ++sa) {
                if (!c.mine(work++)) { continue; }
                Case q;
                q.wide = k.wide;
                for (std::size_t i = 0; i < len; ++i) { q.a.push_back(static_cast<std::uint32_t>(i % 3 == 2 ? 0x80 + i : 'a' + i % 23)); }
                q.b = q.a;
                if (len > 0) { q.b[len - 1] = 'A'; }
                q.s = sa + 8 * ((sa * 3 + len) % 8);
                Bufs<Char> Q{q};
                vf::Flight<Case> fq("enumeration", q);
                bool ok   = true;
                auto call = [&](int fn, std::size_t n, long ch, std::size_t x, std::size_t y) {
                    q.fn = fn;
                    q.n  = n;
                    q.ch = ch;
                    q.x  = x;
                    q.y  = y;
                    if (ok) { ok = one<L>(Q, q, false); }
                };
                long const lastc = len ? static_cast<long>(static_cast<Char>(q.a[len - 1])) : 0;
                call(F_len, 0, 0, 0, 0);
                call(F_cmp, 0, 0, 0, 0);
                call(F_ncmp, len, 0, 0, 0);
                call(F_ncmp, len ? len - 1 : 0, 0, 0, 0);
                call(F_mcmp, len, 0, 0, 0);
                call(F_chr, 0, lastc, 0, 0);
                call(F_rchr, 0, 'a', 0, 0);
                call(F_chr, 0, 0, 0, 0);
                call(F_mchr, len, lastc, 0, 0);
                call(F_mchr, len, 'Z', 0, 0);
                call(F_str, 0, 0, 0, 0);
                call(F_cspn, 0, 0, 0, 0);
                for (std::size_t y = 0; y < 8; ++y) {
                    call(F_cpy, 0, 0, y % 2 ? 3 : 0, y);
                    call(F_ncpy, len + 2, 0, 0, y);
                    call(F_ncpy, len, 0, 3, y);
                    call(F_mcpy, len, 0, y % 2 ? 0 : 3, y);
                }
                call(F_cat, 0, 0, 0, sa);
                call(F_ncat, len / 2, 0, 3, (sa + 5) % 8);
                if (!ok && !c.memory_only) { return; }
            }
            flush_tally();
        }
    }
    // memmove with counts at and beyond 16 (block-wise fast paths), offsets 0..9
    for (std::size_t n : {15U, 16U, 17U, 23U, 24U, 25U, 31U, 32U, 33U, 40U}) {
        for (std::size_t x = 0; x <= 9; ++x) {
            if (!c.mine(work++)) { continue; }
            for (std::size_t y = 0; y <= 9; ++y) {
                k.fn = F_mmove;
                k.n  = n;
                k.ch = 0;
                k.x  = x;
                k.y  = y;
                k.a.clear();
                if (!one<L>(B, k, false) && !c.memory_only) { return; }
            }
        }
    }
    k.y = 0;
    // memmove: every (source offset, destination offset, count) with offsets and count <= 8 (thorough 12): every overlap in both directions
    std::size_t const lim = c.thorough() ? 12 : 8;
    for (std::size_t n = 0; n <= lim; ++n) {
        for (std::size_t x = 0; x <= lim; ++x) {
            if (!c.mine(work++)) { continue; }
            for (std::size_t y = 0; y <= lim; ++y) {
                for (int content = 0; content < 2; ++content) {
                    k.fn = F_mmove;
                    k.n  = n;
                    k.ch = 0;
                    k.x  = x;
                    k.y  = y;
                    k.a  = content == 0 ? std::vector<std::uint32_t>{} : std::vector<std::uint32_t>{'a', 0, 'b', 0x80, 0, 0, 'c'}; // embedded zeros
                    if (!one<L>(B, k, false) && !c.memory_only) { return; }
                }
            }
        }
    }
    k.a.clear();
    // memcpy inside one block: every (source offset, destination offset, count) with disjoint ranges, including ranges that
    // touch (|x - y| == n) and n == 0 with x == y
    for (std::size_t n = 0; n <= 9; ++n) {
        if (!c.mine(work++)) { continue; }
        for (std::size_t x = 0; x <= 18; ++x) {
            for (std::size_t y = 0; y <= 18; ++y) {
                if ((x > y ? x - y : y - x) < n) { continue; }
                k.fn = F_mcpy1;
                k.n  = n;
                k.ch = 0;
                k.x  = x;
                k.y  = y;
                if (!one<L>(B, k, false) && !c.memory_only) { return; }
            }
        }
    }
    k.x = k.y = 0;
    flush_tally();
}

// ---------------------------------------------------------------- random longer strings
template <typename L>
void random_strings(vf::Ctx& c, std::size_t pairs)
{
    using Char = typename L::Char;
    vf::Rng r{c.seed * 1009 + sizeof(Char)};
    Case k;
    k.wide = sizeof(Char) != 1;
    auto const maxunit = sizeof(Char) == 1 ? 0xFFU : 0x10FFFFU;
    for (std::size_t it = 0; it < pairs; ++it) {
        // small alphabet (so that strchr/strstr/strspn find something), drawn from the whole non-zero unit range, sometimes with 0 (mem* only)
        std::vector<std::uint32_t> al;
        auto const an = 1 + r.below(4);
        for (std::size_t i = 0; i < an; ++i) { al.push_back(r.below(3) == 0 ? static_cast<std::uint32_t>(1 + r.below(maxunit)) : static_cast<std::uint32_t>("ab\x7f\x80\xff"[r.below(5)] & 0xFF)); }
        bool const with_zero = r.below(3) == 0;
        if (with_zero) { al.push_back(0); }
        auto gen = [&](std::size_t maxlen) {
            std::vector<std::uint32_t> s;
            auto const l = r.below(4) == 0 ? r.below(4) : r.below(maxlen + 1);
            for (std::size_t i = 0; i < l; ++i) { s.push_back(al[r.below(al.size())]); }
            return s;
        };
        k.a = gen(40);
        switch (r.below(6)) {
        case 0: k.b = k.a; break;
        case 1: // a with one unit changed
            k.b = k.a;
            if (!k.b.empty()) { k.b[r.below(k.b.size())] = al[r.below(al.size())]; }
            break;
        case 2: // a substring of a
            if (!k.a.empty()) {
                auto const st = r.below(k.a.size());
                auto const ln = r.below(k.a.size() - st + 1);
                k.b.assign(k.a.begin() + static_cast<long>(st), k.a.begin() + static_cast<long>(st + ln));
            } else {
                k.b.clear();
            }
            break;
        case 3: // a prefix of a, extended
            k.b = k.a;
            k.b.resize(r.below(k.a.size() + 1));
            k.b.push_back(al[r.below(al.size())]);
            break;
        default: k.b = gen(12); break;
        }
        k.s = r.below(3) == 0 ? 0 : r.below(64);
        Bufs<Char> B{k};
        vf::Flight<Case> fl("random", k);
        bool const az = !has_zero(k.a), bz = !has_zero(k.b);
        auto const la = k.a.size(), lb = k.b.size();
        bool ok = true;
        auto call = [&](int fn, std::size_t n, long ch, std::size_t x, std::size_t y) {
            k.fn = fn;
            k.n  = n;
            k.ch = ch;
            k.x  = x;
            k.y  = y;
            if (ok) { ok = one<L>(B, k, true); }
        };
        auto rch = [&]() -> long {
            auto v = r.below(4) == 0 ? static_cast<long>(r.below(maxunit + 1)) : static_cast<long>(al[r.below(al.size())]);
            if (sizeof(Char) == 1 && r.below(4) == 0) { v += 256 * (static_cast<long>(r.below(9)) - 4) * (r.below(3) == 0 ? 4099 : 1); } // same char, other int
            return v;
        };
        auto slack = [&]() -> std::size_t { return r.below(2) * 3; };
        auto mis   = [&]() -> std::size_t { return r.below(3) == 0 ? 0 : r.below(8); };
        auto cnt   = [&](std::size_t upto) -> std::size_t { return r.below(8) == 0 ? huge_counts()[r.below(huge_counts().size())] : r.below(upto); };
        if (az) {
            call(F_len, 0, 0, 0, 0);
            call(F_cpy, 0, 0, slack(), mis());
            call(F_ncpy, r.below(la + 4), 0, slack(), mis());
            call(F_ncpy, la, 0, slack(), mis());
            call(F_chr, 0, rch(), 0, 0);
            call(F_rchr, 0, rch(), 0, 0);
            call(F_chr, 0, 0, 0, 0);
            call(F_rchr, 0, 0, 0, 0);
        }
        if (az && bz) {
            call(F_cmp, 0, 0, 0, 0);
            call(F_ncmp, cnt(std::max(la, lb) + 3), 0, 0, 0);
            call(F_cat, 0, 0, slack(), mis());
            call(F_ncat, cnt(lb + 3), 0, slack(), mis());
            call(F_spn, 0, 0, 0, 0);
            call(F_cspn, 0, 0, 0, 0);
            call(F_pbrk, 0, 0, 0, 0);
            call(F_str, 0, 0, 0, 0);
        }
        call(F_mcmp, r.below(2) ? std::min(la, lb) : r.below(std::min(la, lb) + 1), 0, 0, 0);
        call(F_mchr, r.below(2) ? la : r.below(la + 1), rch(), 0, 0);
        if (la > 0) {
            auto const present_ch = static_cast<long>(static_cast<Char>(k.a[r.below(la)]));
            call(F_mchr, huge_counts()[r.below(huge_counts().size())] / sizeof(Char), present_ch, 0, 0);
        }
        if (az) { call(F_cpy1, 0, 0, r.below(2), 0); }
        {
            auto const n = r.below(40);
            auto const x = n + r.below(24);
            auto const y = r.below(2) ? x + n + r.below(3) : x - n - (x - n > 0 ? r.below(2) : 0);
            call(F_mcpy1, n, 0, x, y);
        }
        call(F_mcpy, r.below(2) ? la : r.below(la + 1), 0, slack(), mis());
        call(F_mset, r.below(r.below(4) == 0 ? 200 : 41), rch(), slack(), mis());
        {
            auto const n = r.below(33);
            call(F_mmove, n, 0, r.below(n + 4), r.below(n + 4));
        }
        if (!ok && !c.memory_only) { return; }
        flush_tally();
    }
}

template <typename L>
auto replay_one(Case const& k) -> std::string
{
    Bufs<typename L::Char> B{k};
    vf::Flight<Case> fl("replay", k);
    return run_call<L>(B, k);
}

} // namespace

void vf_run(vf::Ctx& c)
{
    std::uint64_t work = 0;
    bool const t       = c.thorough();
    // the property's scope: all pairs of strings of length <= 4 (thorough 5) over {a, b, 0x80}; the mem* functions
    // additionally with embedded zero elements (alphabet {a, b, 0x80, 0})
    enumerate<Narrow>(c, {'a', 'b', 0x80, 0}, t ? 5U : 4U, work);
    enumerate<Wide>(c, {L'a', L'b', 0x80, 0}, t ? 4U : 3U, work);
    random_strings<Narrow>(c, t ? 12000U : 4000U);
    random_strings<Wide>(c, t ? 12000U : 4000U);
}

std::string vf_replay(std::string const& sub, std::string const& cs)
{
    (void)sub;
    Case k;
    if (!parse_case(cs, k)) { return "harness: cannot parse case string"; }
    return k.wide ? replay_one<Wide>(k) : replay_one<Narrow>(k);
}
