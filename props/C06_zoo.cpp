// C06 (iterator zoo) — random-access NON-contiguous iterators over scalar (trivially copyable) element types.
// Engine E2 (exhaustive small-scope enumeration) + seeded random longer inputs.  See C06_common.cpp / C06_typed_impl.cpp.
//
// (1) Genuinely random-access but NON-contiguous iterators over trivially copyable elements, as source and as
//     destination: etl::reverse_iterator<T*>, a stride-2 iterator (every second slot of a block) and a deque-like
//     two-block iterator.  Anything that takes an address-based shortcut (memmove / memcmp / memset from
//     addressof(*first)) because the iterator is random access is wrong for them.  Families: copy copy_n copy_backward
//     move move_backward fill fill_n equal mismatch lexicographical_compare find count search swap_ranges min/max_element
//     reverse rotate sort stable_sort remove replace unique is_sorted lower_bound, with (zoo -> pointer),
//     (pointer -> zoo) and (zoo -> zoo).  The slots between the stride elements and the block ends are checked.
#include "C06_typed_impl.cpp"

#include <memory>

namespace c06 {
namespace {

template <typename T>
auto z1(T v) -> std::string
{
    if constexpr (std::is_floating_point_v<T>) {
        char buf[48];
        std::snprintf(buf, sizeof buf, "%.17g", static_cast<double>(v));
        return buf;
    } else if constexpr (std::is_signed_v<T>) {
        return std::to_string(static_cast<long long>(v));
    } else {
        return std::to_string(static_cast<unsigned long long>(v));
    }
}
template <typename C>
auto zv(C const& v) -> std::string
{
    std::string s = "[";
    for (std::size_t i = 0; i < v.size(); ++i) { s += (i != 0 ? " " : "") + z1(v[i]); }
    return s + "]";
}
template <typename T>
auto zp(T const* p, long n) -> std::string
{
    std::string s = "[";
    for (long i = 0; i < n; ++i) { s += (i != 0 ? " " : "") + z1(p[i]); }
    return s + "]";
}

// ================================================================== (1) the zoo
struct zra_tag : etl::random_access_iterator_tag { };

// logical index -> slot; Kind 1: stride 2 inside one block, Kind 2: two separate blocks split at k
template <typename T>
struct ZStore {
    int kind{1};
    int n{0};
    int k{0};
    TBuf<T>* blk1{nullptr};
    TBuf<T>* blk2{nullptr};
    [[nodiscard]] auto slot(std::ptrdiff_t i) const -> T*
    {
        if (i < 0 || i >= n) {
            vf::it::g_out_of_range = true;
            static T dummy{};
            return &dummy;
        }
        if (kind == 1) { return blk1->b() + 2 * i; }
        return i < k ? blk1->b() + i : blk2->b() + (i - k);
    }
};
template <typename T>
struct ZIt {
    using iterator_category = zra_tag;
    using value_type        = T;
    using difference_type   = std::ptrdiff_t;
    using pointer           = T*;
    using reference         = T&;
    ZStore<T> const* st{nullptr};
    difference_type i{0};
    void chk() const
    {
        if (st != nullptr && (i < 0 || i > st->n)) { vf::it::g_out_of_range = true; }
    }
    auto operator*() const -> reference { return *st->slot(i); }
    auto operator->() const -> pointer { return st->slot(i); }
    auto operator[](difference_type d) const -> reference { return *st->slot(i + d); }
    auto operator++() -> ZIt&
    {
        ++i;
        chk();
        return *this;
    }
    auto operator++(int) -> ZIt
    {
        auto t = *this;
        ++*this;
        return t;
    }
    auto operator--() -> ZIt&
    {
        --i;
        chk();
        return *this;
    }
    auto operator--(int) -> ZIt
    {
        auto t = *this;
        --*this;
        return t;
    }
    auto operator+=(difference_type d) -> ZIt&
    {
        i += d;
        chk();
        return *this;
    }
    auto operator-=(difference_type d) -> ZIt& { return *this += -d; }
    friend auto operator+(ZIt a, difference_type d) -> ZIt { return a += d; }
    friend auto operator+(difference_type d, ZIt a) -> ZIt { return a += d; }
    friend auto operator-(ZIt a, difference_type d) -> ZIt { return a -= d; }
    friend auto operator-(ZIt const& a, ZIt const& b) -> difference_type { return a.i - b.i; }
    friend auto operator==(ZIt const& a, ZIt const& b) -> bool { return a.i == b.i; }
    friend auto operator!=(ZIt const& a, ZIt const& b) -> bool { return a.i != b.i; }
    friend auto operator<(ZIt const& a, ZIt const& b) -> bool { return a.i < b.i; }
    friend auto operator>(ZIt const& a, ZIt const& b) -> bool { return a.i > b.i; }
    friend auto operator<=(ZIt const& a, ZIt const& b) -> bool { return a.i <= b.i; }
    friend auto operator>=(ZIt const& a, ZIt const& b) -> bool { return a.i >= b.i; }
};

// A logical sequence stored in one of the zoo layouts.  Kind 0: reversed inside a block, traversed with
// etl::reverse_iterator<T*>; Kind 1: stride 2 (odd slots hold a sentinel that must survive); Kind 2: two blocks.
template <typename T, int Kind>
struct Seq {
    using iterator = std::conditional_t<Kind == 0, etl::reverse_iterator<T*>, ZIt<T>>;
    int n;
    std::unique_ptr<TBuf<T>> b1;
    std::unique_ptr<TBuf<T>> b2;
    ZStore<T> st;
    static auto sentinel() -> T { return static_cast<T>(99); }
    Seq(char const* name, std::vector<T> const& v, int mode) : n{static_cast<int>(v.size())}
    {
        if constexpr (Kind == 0) {
            b1 = std::make_unique<TBuf<T>>(name, std::vector<T>(v.rbegin(), v.rend()), mode);
        } else if constexpr (Kind == 1) {
            std::vector<T> phys;
            for (int i = 0; i < n; ++i) {
                phys.push_back(v[static_cast<std::size_t>(i)]);
                if (i + 1 < n) { phys.push_back(sentinel()); }
            }
            b1 = std::make_unique<TBuf<T>>(name, phys, mode);
            st = ZStore<T>{1, n, 0, b1.get(), nullptr};
        } else {
            int k = n / 2;
            b1    = std::make_unique<TBuf<T>>(name, std::vector<T>(v.begin(), v.begin() + k), mode);
            b2    = std::make_unique<TBuf<T>>(name, std::vector<T>(v.begin() + k, v.end()), mode);
            st    = ZStore<T>{2, n, k, b1.get(), b2.get()};
        }
    }
    [[nodiscard]] auto at(int i) const -> iterator
    {
        if constexpr (Kind == 0) {
            return etl::reverse_iterator<T*>(b1->e() - i);
        } else {
            return ZIt<T>{&st, i};
        }
    }
    [[nodiscard]] auto begin() const -> iterator { return at(0); }
    [[nodiscard]] auto end() const -> iterator { return at(n); }
    [[nodiscard]] auto off(iterator const& it) const -> long
    {
        if constexpr (Kind == 0) {
            return static_cast<long>(b1->e() - it.base());
        } else {
            return static_cast<long>(it.i);
        }
    }
    // logical contents; "!" marks a clobbered gap of the stride layout
    [[nodiscard]] auto str() const -> std::string
    {
        std::string s = "[";
        for (int i = 0; i < n; ++i) {
            T const* p = nullptr;
            if constexpr (Kind == 0) {
                p = b1->e() - 1 - i;
            } else {
                p = st.slot(i);
            }
            s += (i != 0 ? " " : "") + z1(*p);
        }
        s += "]";
        if constexpr (Kind == 1) {
            for (int i = 0; i + 1 < n; ++i) {
                if (b1->b()[2 * i + 1] != sentinel()) { s += "!gap" + std::to_string(i); }
            }
        }
        return s;
    }
};

template <typename T>
auto zval(int key) -> T
{
    constexpr int t[] = {-3, 5, 100, 0};
    return static_cast<T>(t[key & 3]);
}

template <typename T, int Kind>
auto zoo(Case const& c) -> std::string
{
    int const L    = len(c);
    int const LB   = lenb(c);
    int const m    = L == 0 ? 0 : c.val % (L + 1);
    int const mode = c.pad;
    std::vector<T> a;
    std::vector<T> b;
    for (int k : c.a) { a.push_back(zval<T>(k)); }
    for (int k : c.b) { b.push_back(zval<T>(k)); }
    T const v  = zval<T>(c.val);
    T const nv = static_cast<T>(77);
    auto const sz = a.size();
    std::string s;
    std::string e;
    using SQ = Seq<T, Kind>;

    // ---------------------------------------------------------------- std on the logical sequences
    {
        auto f = a.begin();
        auto l = a.end();
        std::vector<T> d1(sz, nv);
        std::vector<T> d2(sz, nv);
        std::vector<T> d3(sz, nv);
        std::vector<T> d4(sz, nv);
        std::vector<T> d5(sz, nv);
        auto r1 = std::copy(f, l, d1.begin()) - d1.begin();
        auto r2 = std::copy_n(f, m, d2.begin()) - d2.begin();
        auto r3 = std::copy_backward(f, l, d3.end()) - d3.begin();
        auto r4 = std::move(f, l, d4.begin()) - d4.begin();
        auto r5 = std::move_backward(f, l, d5.end()) - d5.begin();
        std::string cp;
        kv(cp, "copy=", r1);
        cp += zv(d1);
        kv(cp, " copy_n=", r2);
        cp += zv(d2);
        kv(cp, " copy_backward=", r3);
        cp += zv(d3);
        kv(cp, " move=", r4);
        cp += zv(d4);
        kv(cp, " move_backward=", r5);
        cp += zv(d5);
        s += "zoo->ptr " + cp + " ptr->zoo " + cp + " zoo->zoo " + cp;
        {
            auto x = a;
            std::fill(x.begin(), x.end(), v);
            auto y = a;
            auto r = std::fill_n(y.begin(), m, v) - y.begin();
            s += " fill" + zv(x);
            kv(s, " fill_n=", r);
            s += zv(y);
        }
        std::string cmp;
        kb(cmp, "eq4=", std::equal(f, l, b.begin(), b.end()));
        if (LB >= L) { kb(cmp, " eq3=", std::equal(f, l, b.begin())); }
        auto mm = std::mismatch(f, l, b.begin(), b.end());
        kv(cmp, " mm=", mm.first - f);
        kv(cmp, ",", mm.second - b.begin());
        kb(cmp, " lex=", std::lexicographical_compare(f, l, b.begin(), b.end()));
        kb(cmp, "", std::lexicographical_compare(b.begin(), b.end(), f, l));
        kv(cmp, " search=", std::search(f, l, b.begin(), b.end()) - f);
        s += " zoo,ptr " + cmp + " ptr,zoo " + cmp + " zoo,zoo " + cmp;
        kv(s, " find=", std::find(f, l, v) - f);
        kv(s, " count=", std::count(f, l, v));
        kv(s, " min=", std::min_element(f, l) - f);
        kv(s, " max=", std::max_element(f, l) - f);
        kv(s, " sorted_until=", std::is_sorted_until(f, l) - f);
        if (LB >= L) {
            auto x = a;
            auto y = b;
            std::swap_ranges(x.begin(), x.end(), y.begin());
            s += " swap_ranges" + zv(x) + zv(y) + zv(x) + zv(y);
        }
        {
            auto x = a;
            std::reverse(x.begin(), x.end());
            auto y = a;
            auto r = std::rotate(y.begin(), y.begin() + m, y.end()) - y.begin();
            auto z = a;
            std::sort(z.begin(), z.end());
            auto w = a;
            auto rr = std::remove(w.begin(), w.end(), v) - w.begin();
            w.resize(static_cast<std::size_t>(rr));
            auto u = a;
            std::replace(u.begin(), u.end(), v, nv);
            auto q = a;
            auto ru = std::unique(q.begin(), q.end()) - q.begin();
            q.resize(static_cast<std::size_t>(ru));
            s += " reverse" + zv(x);
            kv(s, " rotate=", r);
            s += zv(y) + " sort" + zv(z) + " stable_sort" + zv(z);
            kv(s, " remove=", rr);
            s += zv(w) + " replace" + zv(u);
            kv(s, " unique=", ru);
            s += zv(q);
            kv(s, " lb=", std::lower_bound(z.begin(), z.end(), v) - z.begin());
            kv(s, " ub=", std::upper_bound(z.begin(), z.end(), v) - z.begin());
        }
    }
    // ---------------------------------------------------------------- etl through the zoo
    {
        Scope sc;
        // copy family, three directions
        auto copy_family = [&](auto&& mk_src, auto&& mk_dst, auto&& str_dst, auto&& off_dst) {
            std::string cp;
            {
                auto src = mk_src();
                auto d   = mk_dst();
                auto r   = etl::copy(src->begin(), src->end(), d->begin());
                kv(cp, "copy=", off_dst(*d, r));
                cp += str_dst(*d);
            }
            {
                auto src = mk_src();
                auto d   = mk_dst();
                auto r   = etl::copy_n(src->begin(), m, d->begin());
                kv(cp, " copy_n=", off_dst(*d, r));
                cp += str_dst(*d);
            }
            {
                auto src = mk_src();
                auto d   = mk_dst();
                auto r   = etl::copy_backward(src->begin(), src->end(), d->end());
                kv(cp, " copy_backward=", off_dst(*d, r));
                cp += str_dst(*d);
            }
            {
                auto src = mk_src();
                auto d   = mk_dst();
                auto r   = etl::move(src->begin(), src->end(), d->begin());
                kv(cp, " move=", off_dst(*d, r));
                cp += str_dst(*d);
            }
            {
                auto src = mk_src();
                auto d   = mk_dst();
                auto r   = etl::move_backward(src->begin(), src->end(), d->end());
                kv(cp, " move_backward=", off_dst(*d, r));
                cp += str_dst(*d);
            }
            return cp;
        };
        struct PB { // pointer range with begin()/end()
            TBuf<T> buf;
            PB(char const* nm, std::vector<T> const& v, int md) : buf(nm, v, md) { }
            [[nodiscard]] auto begin() const -> T* { return buf.b(); }
            [[nodiscard]] auto end() const -> T* { return buf.e(); }
        };
        auto zsrc = [&] { return std::make_unique<SQ>("zoo_src", a, mode); };
        auto psrc = [&] { return std::make_unique<PB>("ptr_src", a, mode); };
        auto zdst = [&] { return std::make_unique<SQ>("zoo_dst", std::vector<T>(sz, nv), mode); };
        auto pdst = [&] { return std::make_unique<PB>("ptr_dst", std::vector<T>(sz, nv), mode); };
        auto zstr = [](SQ const& q) { return q.str(); };
        auto pstr = [](PB const& q) { return zp(q.buf.b(), q.buf.n); };
        auto zoff = [](SQ const& q, typename SQ::iterator const& it) { return q.off(it); };
        auto poff = [](PB const& q, T* it) { return static_cast<long>(it - q.buf.b()); };
        e += "zoo->ptr " + copy_family(zsrc, pdst, pstr, poff) + " ptr->zoo " + copy_family(psrc, zdst, zstr, zoff) + " zoo->zoo " + copy_family(zsrc, zdst, zstr, zoff);
        {
            SQ X("x", a, mode);
            etl::fill(X.begin(), X.end(), v);
            SQ Y("y", a, mode);
            auto r = etl::fill_n(Y.begin(), m, v);
            e += " fill" + X.str();
            kv(e, " fill_n=", Y.off(r));
            e += Y.str();
        }
        SQ A("a", a, mode);
        SQ B("b", b, mode);
        TBuf<T> PA("pa", a, mode);
        TBuf<T> PBb("pb", b, mode);
        auto cmp_family = [&](auto f1, auto l1, auto f2, auto l2, auto off1, auto off2) {
            std::string cmp;
            kb(cmp, "eq4=", etl::equal(f1, l1, f2, l2));
            if (LB >= L) { kb(cmp, " eq3=", etl::equal(f1, l1, f2)); }
            auto mm = etl::mismatch(f1, l1, f2, l2);
            kv(cmp, " mm=", off1(mm.first));
            kv(cmp, ",", off2(mm.second));
            kb(cmp, " lex=", etl::lexicographical_compare(f1, l1, f2, l2));
            kb(cmp, "", etl::lexicographical_compare(f2, l2, f1, l1));
            kv(cmp, " search=", off1(etl::search(f1, l1, f2, l2)));
            return cmp;
        };
        auto oza = [&](typename SQ::iterator const& it) { return A.off(it); };
        auto ozb = [&](typename SQ::iterator const& it) { return B.off(it); };
        auto opa = [&](T* it) { return static_cast<long>(it - PA.b()); };
        auto opb = [&](T* it) { return static_cast<long>(it - PBb.b()); };
        e += " zoo,ptr " + cmp_family(A.begin(), A.end(), PBb.b(), PBb.e(), oza, opb) + " ptr,zoo " + cmp_family(PA.b(), PA.e(), B.begin(), B.end(), opa, ozb) + " zoo,zoo " + cmp_family(A.begin(), A.end(), B.begin(), B.end(), oza, ozb);
        kv(e, " find=", A.off(etl::find(A.begin(), A.end(), v)));
        kv(e, " count=", etl::count(A.begin(), A.end(), v));
        kv(e, " min=", A.off(etl::min_element(A.begin(), A.end())));
        kv(e, " max=", A.off(etl::max_element(A.begin(), A.end())));
        kv(e, " sorted_until=", A.off(etl::is_sorted_until(A.begin(), A.end())));
        if (LB >= L) {
            SQ X("x", a, mode);
            TBuf<T> Y("y", b, mode);
            etl::swap_ranges(X.begin(), X.end(), Y.b());
            SQ X2("x2", a, mode);
            SQ Y2("y2", b, mode);
            etl::swap_ranges(X2.begin(), X2.end(), Y2.begin());
            e += " swap_ranges" + X.str() + zp(Y.b(), Y.n) + X2.str() + Y2.str();
        }
        {
            SQ X("x", a, mode);
            etl::reverse(X.begin(), X.end());
            SQ Y("y", a, mode);
            auto r = etl::rotate(Y.begin(), Y.at(m), Y.end());
            SQ Z("z", a, mode);
            etl::sort(Z.begin(), Z.end());
            SQ Z2("z2", a, mode);
            etl::stable_sort(Z2.begin(), Z2.end());
            SQ W("w", a, mode);
            auto rr = W.off(etl::remove(W.begin(), W.end(), v));
            SQ U("u", a, mode);
            etl::replace(U.begin(), U.end(), v, nv);
            SQ Q("q", a, mode);
            auto ru = Q.off(etl::unique(Q.begin(), Q.end()));
            e += " reverse" + X.str();
            kv(e, " rotate=", Y.off(r));
            e += Y.str() + " sort" + Z.str() + " stable_sort" + Z2.str();
            kv(e, " remove=", rr);
            {
                auto full = W.str();
                std::vector<T> keep;
                for (auto it = W.begin(); W.off(it) < rr; ++it) { keep.push_back(*it); }
                e += zv(keep) + (full.find('!') != std::string::npos ? full.substr(full.find('!')) : std::string());
            }
            e += " replace" + U.str();
            kv(e, " unique=", ru);
            {
                auto full = Q.str();
                std::vector<T> keep;
                for (auto it = Q.begin(); Q.off(it) < ru; ++it) { keep.push_back(*it); }
                e += zv(keep) + (full.find('!') != std::string::npos ? full.substr(full.find('!')) : std::string());
            }
            kv(e, " lb=", Z.off(etl::lower_bound(Z.begin(), Z.end(), v)));
            kv(e, " ub=", Z.off(etl::upper_bound(Z.begin(), Z.end(), v)));
        }
    }
    return tverdict(e, s);
}
template <typename K>
auto a_zoo_rev_schar(Case const& c) -> std::string { return zoo<signed char, 0>(c); }
template <typename K>
auto a_zoo_stride_schar(Case const& c) -> std::string { return zoo<signed char, 1>(c); }
template <typename K>
auto a_zoo_blocks_schar(Case const& c) -> std::string { return zoo<signed char, 2>(c); }
template <typename K>
auto a_zoo_rev_int(Case const& c) -> std::string { return zoo<int, 0>(c); }

} // namespace

auto table() -> std::vector<Entry> const&
{
    constexpr unsigned TY = D_B | D_VAL | D_LEN4;
    static std::vector<Entry> const t = {
        C06_REG(a_zoo_rev_schar, "zoo_reverse_iterator_signed_char", TY, KP),
        C06_REG(a_zoo_stride_schar, "zoo_stride2_signed_char", TY, KP),
        C06_REG(a_zoo_blocks_schar, "zoo_two_blocks_signed_char", TY, KP),
        C06_REG(a_zoo_rev_int, "zoo_reverse_iterator_int", TY, KP),
    };
    return t;
}

} // namespace c06

void vf_run(vf::Ctx& c) { c06::run_table(c); }
std::string vf_replay(std::string const& sub, std::string const& cs) { return c06::replay_table(sub, cs); }
