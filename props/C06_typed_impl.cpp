// C06 — shared implementation of the element-type checks (NOT a harness: #included by C06_types.cpp and C06_types2.cpp,
// which instantiate it for different element types so that the two halves compile in parallel).
#pragma once
#include "C06_common.cpp"

#include <etl/array.hpp>

#include <array>
#include <cmath>
#include <cstring>
#include <deque>
#include <limits>

namespace c06 {
namespace {

auto len(Case const& c) -> int { return static_cast<int>(c.a.size()); }
auto lenb(Case const& c) -> int { return static_cast<int>(c.b.size()); }
auto bs(bool v) -> std::string { return v ? "T" : "F"; }

// ================================================================== (1) element types
enum class SE : signed char { a = -3, b = 5, c = -128, d = 0 };

template <typename T, bool Nan>
auto tval(int key) -> T
{
    int k = key & 3;
    if constexpr (std::is_same_v<T, bool>) {
        return k == 1 || k == 2;
    } else if constexpr (std::is_same_v<T, SE>) {
        constexpr SE t[] = {SE::a, SE::b, SE::c, SE::d};
        return t[k];
    } else if constexpr (std::is_floating_point_v<T>) {
        // key 0 and 1 compare equal but differ in their bytes; NaN (equality-based checks only) has equal bytes but != itself
        T const t[] = {T(-0.0), T(0.0), Nan ? std::numeric_limits<T>::quiet_NaN() : T(-1.5), T(2.5)};
        return t[k];
    } else if constexpr (std::is_signed_v<T>) {
        constexpr int t[] = {-3, 5, -128, 0};
        return static_cast<T>(t[k]);
    } else {
        constexpr int t[] = {0xFD, 5, 0x80, 0};
        return static_cast<T>(t[k]);
    }
}
template <typename T>
auto t1(T v) -> std::string
{
    if constexpr (std::is_floating_point_v<T>) {
        if (std::isnan(v)) { return "nan"; }
        char buf[40];
        std::snprintf(buf, sizeof buf, "%.9g", static_cast<double>(v)); // prints the sign of a zero
        return buf;
    } else if constexpr (std::is_enum_v<T>) {
        return std::to_string(static_cast<int>(v));
    } else {
        return std::to_string(static_cast<int>(v));
    }
}
template <typename T>
auto tv(T const* p, int n) -> std::string
{
    std::string s = "[";
    for (int i = 0; i < n; ++i) { s += (i != 0 ? " " : "") + t1(p[i]); }
    return s + "]";
}
template <typename C>
auto tv(C const& v) -> std::string
{
    std::string s = "[";
    for (std::size_t i = 0; i < v.size(); ++i) { s += (i != 0 ? " " : "") + t1(v[i]); }
    return s + "]";
}

template <typename T>
using Vec = std::conditional_t<std::is_same_v<T, bool>, std::deque<bool>, std::vector<T>>; // no vector<bool> proxies
std::vector<std::function<std::string()>>& tguards()
{
    static std::vector<std::function<std::string()>> v;
    return v;
}
// exact-size heap block (mode 0) or payload between two 64-byte guard zones filled with 0xA5 (mode 1)
template <typename T>
struct TBuf {
    char const* name;
    unsigned char* raw{nullptr};
    int n{0};
    std::size_t padb{0};
    template <typename C>
    TBuf(char const* nm, C const& init, int mode) : name{nm}, n{static_cast<int>(init.size())}, padb{mode == 0 ? 0U : 64U}
    {
        raw = static_cast<unsigned char*>(::operator new(static_cast<std::size_t>(n) * sizeof(T) + 2 * padb));
        std::memset(raw, 0xA5, padb);
        for (int i = 0; i < n; ++i) { new (b() + i) T(init[static_cast<std::size_t>(i)]); }
        std::memset(raw + padb + static_cast<std::size_t>(n) * sizeof(T), 0xA5, padb);
        tguards().push_back([this] { return guards(); });
    }
    ~TBuf()
    {
        tguards().pop_back();
        ::operator delete(raw);
    }
    TBuf(TBuf const&)                    = delete;
    auto operator=(TBuf const&) -> TBuf& = delete;
    [[nodiscard]] auto b() const -> T* { return reinterpret_cast<T*>(raw + padb); }
    [[nodiscard]] auto e() const -> T* { return b() + n; }
    [[nodiscard]] auto guards() const -> std::string
    {
        for (std::size_t i = 0; i < padb; ++i) {
            if (raw[i] != 0xA5) { return std::string("a byte before buffer '") + name + "' was overwritten"; }
            if (raw[padb + static_cast<std::size_t>(n) * sizeof(T) + i] != 0xA5) { return std::string("a byte past buffer '") + name + "' (" + num(n) + " elements) was overwritten"; }
        }
        return "";
    }
    [[nodiscard]] auto str() const -> std::string { return tv(b(), n); }
};
auto tverdict(std::string const& e, std::string const& s) -> std::string
{
    for (auto const& gfn : tguards()) {
        auto gd = gfn();
        if (!gd.empty()) { return "out of range: " + gd + "; etl gave " + e + ", std gives " + s; }
    }
    return verdict(e, s);
}

// One case = (a, b, value key); every algorithm of the family runs on fresh copies.  `Ord` = the type's operator< is a
// strict weak order on the generated values (false for the NaN variant).
// non-template rendering helpers (keep the per-type instantiations of typed() small)
void kv(std::string& o, char const* k, long v)
{
    o += k;
    o += std::to_string(v);
}
void kb(std::string& o, char const* k, bool v)
{
    o += k;
    o += v ? 'T' : 'F';
}
void ks(std::string& o, char const* k, std::string const& v)
{
    o += k;
    o += v;
}
template <typename T, bool Nan>
auto typed(Case const& c) -> std::string
{
    constexpr bool Ord = !Nan;
    constexpr bool Flt = std::is_floating_point_v<T>;
    int const L  = len(c);
    int const LB = lenb(c);
    int const m  = L == 0 ? 0 : c.val % (L + 1);
    Vec<T> a;
    Vec<T> b;
    for (int k : c.a) { a.push_back(tval<T, Nan>(k)); }
    for (int k : c.b) { b.push_back(tval<T, Nan>(k)); }
    T const v  = tval<T, Nan>(c.val);
    T const nv = tval<T, Nan>(c.val + 1);
    auto const sa = [&] { // sorted copies for the algorithms that need sorted input
        auto x = a;
        if constexpr (Ord) { std::stable_sort(x.begin(), x.end()); }
        return x;
    }();
    auto const sb = [&] {
        auto x = b;
        if constexpr (Ord) { std::stable_sort(x.begin(), x.end()); }
        return x;
    }();
    std::string s;
    std::string e;
    auto const mode = c.pad;

    // ---------------------------------------------------------------- std
    {
        auto f = a.begin();
        auto l = a.end();
        kb(s, "eq4=", std::equal(f, l, b.begin(), b.end()));
        if (LB >= L) { s += " eq3=" + bs(std::equal(f, l, b.begin())) + " mm3=" + num(std::mismatch(f, l, b.begin()).first - f); }
        auto mm = std::mismatch(f, l, b.begin(), b.end());
        kv(s, " mm4=", mm.first - f);
        kv(s, ",", mm.second - b.begin());
        kv(s, " find=", std::find(f, l, v) - f);
        kv(s, " count=", std::count(f, l, v));
        kv(s, " search=", std::search(f, l, b.begin(), b.end()) - f);
        kv(s, " find_end=", std::find_end(f, l, b.begin(), b.end()) - f);
        kv(s, " ffo=", std::find_first_of(f, l, b.begin(), b.end()) - f);
        kv(s, " adj=", std::adjacent_find(f, l) - f);
        kv(s, " searchn=", std::search_n(f, l, 2, v) - f);
        if constexpr (!Nan) { s += " perm=" + bs(std::is_permutation(f, l, b.begin(), b.end())); } // needs == to be an equivalence relation
        {
            auto x = a;
            auto r = std::remove(x.begin(), x.end(), v) - x.begin();
            x.resize(static_cast<std::size_t>(r));
            kv(s, " remove=", r);
            ks(s, "", tv(x));
        }
        {
            auto x = a;
            std::replace(x.begin(), x.end(), v, nv);
            ks(s, " replace", tv(x));
        }
        if constexpr (!Nan) { // unique / unique_copy need an equivalence relation
            auto x = a;
            auto r = std::unique(x.begin(), x.end()) - x.begin();
            x.resize(static_cast<std::size_t>(r));
            kv(s, " unique=", r);
            ks(s, "", tv(x));
        }
        {
            Vec<T> d(a.size(), nv);
            auto r = std::remove_copy(f, l, d.begin(), v) - d.begin();
            d.resize(static_cast<std::size_t>(r));
            kv(s, " remove_copy=", r);
            ks(s, "", tv(d));
            if constexpr (!Nan) {
                Vec<T> u(a.size(), nv);
                auto r2 = std::unique_copy(f, l, u.begin()) - u.begin();
                u.resize(static_cast<std::size_t>(r2));
                kv(s, " unique_copy=", r2);
                ks(s, "", tv(u));
            }
        }
        {
            Vec<T> d1(a.size(), nv);
            Vec<T> d2(a.size(), nv);
            Vec<T> d3(a.size(), nv);
            Vec<T> d4(a.size(), nv);
            Vec<T> d5(a.size(), nv);
            Vec<T> d6(a.size(), nv);
            auto r1 = std::copy(f, l, d1.begin()) - d1.begin();
            auto r2 = std::copy_n(f, m, d2.begin()) - d2.begin();
            auto r3 = std::copy_backward(f, l, d3.end()) - d3.begin();
            auto r4 = std::move(f, l, d4.begin()) - d4.begin();
            auto r5 = std::reverse_copy(f, l, d5.begin()) - d5.begin();
            auto r6 = std::rotate_copy(f, f + m, l, d6.begin()) - d6.begin();
            kv(s, " copy=", r1);
            ks(s, "", tv(d1));
            kv(s, " copy_n=", r2);
            ks(s, "", tv(d2));
            kv(s, " copy_backward=", r3);
            ks(s, "", tv(d3));
            kv(s, " move=", r4);
            ks(s, "", tv(d4));
            kv(s, " reverse_copy=", r5);
            ks(s, "", tv(d5));
            kv(s, " rotate_copy=", r6);
            ks(s, "", tv(d6));
        }
        {
            auto x = a;
            std::fill(x.begin(), x.end(), v);
            auto y = a;
            auto r = std::fill_n(y.begin(), m, v) - y.begin();
            ks(s, " fill", tv(x));
            kv(s, " fill_n=", r);
            ks(s, "", tv(y));
        }
        {
            auto x = a;
            std::reverse(x.begin(), x.end());
            auto y = a;
            auto r = std::rotate(y.begin(), y.begin() + m, y.end()) - y.begin();
            auto z = a;
            auto r2 = std::copy(z.begin() + m, z.end(), z.begin()) - z.begin(); // overlapping copy to the left (memmove territory)
            auto w  = a;
            auto r3 = std::move_backward(w.begin(), w.end() - m, w.end()) - w.begin();
            ks(s, " reverse", tv(x));
            kv(s, " rotate=", r);
            ks(s, "", tv(y));
            kv(s, " copy_left=", r2);
            ks(s, "", tv(z));
            kv(s, " move_backward=", r3);
            ks(s, "", tv(w));
        }
        if (LB >= L) {
            auto x = a;
            auto y = b;
            std::swap_ranges(x.begin(), x.end(), y.begin());
            ks(s, " swap_ranges", tv(x));
            ks(s, "", tv(y));
        }
        if constexpr (Ord) {
            kb(s, " lex=", std::lexicographical_compare(f, l, b.begin(), b.end()));
            kb(s, "", std::lexicographical_compare(b.begin(), b.end(), f, l));
            kv(s, " min=", std::min_element(f, l) - f);
            kv(s, " max=", std::max_element(f, l) - f);
            auto mme = std::minmax_element(f, l);
            kv(s, " minmax=", mme.first - f);
            kv(s, ",", mme.second - f);
            kv(s, " sorted_until=", std::is_sorted_until(f, l) - f);
            kb(s, " is_sorted=", std::is_sorted(f, l));
            {
                auto x = a;
                std::stable_sort(x.begin(), x.end());
                ks(s, " stable_sort", tv(x));
                if constexpr (!Flt) { // equivalent integral values are identical, so any correct sort gives the same array
                    ks(s, " sort", tv(x));
                    ks(s, " nth=", (m >= L ? std::string("-") : t1(T(x[static_cast<std::size_t>(m)]))));
                }
            }
            kv(s, " lb=", std::lower_bound(sa.begin(), sa.end(), v) - sa.begin());
            kv(s, " ub=", std::upper_bound(sa.begin(), sa.end(), v) - sa.begin());
            kb(s, " bin=", std::binary_search(sa.begin(), sa.end(), v));
            kb(s, " includes=", std::includes(sa.begin(), sa.end(), sb.begin(), sb.end()));
            {
                Vec<T> d(sa.size() + sb.size(), nv);
                auto r = std::merge(sa.begin(), sa.end(), sb.begin(), sb.end(), d.begin()) - d.begin();
                kv(s, " merge=", r);
                ks(s, "", tv(d));
                Vec<T> u(sa.size() + sb.size(), nv);
                auto r2 = std::set_union(sa.begin(), sa.end(), sb.begin(), sb.end(), u.begin()) - u.begin();
                u.resize(static_cast<std::size_t>(r2));
                kv(s, " set_union=", r2);
                ks(s, "", tv(u));
            }
            if (L >= 1) { s += " clamp=" + t1(std::clamp(T(a[0]), std::min(v, nv), std::max(v, nv))) + " min2=" + t1(std::min(T(a[0]), v)) + " max2=" + t1(std::max(T(a[0]), v)); }
        }
        if (L == 3 && LB == 3) {
            std::array<T, 3> x{a[0], a[1], a[2]};
            std::array<T, 3> y{b[0], b[1], b[2]};
            kb(s, " array:", x == y);
            kb(s, "", x != y);
            if constexpr (Ord) { s += bs(x < y) + bs(x <= y) + bs(x > y) + bs(x >= y); }
        }
        if (L == 2 && LB == 2) {
            std::array<T, 2> x{a[0], a[1]};
            std::array<T, 2> y{b[0], b[1]};
            kb(s, " array:", x == y);
            kb(s, "", x != y);
            if constexpr (Ord) { s += bs(x < y) + bs(x <= y) + bs(x > y) + bs(x >= y); }
        }
    }
    // ---------------------------------------------------------------- etl (raw pointers)
    {
        TBuf<T> A("a", a, mode);
        TBuf<T> B("b", b, mode);
        TBuf<T> SA("sorted_a", sa, mode);
        TBuf<T> SB("sorted_b", sb, mode);
        Scope sc;
        T* f  = A.b();
        T* l  = A.e();
        T* f2 = B.b();
        T* l2 = B.e();
        kb(e, "eq4=", etl::equal(f, l, f2, l2));
        if (LB >= L) { e += " eq3=" + bs(etl::equal(f, l, f2)) + " mm3=" + num(etl::mismatch(f, l, f2).first - f); }
        auto mm = etl::mismatch(f, l, f2, l2);
        kv(e, " mm4=", mm.first - f);
        kv(e, ",", mm.second - f2);
        kv(e, " find=", etl::find(f, l, v) - f);
        kv(e, " count=", etl::count(f, l, v));
        kv(e, " search=", etl::search(f, l, f2, l2) - f);
        kv(e, " find_end=", etl::find_end(f, l, f2, l2) - f);
        kv(e, " ffo=", etl::find_first_of(f, l, f2, l2) - f);
        kv(e, " adj=", etl::adjacent_find(f, l) - f);
        kv(e, " searchn=", etl::search_n(f, l, 2, v) - f);
        if constexpr (!Nan) { e += " perm=" + bs(etl::is_permutation(f, l, f2, l2)); }
        {
            TBuf<T> X("x", a, mode);
            auto r = etl::remove(X.b(), X.e(), v) - X.b();
            kv(e, " remove=", r);
            ks(e, "", tv(X.b(), static_cast<int>(r)));
        }
        {
            TBuf<T> X("x", a, mode);
            etl::replace(X.b(), X.e(), v, nv);
            ks(e, " replace", X.str());
        }
        if constexpr (!Nan) {
            TBuf<T> X("x", a, mode);
            auto r = etl::unique(X.b(), X.e()) - X.b();
            kv(e, " unique=", r);
            ks(e, "", tv(X.b(), static_cast<int>(r)));
        }
        {
            auto keep = static_cast<std::size_t>(L - std::count(a.begin(), a.end(), v));
            TBuf<T> D("remove_copy_dest", Vec<T>(keep, nv), mode);
            auto r = etl::remove_copy(f, l, D.b(), v) - D.b();
            kv(e, " remove_copy=", r);
            ks(e, "", D.str());
            if constexpr (!Nan) {
                auto x  = a;
                auto ul = static_cast<std::size_t>(std::unique(x.begin(), x.end()) - x.begin());
                TBuf<T> U("unique_copy_dest", Vec<T>(ul, nv), mode);
                auto r2 = etl::unique_copy(f, l, U.b()) - U.b();
                kv(e, " unique_copy=", r2);
                ks(e, "", U.str());
            }
        }
        {
            TBuf<T> D1("d1", Vec<T>(a.size(), nv), mode);
            TBuf<T> D2("d2", Vec<T>(a.size(), nv), mode);
            TBuf<T> D3("d3", Vec<T>(a.size(), nv), mode);
            TBuf<T> D4("d4", Vec<T>(a.size(), nv), mode);
            TBuf<T> D5("d5", Vec<T>(a.size(), nv), mode);
            TBuf<T> D6("d6", Vec<T>(a.size(), nv), mode);
            auto r1 = etl::copy(f, l, D1.b()) - D1.b();
            auto r2 = etl::copy_n(f, m, D2.b()) - D2.b();
            auto r3 = etl::copy_backward(f, l, D3.e()) - D3.b();
            auto r4 = etl::move(f, l, D4.b()) - D4.b();
            auto r5 = etl::reverse_copy(f, l, D5.b()) - D5.b();
            auto r6 = etl::rotate_copy(f, f + m, l, D6.b()) - D6.b();
            kv(e, " copy=", r1);
            ks(e, "", D1.str());
            kv(e, " copy_n=", r2);
            ks(e, "", D2.str());
            kv(e, " copy_backward=", r3);
            ks(e, "", D3.str());
            kv(e, " move=", r4);
            ks(e, "", D4.str());
            kv(e, " reverse_copy=", r5);
            ks(e, "", D5.str());
            kv(e, " rotate_copy=", r6);
            ks(e, "", D6.str());
        }
        {
            TBuf<T> X("x", a, mode);
            etl::fill(X.b(), X.e(), v);
            TBuf<T> Y("y", a, mode);
            auto r = etl::fill_n(Y.b(), m, v) - Y.b();
            ks(e, " fill", X.str());
            kv(e, " fill_n=", r);
            ks(e, "", Y.str());
        }
        {
            TBuf<T> X("x", a, mode);
            etl::reverse(X.b(), X.e());
            TBuf<T> Y("y", a, mode);
            auto r = etl::rotate(Y.b(), Y.b() + m, Y.e()) - Y.b();
            TBuf<T> Z("z", a, mode);
            auto r2 = etl::copy(Z.b() + m, Z.e(), Z.b()) - Z.b();
            TBuf<T> W("w", a, mode);
            auto r3 = etl::move_backward(W.b(), W.e() - m, W.e()) - W.b();
            ks(e, " reverse", X.str());
            kv(e, " rotate=", r);
            ks(e, "", Y.str());
            kv(e, " copy_left=", r2);
            ks(e, "", Z.str());
            kv(e, " move_backward=", r3);
            ks(e, "", W.str());
        }
        if (LB >= L) {
            TBuf<T> X("x", a, mode);
            TBuf<T> Y("y", b, mode);
            etl::swap_ranges(X.b(), X.e(), Y.b());
            ks(e, " swap_ranges", X.str());
            ks(e, "", Y.str());
        }
        if constexpr (Ord) {
            kb(e, " lex=", etl::lexicographical_compare(f, l, f2, l2));
            kb(e, "", etl::lexicographical_compare(f2, l2, f, l));
            kv(e, " min=", etl::min_element(f, l) - f);
            kv(e, " max=", etl::max_element(f, l) - f);
            auto mme = etl::minmax_element(f, l);
            kv(e, " minmax=", mme.first - f);
            kv(e, ",", mme.second - f);
            kv(e, " sorted_until=", etl::is_sorted_until(f, l) - f);
            kb(e, " is_sorted=", etl::is_sorted(f, l));
            {
                TBuf<T> X("x", a, mode);
                etl::stable_sort(X.b(), X.e());
                ks(e, " stable_sort", X.str());
                if constexpr (!Flt) {
                    TBuf<T> Y("y", a, mode);
                    etl::sort(Y.b(), Y.e());
                    TBuf<T> Z("z", a, mode);
                    etl::nth_element(Z.b(), Z.b() + m, Z.e());
                    ks(e, " sort", Y.str());
                    ks(e, " nth=", (m >= L ? std::string("-") : t1(Z.b()[m]))); // nth == last: nothing is specified
                }
            }
            kv(e, " lb=", etl::lower_bound(SA.b(), SA.e(), v) - SA.b());
            kv(e, " ub=", etl::upper_bound(SA.b(), SA.e(), v) - SA.b());
            kb(e, " bin=", etl::binary_search(SA.b(), SA.e(), v));
            kb(e, " includes=", etl::includes(SA.b(), SA.e(), SB.b(), SB.e()));
            {
                TBuf<T> D("merge_dest", Vec<T>(sa.size() + sb.size(), nv), mode);
                auto r = etl::merge(SA.b(), SA.e(), SB.b(), SB.e(), D.b()) - D.b();
                kv(e, " merge=", r);
                ks(e, "", D.str());
                Vec<T> u(sa.size() + sb.size(), nv);
                auto ul = static_cast<std::size_t>(std::set_union(sa.begin(), sa.end(), sb.begin(), sb.end(), u.begin()) - u.begin());
                TBuf<T> U("set_union_dest", Vec<T>(ul, nv), mode);
                auto r2 = etl::set_union(SA.b(), SA.e(), SB.b(), SB.e(), U.b()) - U.b();
                kv(e, " set_union=", r2);
                ks(e, "", U.str());
            }
            if (L >= 1) { e += " clamp=" + t1(T(etl::clamp(f[0], etl::min(v, nv), etl::max(v, nv)))) + " min2=" + t1(T(etl::min(f[0], v))) + " max2=" + t1(T(etl::max(f[0], v))); }
        }
        if (L == 3 && LB == 3) {
            etl::array<T, 3> x{a[0], a[1], a[2]};
            etl::array<T, 3> y{b[0], b[1], b[2]};
            kb(e, " array:", x == y);
            kb(e, "", x != y);
            if constexpr (Ord) { e += bs(x < y) + bs(x <= y) + bs(x > y) + bs(x >= y); }
        }
        if (L == 2 && LB == 2) {
            etl::array<T, 2> x{a[0], a[1]};
            etl::array<T, 2> y{b[0], b[1]};
            kb(e, " array:", x == y);
            kb(e, "", x != y);
            if constexpr (Ord) { e += bs(x < y) + bs(x <= y) + bs(x > y) + bs(x >= y); }
        }
    }
    return tverdict(e, s);
}
} // namespace
} // namespace c06
