// C06 (part 2/6) — order-related non-modifying operations of etl/algorithm.hpp against std:: on a copy.
// Engine E2 (exhaustive small-scope enumeration) + seeded random longer inputs.  See C06_common.cpp.
//
// Covered here: min max minmax clamp (+-comp; identity of the returned reference), min_element max_element
// minmax_element, is_sorted is_sorted_until, is_partitioned partition_point, lower_bound upper_bound equal_range
// binary_search (+-comp, heterogeneous value), includes.
#include "C06_common.cpp"

namespace c06 {
namespace {

auto len(Case const& c) -> int { return static_cast<int>(c.a.size()); }
auto lenb(Case const& c) -> int { return static_cast<int>(c.b.size()); }
auto bs(bool v) -> std::string { return v ? "true" : "false"; }

// ------------------------------------------------------------------ min / max / minmax: WHICH argument is returned
template <typename K>
auto a_minmax(Case const& c) -> std::string
{
    if (len(c) != 2) { return SKIP; }
    V a = mk(c.a, 0);
    auto idx = [&](Elem const& r) { return num(&r - a.data()); };
    std::string s;
    if (c.cmp == 0) {
        auto mm = std::minmax(a[0], a[1]);
        s       = idx(std::min(a[0], a[1])) + "," + idx(std::max(a[0], a[1])) + "," + idx(mm.first) + "," + idx(mm.second);
    } else {
        auto mm = std::minmax(a[0], a[1], Cmp{c.cmp});
        s       = idx(std::min(a[0], a[1], Cmp{c.cmp})) + "," + idx(std::max(a[0], a[1], Cmp{c.cmp})) + "," + idx(mm.first) + "," + idx(mm.second);
    }
    Buf A("a", a, c.pad, padn(c));
    auto eidx = [&](Elem const& r) { return num(&r - A.b()); };
    std::string e;
    {
        Scope sc;
        Elem const& x = A.b()[0];
        Elem const& y = A.b()[1];
        if (c.cmp == 0) {
            auto mm = etl::minmax(x, y);
            e       = eidx(etl::min(x, y)) + "," + eidx(etl::max(x, y)) + "," + eidx(mm.first) + "," + eidx(mm.second);
        } else {
            auto mm = etl::minmax(x, y, Cmp{c.cmp});
            e       = eidx(etl::min(x, y, Cmp{c.cmp})) + "," + eidx(etl::max(x, y, Cmp{c.cmp})) + "," + eidx(mm.first) + "," + eidx(mm.second);
        }
    }
    return verdict(e, s);
}
template <typename K>
auto a_clamp(Case const& c) -> std::string
{
    if (len(c) != 3) { return SKIP; }
    if (cmp_eval(c.cmp, c.a[2], c.a[1])) { return SKIP; } // [alg.clamp] precondition: !(hi < lo);  a = {v, lo, hi}
    V a = mk(c.a, 0);
    auto s = num(&(c.cmp == 0 ? std::clamp(a[0], a[1], a[2]) : std::clamp(a[0], a[1], a[2], Cmp{c.cmp})) - a.data());
    Buf A("a", a, c.pad, padn(c));
    std::string e;
    {
        Scope sc;
        Elem const& v  = A.b()[0];
        Elem const& lo = A.b()[1];
        Elem const& hi = A.b()[2];
        e              = num(&(c.cmp == 0 ? etl::clamp(v, lo, hi) : etl::clamp(v, lo, hi, Cmp{c.cmp})) - A.b());
    }
    return verdict(e, s);
}

// ------------------------------------------------------------------ min_element / max_element / minmax_element
template <typename K>
auto a_elements(Case const& c) -> std::string
{
    V a = mk(c.a, 0);
    std::string s;
    if (c.cmp == 0) {
        auto mm = std::minmax_element(a.begin(), a.end());
        s       = num(std::min_element(a.begin(), a.end()) - a.begin()) + "," + num(std::max_element(a.begin(), a.end()) - a.begin()) + "," + num(mm.first - a.begin()) + "," + num(mm.second - a.begin());
    } else {
        auto mm = std::minmax_element(a.begin(), a.end(), Cmp{c.cmp});
        s       = num(std::min_element(a.begin(), a.end(), Cmp{c.cmp}) - a.begin()) + "," + num(std::max_element(a.begin(), a.end(), Cmp{c.cmp}) - a.begin()) + "," + num(mm.first - a.begin()) + "," + num(mm.second - a.begin());
    }
    Buf A("a", a, c.pad, padn(c));
    std::string e;
    {
        Scope sc;
        auto f = at<K>(A, 0);
        auto l = at<K>(A, len(c));
        if (c.cmp == 0) {
            auto mm = etl::minmax_element(f, l);
            e       = num(off(A, etl::min_element(f, l))) + "," + num(off(A, etl::max_element(f, l))) + "," + num(off(A, mm.first)) + "," + num(off(A, mm.second));
        } else {
            auto mm = etl::minmax_element(f, l, Cmp{c.cmp});
            e       = num(off(A, etl::min_element(f, l, Cmp{c.cmp}))) + "," + num(off(A, etl::max_element(f, l, Cmp{c.cmp}))) + "," + num(off(A, mm.first)) + "," + num(off(A, mm.second));
        }
    }
    return verdict(e, s);
}

// ------------------------------------------------------------------ is_sorted / is_sorted_until
template <typename K>
auto a_is_sorted(Case const& c) -> std::string
{
    V a = mk(c.a, 0);
    auto s = c.cmp == 0 ? bs(std::is_sorted(a.begin(), a.end())) + "," + num(std::is_sorted_until(a.begin(), a.end()) - a.begin())
                        : bs(std::is_sorted(a.begin(), a.end(), Cmp{c.cmp})) + "," + num(std::is_sorted_until(a.begin(), a.end(), Cmp{c.cmp}) - a.begin());
    Buf A("a", a, c.pad, padn(c));
    std::string e;
    {
        Scope sc;
        auto f = at<K>(A, 0);
        auto l = at<K>(A, len(c));
        e      = c.cmp == 0 ? bs(etl::is_sorted(f, l)) + "," + num(off(A, etl::is_sorted_until(f, l))) : bs(etl::is_sorted(f, l, Cmp{c.cmp})) + "," + num(off(A, etl::is_sorted_until(f, l, Cmp{c.cmp})));
    }
    return verdict(e, s);
}

// ------------------------------------------------------------------ is_partitioned / partition_point
template <typename K>
auto a_is_partitioned(Case const& c) -> std::string
{
    V a = mk(c.a, 0);
    auto s = bs(std::is_partitioned(a.begin(), a.end(), Pred{c.pred}));
    Buf A("a", a, c.pad, padn(c));
    std::string e;
    {
        Scope sc;
        e = bs(etl::is_partitioned(at<K>(A, 0), at<K>(A, len(c)), Pred{c.pred}));
    }
    return verdict(e, s);
}
template <typename K>
auto a_partition_point(Case const& c) -> std::string
{
    V a = mk(c.a, 0); // partitioned by construction (D_APART)
    auto s = num(std::partition_point(a.begin(), a.end(), Pred{c.pred}) - a.begin());
    Buf A("a", a, c.pad, padn(c));
    std::string e;
    {
        Scope sc;
        e = num(off(A, etl::partition_point(at<K>(A, 0), at<K>(A, len(c)), Pred{c.pred})));
    }
    return verdict(e, s);
}

// ------------------------------------------------------------------ binary searches on sorted input (D_ASORT)
template <typename K>
auto a_bounds(Case const& c) -> std::string
{
    V a = mk(c.a, 0);
    Elem v{c.val, 900};
    std::string s;
    if (c.cmp == 0) {
        auto er = std::equal_range(a.begin(), a.end(), v);
        s       = num(std::lower_bound(a.begin(), a.end(), v) - a.begin()) + "," + num(std::upper_bound(a.begin(), a.end(), v) - a.begin()) + "," + num(er.first - a.begin()) + "," + num(er.second - a.begin()) + ","
          + bs(std::binary_search(a.begin(), a.end(), v));
    } else {
        auto er = std::equal_range(a.begin(), a.end(), v, Cmp{c.cmp});
        s       = num(std::lower_bound(a.begin(), a.end(), v, Cmp{c.cmp}) - a.begin()) + "," + num(std::upper_bound(a.begin(), a.end(), v, Cmp{c.cmp}) - a.begin()) + "," + num(er.first - a.begin()) + "," + num(er.second - a.begin())
          + "," + bs(std::binary_search(a.begin(), a.end(), v, Cmp{c.cmp}));
    }
    Buf A("a", a, c.pad, padn(c));
    std::string e;
    {
        Scope sc;
        auto f = at<K>(A, 0);
        auto l = at<K>(A, len(c));
        if (c.cmp == 0) {
            auto er = etl::equal_range(f, l, v);
            e       = num(off(A, etl::lower_bound(f, l, v))) + "," + num(off(A, etl::upper_bound(f, l, v))) + "," + num(off(A, er.first)) + "," + num(off(A, er.second)) + "," + bs(etl::binary_search(f, l, v));
        } else {
            auto er = etl::equal_range(f, l, v, Cmp{c.cmp});
            e = num(off(A, etl::lower_bound(f, l, v, Cmp{c.cmp}))) + "," + num(off(A, etl::upper_bound(f, l, v, Cmp{c.cmp}))) + "," + num(off(A, er.first)) + "," + num(off(A, er.second)) + "," + bs(etl::binary_search(f, l, v, Cmp{c.cmp}));
        }
    }
    return verdict(e, s);
}
// heterogeneous value: the comparator is applied to (element, int) and (int, element)
template <typename K>
auto a_bounds_het(Case const& c) -> std::string
{
    V a    = mk(c.a, 0);
    int v  = c.val;
    auto er = std::equal_range(a.begin(), a.end(), v, Cmp{c.cmp});
    auto s  = num(std::lower_bound(a.begin(), a.end(), v, Cmp{c.cmp}) - a.begin()) + "," + num(std::upper_bound(a.begin(), a.end(), v, Cmp{c.cmp}) - a.begin()) + "," + num(er.first - a.begin()) + "," + num(er.second - a.begin()) + ","
           + bs(std::binary_search(a.begin(), a.end(), v, Cmp{c.cmp}));
    Buf A("a", a, c.pad, padn(c));
    std::string e;
    {
        Scope sc;
        auto f   = at<K>(A, 0);
        auto l   = at<K>(A, len(c));
        auto ee  = etl::equal_range(f, l, v, Cmp{c.cmp});
        e        = num(off(A, etl::lower_bound(f, l, v, Cmp{c.cmp}))) + "," + num(off(A, etl::upper_bound(f, l, v, Cmp{c.cmp}))) + "," + num(off(A, ee.first)) + "," + num(off(A, ee.second)) + "," + bs(etl::binary_search(f, l, v, Cmp{c.cmp}));
    }
    return verdict(e, s);
}

// ------------------------------------------------------------------ includes (both ranges sorted by the comparator)
template <typename K>
auto a_includes(Case const& c) -> std::string
{
    V a = mk(c.a, 0);
    V b = mk(c.b, 100);
    auto s = bs(c.cmp == 0 ? std::includes(a.begin(), a.end(), b.begin(), b.end()) : std::includes(a.begin(), a.end(), b.begin(), b.end(), Cmp{c.cmp}));
    Buf A("a", a, c.pad, padn(c));
    Buf B("b", b, c.pad, padn(c));
    std::string e;
    {
        Scope sc;
        e = bs(c.cmp == 0 ? etl::includes(at<K>(A, 0), at<K>(A, len(c)), at2<K>(B, 0), at2<K>(B, lenb(c))) : etl::includes(at<K>(A, 0), at<K>(A, len(c)), at2<K>(B, 0), at2<K>(B, lenb(c)), Cmp{c.cmp}));
    }
    return verdict(e, s);
}

} // namespace

auto table() -> std::vector<Entry> const&
{
    static std::vector<Entry> const t = {
        C06_REG(a_minmax, "min_max_minmax", D_CMP | D_SMALL, KP),
        C06_REG(a_clamp, "clamp", D_CMP | D_SMALL, KP),
        C06_REG(a_elements, "min_max_minmax_element", D_CMP | D_LONG, KP),
        C06_REG(a_elements, "min_max_minmax_element", D_CMP | D_LONG, KF),
        C06_REG(a_is_sorted, "is_sorted_is_sorted_until", D_CMP | D_LONG, KP),
        C06_REG(a_is_sorted, "is_sorted_is_sorted_until", D_CMP | D_LONG, KF),
        C06_REG(a_is_partitioned, "is_partitioned", D_PRED | D_LONG, KP),
        C06_REG(a_is_partitioned, "is_partitioned", D_PRED | D_LONG, KI),
        C06_REG(a_partition_point, "partition_point", D_PRED | D_APART | D_LONG, KP),
        C06_REG(a_partition_point, "partition_point", D_PRED | D_APART | D_LONG, KF),
        C06_REG(a_bounds, "lower_upper_bound_equal_range_binary_search", D_CMP | D_ASORT | D_VAL | D_LONG, KP),
        C06_REG(a_bounds, "lower_upper_bound_equal_range_binary_search", D_CMP | D_ASORT | D_VAL | D_LONG, KF),
        C06_REG(a_bounds_het, "bounds_heterogeneous_value", D_CMP | D_ASORT | D_VAL | D_LONG, KP),
        C06_REG(a_bounds_het, "bounds_heterogeneous_value", D_CMP | D_ASORT | D_VAL | D_LONG, KF),
        C06_REG(a_includes, "includes", D_CMP | D_ASORT | D_BSORT | D_B | D_LONG, KP),
        C06_REG(a_includes, "includes", D_CMP | D_ASORT | D_BSORT | D_B | D_LONG, KI),
        C06_REG(a_includes, "includes", D_CMP | D_ASORT | D_BSORT | D_B | D_LONG, Kpi),
        C06_REG(a_includes, "includes", D_CMP | D_ASORT | D_BSORT | D_B | D_LONG, Kip),
        C06_REG(a_includes, "includes", D_CMP | D_ASORT | D_BSORT | D_B | D_LONG, Kfi),
        C06_REG(a_includes, "includes", D_CMP | D_ASORT | D_BSORT | D_B | D_LONG, Kpf),
        C06_REG(a_includes, "includes", D_CMP | D_ASORT | D_BSORT | D_B | D_LONG, Kbp),
    };
    return t;
}

} // namespace c06

void vf_run(vf::Ctx& c) { c06::run_table(c); }
std::string vf_replay(std::string const& sub, std::string const& cs) { return c06::replay_table(sub, cs); }
