// C06 (part 2/6) — order-related non-modifying operations of etl/algorithm.hpp against std:: on a copy.
// Engine E2 (exhaustive small-scope enumeration) + seeded random longer inputs.  See C06_common.cpp.
//
// Covered here: min max minmax clamp (+-comp; identity of the returned reference), min_element max_element
// minmax_element, is_sorted is_sorted_until, is_partitioned partition_point, lower_bound upper_bound equal_range
// binary_search (+-comp, heterogeneous value), includes.
#include "C06_common.cpp"

namespace c06 {
namespace {

auto len(Case const& c) -> int { return static_cast<int>(c.a.size()); }
auto lenb(Case const& c) -> int { return static_cast<int>(c.b.size()); }
auto bs(bool v) -> std::string { return v ? "true" : "false"; }

// ------------------------------------------------------------------ min / max / minmax: WHICH argument is returned
template <typename K>
auto a_minmax(Case const& c) -> std::string
{
    if (len(c) != 2) { return SKIP; }
    V a = mk(c.a, 0);
    auto idx = [&](Elem const& r) { return num(&r - a.data()); };
    std::string s;
    if (c.cmp == 0) {
        auto mm = std::minmax(a[0], a[1]);
        s       = idx(std::min(a[0], a[1])) + "," + idx(std::max(a[0], a[1])) + "," + idx(mm.first) + "," + idx(mm.second);
    } else {
        auto mm = std::minmax(a[0], a[1], Cmp{c.cmp});
        s       = idx(std::min(a[0], a[1], Cmp{c.cmp})) + "," + idx(std::max(a[0], a[1], Cmp{c.cmp})) + "," + idx(mm.first) + "," + idx(mm.second);
    }
    Buf A("a", a, c.pad, padn(c));
    auto eidx = [&](Elem const& r) { return num(&r - A.b()); };
    std::string e;
    {
        Scope sc;
        Elem const& x = A.b()[0];
        Elem const& y = A.b()[1];
        if (c.cmp == 0) {
            auto mm = etl::minmax(x, y);
            e       = eidx(etl::min(x, y)) + "," + eidx(etl::max(x, y)) + "," + eidx(mm.first) + "," + eidx(mm.second);
        } else {
            auto mm = etl::minmax(x, y, Cmp{c.cmp});
            e       = eidx(etl::min(x, y, Cmp{c.cmp})) + "," + eidx(etl::max(x, y, Cmp{c.cmp})) + "," + eidx(mm.first) + "," + eidx(mm.second);
        }
    }
    return verdict(e, s);
}
template <typename K>
auto a_clamp(Case const& c) -> std::string
{
    if (len(c) != 3) { return SKIP; }
    if (cmp_eval(c.cmp, c.a[2], c.a[1])) { return SKIP; } // [alg.clamp] precondition: !(hi < lo);  a = {v, lo, hi}
    V a = mk(c.a, 0);
    auto s = num(&(c.cmp == 0 ? std::clamp(a[0], a[1], a[2]) : std::clamp(a[0], a[1], a[2], Cmp{c.cmp})) - a.data());
    Buf A("a", a, c.pad, padn(c));
    std::string e;
    {
        Scope sc;
        Elem const& v  = A.b()[0];
        Elem const& lo = A.b()[1];
        Elem const& hi = A.b()[2];
        e              = num(&(c.cmp == 0 ? etl::clamp(v, lo, hi) : etl::clamp(v, lo, hi, Cmp{c.cmp})) - A.b());
    }
    return verdict(e, s);
}

// ------------------------------------------------------------------ min_element / max_element / minmax_element
template <typename K>
auto a_elements(Case const& c) -> std::string
{
    V a = mk(c.a, 0);
    std::string s;
    if (c.cmp == 0) {
        auto mm = std::minmax_element(a.begin(), a.end());
        s       = num(std::min_element(a.begin(), a.end()) - a.begin()) + "," + num(std::max_element(a.begin(), a.end()) - a.begin()) + "," + num(mm.first - a.begin()) + "," + num(mm.second - a.begin());
    } else {
        auto mm = std::minmax_element(a.begin(), a.end(), Cmp{c.cmp});
        s       = num(std::min_element(a.begin(), a.end(), Cmp{c.cmp}) - a.begin()) + "," + num(std::max_element(a.begin(), a.end(), Cmp{c.cmp}) - a.begin()) + "," + num(mm.first - a.begin()) + "," + num(mm.second - a.begin());
    }
    Buf A("a", a, c.pad, padn(c));
    std::string e;
    {
        Scope sc;
        auto f = at<K>(A, 0);
        auto l = at<K>(A, len(c));
        if (c.cmp == 0) {
            auto mm = etl::minmax_element(f, l);
            e       = num(off(A, etl::min_element(f, l))) + "," + num(off(A, etl::max_element(f, l))) + "," + num(off(A, mm.first)) + "," + num(off(A, mm.second));
        } else {
            auto mm = etl::minmax_element(f, l, Cmp{c.cmp});
            e       = num(off(A, etl::min_element(f, l, Cmp{c.cmp}))) + "," + num(off(A, etl::max_element(f, l, Cmp{c.cmp}))) + "," + num(off(A, mm.first)) + "," + num(off(A, mm.second));
        }
    }
    return verdict(e, s);
}

// ------------------------------------------------------------------ is_sorted / is_sorted_until
template <typename K>
auto a_is_sorted(Case const& c) -> std::string
{
    V a = mk(c.a, 0);
    auto s = c.cmp == 0 ? bs(std::is_sorted(a.begin(), a.end())) + "," + num(std::is_sorted_until(a.begin(), a.end()) - a.begin())
                        : bs(std::is_sorted(a.begin(), a.end(), Cmp{c.cmp})) + "," + num(std::is_sorted_until(a.begin(), a.end(), Cmp{c.cmp}) - a.begin());
    Buf A("a", a, c.pad, padn(c));
    std::string e;
    {
        Scope sc;
        auto f = at<K>(A, 0);
        auto l = at<K>(A, len(c));
        e      = c.cmp == 0 ? bs(etl::is_sorted(f, l)) + "," + num(off(A, etl::is_sorted_until(f, l))) : bs(etl::is_sorted(f, l, Cmp{c.cmp})) + "," + num(off(A, etl::is_sorted_until(f, l, Cmp{c.cmp})));
    }
    return verdict(e, s);
}

// ------------------------------------------------------------------ is_partitioned / partition_point
template <typename K>
auto a_is_partitioned(Case const& c) -> std::string
{
    V a = mk(c.a, 0);
    auto s = bs(std::is_partitioned(a.begin(), a.end(), Pred{c.pred}));
    Buf A("a", a, c.pad, padn(c));
    std::string e;
    {
        Scope sc;
        e = bs(etl::is_partitioned(at<K>(A, 0), at<K>(A, len(c)), Pred{c.pred}));
    }
    return verdict(e, s);
}
template <typename K>
auto a_partition_point(Case const& c) -> std::string
{
    V a = mk(c.a, 0); // partitioned by construction (D_APART)
    auto s = num(std::partition_point(a.begin(), a.end(), Pred{c.pred}) - a.begin());
    Buf A("a", a, c.pad, padn(c));
    std::string e;
    {
        Scope sc;
        e = num(off(A, etl::partition_point(at<K>(A, 0), at<K>(A, len(c)), Pred{c.pred})));
    }
    return verdict(e, s);
}

// ------------------------------------------------------------------ binary searches on sorted input (D_ASORT)
template <typename K>
auto a_bounds(Case const& c) -> std::string
{
    V a = mk(c.a, 0);
    Elem v{c.val, 900};
    std::string s;
    if (c.cmp == 0) {
        auto er = std::equal_range(a.begin(), a.end(), v);
        s       = num(std::lower_bound(a.begin(), a.end(), v) - a.begin()) + "," + num(std::upper_bound(a.begin(), a.end(), v) - a.begin()) + "," + num(er.first - a.begin()) + "," + num(er.second - a.begin()) + ","
          + bs(std::binary_search(a.begin(), a.end(), v));
    } else {
        auto er = std::equal_range(a.begin(), a.end(), v, Cmp{c.cmp});
        s       = num(std::lower_bound(a.begin(), a.end(), v, Cmp{c.cmp}) - a.begin()) + "," + num(std::upper_bound(a.begin(), a.end(), v, Cmp{c.cmp}) - a.begin()) + "," + num(er.first - a.begin()) + "," + num(er.second - a.begin())
          + "," + bs(std::binary_search(a.begin(), a.end(), v, Cmp{c.cmp}));
    }
    Buf A("a", a, c.pad, padn(c));
    std::string e;
    {
        Scope sc;
        auto f = at<K>(A, 0);
        auto l = at<K>(A, len(c));
        if (c.cmp == 0) {
            auto er = etl::equal_range(f, l, v);
            e       = num(off(A, etl::lower_bound(f, l, v))) + "," + num(off(A, etl::upper_bound(f, l, v))) + "," + num(off(A, er.first)) + "," + num(off(A, er.second)) + "," + bs(etl::binary_search(f, l, v));
        } else {
            auto er = etl::equal_range(f, l, v, Cmp{c.cmp});
            e = num(off(A, etl::lower_bound(f, l, v, Cmp{c.cmp}))) + "," + num(off(A, etl::upper_bound(f, l, v, Cmp{c.cmp}))) + "," + num(off(A, er.first)) + "," + num(off(A, er.second)) + "," + bs(etl::binary_search(f, l, v, Cmp{c.cmp}));
        }
    }
    return verdict(e, s);
}
// heterogeneous value: the comparator is applied to (element, int) and (int, element)
template <typename K>
auto a_bounds_het(Case const& c) -> std::string
{
    V a    = mk(c.a, 0);
    int v  = c.val;
    auto er = std::equal_range(a.begin(), a.end(), v, Cmp{c.cmp});
    auto s  = num(std::lower_bound(a.begin(), a.end(), v, Cmp{c.cmp}) - a.begin()) + "," + num(std::upper_bound(a.begin(), a.end(), v, Cmp{c.cmp}) - a.begin()) + "," + num(er.first - a.begin()) + "," + num(er.second - a.begin()) + ","
           + bs(std::binary_search(a.begin(), a.end(), v, Cmp{c.cmp}));
    Buf A("a", a, c.pad, padn(c));
    std::string e;
    {
        Scope sc;
        auto f   = at<K>(A, 0);
        auto l   = at<K>(A, len(c));
        auto ee  = etl::equal_range(f, l, v, Cmp{c.cmp});
        e        = num(off(A, etl::lower_bound(f, l, v, Cmp{c.cmp}))) + "," + num(off(A, etl::upper_bound(f, l, v, Cmp{c.cmp}))) + "," + num(off(A, ee.first)) + "," + num(off(A, ee.second)) + "," + bs(etl::binary_search(f, l, v, Cmp{c.cmp}));
    }
    return verdict(e, s);
}

// ------------------------------------------------------------------ includes (both ranges sorted by the comparator)
template <typename K>
auto a_includes(Case const& c) -> std::string
{
    V a = mk(c.a, 0);
    V b = mk(c.b, 100);
    auto s = bs(c.cmp == 0 ? std::includes(a.begin(), a.end(), b.begin(), b.end()) : std::includes(a.begin(), a.end(), b.begin(), b.end(), Cmp{c.cmp}));
    Buf A("a", a, c.pad, padn(c));
    Buf B("b", b, c.pad, padn(c));
    std::string e;
    {
        Scope sc;
        e = bs(c.cmp == 0 ? etl::includes(at<K>(A, 0), at<K>(A, len(c)), at2<K>(B, 0), at2<K>(B, lenb(c))) : etl::includes(at<K>(A, 0), at<K>(A, len(c)), at2<K>(B, 0), at2<K>(B, lenb(c)), Cmp{c.cmp}));
    }
    return verdict(e, s);
}

// ================================================================== results of class type, explicit operator bool
// The conversion is deliberately NOT explicit: with an explicit one a library change such as `static_cast<long>(pred(x))`
// or `first + pred(x)` would stop this TU from compiling, and a harness that does not build gives no verdict at all
// (arithmetic misuse of the result is what the int truth modes of Case::tr detect).
struct Truthy {
    bool v;
    operator bool() const { return v; } // NOLINT(google-explicit-constructor)
};
struct PredC {
    int id;
    auto operator()(Elem const& e) const -> Truthy
    {
        touch(&e, "predicate applied to");
        return Truthy{pred_eval(id, e.key)};
    }
};
struct CmpC {
    int id;
    auto operator()(Elem const& a, Elem const& b) const -> Truthy
    {
        touch(&a, "comparator applied to");
        touch(&b, "comparator applied to");
        return Truthy{cmp_eval(id, a.key, b.key)};
    }
};
struct EqC {
    int id;
    auto operator()(Elem const& a, Elem const& b) const -> Truthy
    {
        touch(&a, "binary predicate applied to");
        touch(&b, "binary predicate applied to");
        return Truthy{eq_eval(id, a.key, b.key)};
    }
};
template <typename K>
auto a_class_unary(Case const& c) -> std::string
{
    V a = mk(c.a, 0);
    PredC p{c.pred};
    int const L = len(c);
    std::string s;
    std::string e;
    int ntrue = 0;
    for (int k : c.a) { ntrue += pred_eval(c.pred, k) ? 1 : 0; }
    {
        auto f = a.begin();
        auto l = a.end();
        s += bs(std::all_of(f, l, p)) + bs(std::any_of(f, l, p)) + bs(std::none_of(f, l, p)) + " count_if=" + num(std::count_if(f, l, p)) + " find_if=" + num(std::find_if(f, l, p) - f) + " find_if_not=" + num(std::find_if_not(f, l, p) - f)
           + " is_partitioned=" + bs(std::is_partitioned(f, l, p));
        V d(a.size(), Elem{55, -55});
        auto r = std::copy_if(f, l, d.begin(), p) - d.begin();
        s += " copy_if=" + num(r) + ren(d.data(), static_cast<int>(r));
        V d2(a.size(), Elem{55, -55});
        auto r2 = std::remove_copy_if(f, l, d2.begin(), p) - d2.begin();
        s += " remove_copy_if=" + num(r2) + ren(d2.data(), static_cast<int>(r2));
        V x = a;
        auto r3 = std::remove_if(x.begin(), x.end(), p) - x.begin();
        s += " remove_if=" + num(r3) + ren(x.data(), static_cast<int>(r3));
        V y = a;
        std::replace_if(y.begin(), y.end(), p, Elem{7, 700});
        s += " replace_if" + ren(y);
        V dt(a.size(), Elem{55, -55});
        V df(a.size(), Elem{55, -55});
        auto pc = std::partition_copy(f, l, dt.begin(), df.begin(), p);
        s += " partition_copy=" + num(pc.first - dt.begin()) + "," + num(pc.second - df.begin()) + ren(dt.data(), static_cast<int>(pc.first - dt.begin())) + ren(df.data(), static_cast<int>(pc.second - df.begin()));
        V z = a;
        std::stable_partition(z.begin(), z.end(), p);
        s += " partition=" + num(ntrue) + " partition_point=" + num(std::partition_point(z.begin(), z.end(), p) - z.begin());
    }
    {
        Buf A("a", a, c.pad, padn(c));
        Scope sc;
        auto f = A.b();
        auto l = A.e();
        e += bs(etl::all_of(f, l, p)) + bs(etl::any_of(f, l, p)) + bs(etl::none_of(f, l, p)) + " count_if=" + num(etl::count_if(f, l, p)) + " find_if=" + num(etl::find_if(f, l, p) - f) + " find_if_not=" + num(etl::find_if_not(f, l, p) - f)
           + " is_partitioned=" + bs(etl::is_partitioned(f, l, p));
        Buf D("copy_if_dest", ntrue, c.pad, padn(c));
        auto r = etl::copy_if(f, l, D.b(), p) - D.b();
        e += " copy_if=" + num(r) + ren(D);
        Buf D2("remove_copy_if_dest", L - ntrue, c.pad, padn(c));
        auto r2 = etl::remove_copy_if(f, l, D2.b(), p) - D2.b();
        e += " remove_copy_if=" + num(r2) + ren(D2);
        Buf X("x", a, c.pad, padn(c));
        auto r3 = etl::remove_if(X.b(), X.e(), p) - X.b();
        e += " remove_if=" + num(r3) + ren(X.b(), static_cast<int>(r3));
        Buf Y("y", a, c.pad, padn(c));
        etl::replace_if(Y.b(), Y.e(), p, Elem{7, 700});
        e += " replace_if" + ren(Y);
        Buf DT("dest_true", ntrue, c.pad, padn(c));
        Buf DF("dest_false", L - ntrue, c.pad, padn(c));
        auto pc = etl::partition_copy(f, l, DT.b(), DF.b(), p);
        e += " partition_copy=" + num(pc.first - DT.b()) + "," + num(pc.second - DF.b()) + ren(DT) + ren(DF);
        Buf Z("z", a, c.pad, padn(c));
        auto pr = etl::partition(Z.b(), Z.e(), p) - Z.b();
        bool ok = is_perm(Z.b(), Z.n, a);
        for (int i = 0; i < L; ++i) { ok = ok && pred_eval(c.pred, Z.b()[i].key) == (i < ntrue); }
        e += " partition=" + (ok ? num(pr) : "invalid" + ren(Z)) + " partition_point=" + num(etl::partition_point(Z.b(), Z.e(), p) - Z.b());
    }
    return verdict(e, s);
}
template <typename K>
auto a_class_binary(Case const& c) -> std::string
{
    V a = mk(c.a, 0);
    V b = mk(c.b, 100);
    EqC q{c.eq};
    Elem v{c.val, 900};
    std::string s;
    std::string e;
    {
        auto f = a.begin();
        auto l = a.end();
        auto mm = std::mismatch(f, l, b.begin(), b.end(), q);
        s += "equal=" + bs(std::equal(f, l, b.begin(), b.end(), q)) + " mismatch=" + num(mm.first - f) + "," + num(mm.second - b.begin()) + " search=" + num(std::search(f, l, b.begin(), b.end(), q) - f)
           + " find_end=" + num(std::find_end(f, l, b.begin(), b.end(), q) - f) + " find_first_of=" + num(std::find_first_of(f, l, b.begin(), b.end(), q) - f) + " adjacent_find=" + num(std::adjacent_find(f, l, q) - f)
           + " search_n=" + num(std::search_n(f, l, 2, v, q) - f);
        V x = a;
        auto r = std::unique(x.begin(), x.end(), q) - x.begin();
        s += " unique=" + num(r) + ren(x.data(), static_cast<int>(r));
        V d(a.size(), Elem{55, -55});
        auto r2 = std::unique_copy(f, l, d.begin(), q) - d.begin();
        s += " unique_copy=" + num(r2) + ren(d.data(), static_cast<int>(r2));
    }
    {
        Buf A("a", a, c.pad, padn(c));
        Buf B("b", b, c.pad, padn(c));
        Scope sc;
        auto f  = A.b();
        auto l  = A.e();
        auto mm = etl::mismatch(f, l, B.b(), B.e(), q);
        e += "equal=" + bs(etl::equal(f, l, B.b(), B.e(), q)) + " mismatch=" + num(mm.first - f) + "," + num(mm.second - B.b()) + " search=" + num(etl::search(f, l, B.b(), B.e(), q) - f)
           + " find_end=" + num(etl::find_end(f, l, B.b(), B.e(), q) - f) + " find_first_of=" + num(etl::find_first_of(f, l, B.b(), B.e(), q) - f) + " adjacent_find=" + num(etl::adjacent_find(f, l, q) - f)
           + " search_n=" + num(etl::search_n(f, l, 2, v, q) - f);
        Buf X("x", a, c.pad, padn(c));
        auto r = etl::unique(X.b(), X.e(), q) - X.b();
        e += " unique=" + num(r) + ren(X.b(), static_cast<int>(r));
        V x = a;
        auto ul = static_cast<int>(std::unique(x.begin(), x.end(), Eq{c.eq}) - x.begin());
        Buf D("unique_copy_dest", ul, c.pad, padn(c));
        auto r2 = etl::unique_copy(f, l, D.b(), q) - D.b();
        e += " unique_copy=" + num(r2) + ren(D);
    }
    return verdict(e, s);
}
template <typename K>
auto a_class_compare(Case const& c) -> std::string
{
    V a = mk(c.a, 0);
    V b = mk(c.b, 100);
    CmpC q{c.cmp};
    Elem v{c.val, 900};
    int const L = len(c);
    int const m = L == 0 ? 0 : c.val % (L + 1);
    V sa = a;
    V sb = b;
    std::stable_sort(sa.begin(), sa.end(), Cmp{c.cmp});
    std::stable_sort(sb.begin(), sb.end(), Cmp{c.cmp});
    V halves = a;
    std::stable_sort(halves.begin(), halves.begin() + m, Cmp{c.cmp});
    std::stable_sort(halves.begin() + m, halves.end(), Cmp{c.cmp});
    std::string s;
    std::string e;
    {
        auto f = a.begin();
        auto l = a.end();
        auto mme = std::minmax_element(f, l, q);
        s += "is_sorted=" + bs(std::is_sorted(f, l, q)) + " until=" + num(std::is_sorted_until(f, l, q) - f) + " min=" + num(std::min_element(f, l, q) - f) + " max=" + num(std::max_element(f, l, q) - f) + " minmax=" + num(mme.first - f) + ","
           + num(mme.second - f) + " lex=" + bs(std::lexicographical_compare(f, l, b.begin(), b.end(), q));
        V x = a;
        std::stable_sort(x.begin(), x.end(), q);
        std::string sk = "[";
        for (int i = 0; i < L; ++i) { sk += (i != 0 ? " " : "") + num(c.cmp == 2 ? (x[static_cast<std::size_t>(i)].key & 1) : x[static_cast<std::size_t>(i)].key); }
        s += " stable_sort" + ren(x) + " sort" + sk + "] nth=" + (m < L ? num(x[static_cast<std::size_t>(m)].key & (c.cmp == 2 ? 1 : ~0)) : std::string("-"));
        auto er = std::equal_range(sa.begin(), sa.end(), v, q);
        s += " lb=" + num(std::lower_bound(sa.begin(), sa.end(), v, q) - sa.begin()) + " ub=" + num(std::upper_bound(sa.begin(), sa.end(), v, q) - sa.begin()) + " er=" + num(er.first - sa.begin()) + "," + num(er.second - sa.begin())
           + " bin=" + bs(std::binary_search(sa.begin(), sa.end(), v, q)) + " includes=" + bs(std::includes(sa.begin(), sa.end(), sb.begin(), sb.end(), q));
        V d(sa.size() + sb.size(), Elem{55, -55});
        std::merge(sa.begin(), sa.end(), sb.begin(), sb.end(), d.begin(), q);
        s += " merge" + ren(d);
        V u(sa.size() + sb.size(), Elem{55, -55});
        auto r = std::set_union(sa.begin(), sa.end(), sb.begin(), sb.end(), u.begin(), q) - u.begin();
        s += " set_union=" + num(r) + ren(u.data(), static_cast<int>(r));
        V i2(sa.size() + sb.size(), Elem{55, -55});
        auto r2 = std::set_intersection(sa.begin(), sa.end(), sb.begin(), sb.end(), i2.begin(), q) - i2.begin();
        s += " set_intersection=" + num(r2) + ren(i2.data(), static_cast<int>(r2));
        V h = halves;
        std::inplace_merge(h.begin(), h.begin() + m, h.end(), q);
        s += " inplace_merge" + ren(h);
        if (L >= 2) { s += " min2=" + num(&std::min(a[0], a[1], q) - a.data()) + " max2=" + num(&std::max(a[0], a[1], q) - a.data()); }
    }
    {
        Buf A("a", a, c.pad, padn(c));
        Buf B("b", b, c.pad, padn(c));
        Buf SA("sorted_a", sa, c.pad, padn(c));
        Buf SB("sorted_b", sb, c.pad, padn(c));
        Scope sc;
        auto f   = A.b();
        auto l   = A.e();
        auto mme = etl::minmax_element(f, l, q);
        e += "is_sorted=" + bs(etl::is_sorted(f, l, q)) + " until=" + num(etl::is_sorted_until(f, l, q) - f) + " min=" + num(etl::min_element(f, l, q) - f) + " max=" + num(etl::max_element(f, l, q) - f) + " minmax=" + num(mme.first - f) + ","
           + num(mme.second - f) + " lex=" + bs(etl::lexicographical_compare(f, l, B.b(), B.e(), q));
        Buf X("x", a, c.pad, padn(c));
        etl::stable_sort(X.b(), X.e(), q);
        Buf Y("y", a, c.pad, padn(c));
        etl::sort(Y.b(), Y.e(), q);
        Buf Z("z", a, c.pad, padn(c));
        etl::nth_element(Z.b(), Z.b() + m, Z.e(), q);
        // sort / nth_element are unstable: only the keys (mod-2 classes for the modulo comparator) are compared
        std::string sk = "[";
        for (int i = 0; i < L; ++i) { sk += (i != 0 ? " " : "") + num(c.cmp == 2 ? (Y.b()[i].key & 1) : Y.b()[i].key); }
        e += " stable_sort" + ren(X) + " sort" + sk + "] nth=" + (m < L ? num(Z.b()[m].key & (c.cmp == 2 ? 1 : ~0)) : std::string("-"));
        auto er = etl::equal_range(SA.b(), SA.e(), v, q);
        e += " lb=" + num(etl::lower_bound(SA.b(), SA.e(), v, q) - SA.b()) + " ub=" + num(etl::upper_bound(SA.b(), SA.e(), v, q) - SA.b()) + " er=" + num(er.first - SA.b()) + "," + num(er.second - SA.b())
           + " bin=" + bs(etl::binary_search(SA.b(), SA.e(), v, q)) + " includes=" + bs(etl::includes(SA.b(), SA.e(), SB.b(), SB.e(), q));
        Buf D("merge_dest", static_cast<int>(sa.size() + sb.size()), c.pad, padn(c));
        etl::merge(SA.b(), SA.e(), SB.b(), SB.e(), D.b(), q);
        e += " merge" + ren(D);
        V u(sa.size() + sb.size(), Elem{55, -55});
        auto ul = static_cast<int>(std::set_union(sa.begin(), sa.end(), sb.begin(), sb.end(), u.begin(), Cmp{c.cmp}) - u.begin());
        Buf U("set_union_dest", ul, c.pad, padn(c));
        auto r = etl::set_union(SA.b(), SA.e(), SB.b(), SB.e(), U.b(), q) - U.b();
        e += " set_union=" + num(r) + ren(U);
        auto il = static_cast<int>(std::set_intersection(sa.begin(), sa.end(), sb.begin(), sb.end(), u.begin(), Cmp{c.cmp}) - u.begin());
        Buf I2("set_intersection_dest", il, c.pad, padn(c));
        auto r2 = etl::set_intersection(SA.b(), SA.e(), SB.b(), SB.e(), I2.b(), q) - I2.b();
        e += " set_intersection=" + num(r2) + ren(I2);
        Buf H("halves", halves, c.pad, padn(c));
        etl::inplace_merge(H.b(), H.b() + m, H.e(), q);
        e += " inplace_merge" + ren(H);
        if (L >= 2) { e += " min2=" + num(&etl::min(f[0], f[1], q) - f) + " max2=" + num(&etl::max(f[0], f[1], q) - f); }
    }
    return verdict(e, s);
}

} // namespace

auto table() -> std::vector<Entry> const&
{
    static std::vector<Entry> const t = {
        C06_REG(a_minmax, "min_max_minmax", D_CMP | D_SMALL, KP),
        C06_REG(a_clamp, "clamp", D_CMP | D_SMALL, KP),
        C06_REG(a_elements, "min_max_minmax_element", D_CMP | D_LONG, KP),
        C06_REG(a_elements, "min_max_minmax_element", D_CMP | D_LONG, KF),
        C06_REG(a_is_sorted, "is_sorted_is_sorted_until", D_CMP | D_LONG, KP),
        C06_REG(a_is_sorted, "is_sorted_is_sorted_until", D_CMP | D_LONG, KF),
        C06_REG(a_is_partitioned, "is_partitioned", D_PRED | D_LONG, KP),
        C06_REG(a_is_partitioned, "is_partitioned", D_PRED | D_LONG, KI),
        C06_REG(a_partition_point, "partition_point", D_PRED | D_APART | D_LONG, KP),
        C06_REG(a_partition_point, "partition_point", D_PRED | D_APART | D_LONG, KF),
        C06_REG(a_bounds, "lower_upper_bound_equal_range_binary_search", D_CMP | D_ASORT | D_VAL | D_LONG, KP),
        C06_REG(a_bounds, "lower_upper_bound_equal_range_binary_search", D_CMP | D_ASORT | D_VAL | D_LONG, KF),
        C06_REG(a_bounds_het, "bounds_heterogeneous_value", D_CMP | D_ASORT | D_VAL | D_LONG, KP),
        C06_REG(a_bounds_het, "bounds_heterogeneous_value", D_CMP | D_ASORT | D_VAL | D_LONG, KF),
        // predicates / comparators returning a class type convertible to bool (not bool, not an arithmetic type);
        // int results with "true" != 1 are a dimension of every C06 harness (Case::tr)
        C06_REG(a_class_unary, "class_result_unary_predicates", D_PRED, KP),
        C06_REG(a_class_binary, "class_result_binary_predicates", D_EQV | D_B | D_VAL | D_LEN4, KP),
        C06_REG(a_class_compare, "class_result_comparators", D_CMP | D_B | D_VAL | D_LEN4, KP),
        C06_REG(a_includes, "includes", D_CMP | D_ASORT | D_BSORT | D_B | D_LONG, KP),
        C06_REG(a_includes, "includes", D_CMP | D_ASORT | D_BSORT | D_B | D_LONG, KI),
        C06_REG(a_includes, "includes", D_CMP | D_ASORT | D_BSORT | D_B | D_LONG, Kpi),
        C06_REG(a_includes, "includes", D_CMP | D_ASORT | D_BSORT | D_B | D_LONG, Kip),
        C06_REG(a_includes, "includes", D_CMP | D_ASORT | D_BSORT | D_B | D_LONG, Kfi),
        C06_REG(a_includes, "includes", D_CMP | D_ASORT | D_BSORT | D_B | D_LONG, Kpf),
        C06_REG(a_includes, "includes", D_CMP | D_ASORT | D_BSORT | D_B | D_LONG, Kbp),
    };
    return t;
}

} // namespace c06

void vf_run(vf::Ctx& c) { c06::run_table(c); }
std::string vf_replay(std::string const& sub, std::string const& cs) { return c06::replay_table(sub, cs); }
