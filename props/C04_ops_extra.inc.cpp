// C04 — self-referential arguments, strings of another capacity, free erase with a value of another type
// (included by props/C04_strings.cpp).
//
// std::basic_string accepts arguments that point into the string itself for assign / append / insert / replace /
// operator= / operator+= / push_back and for every query; the model performs the SAME self-referential call on the
// std::basic_string (with mx->data()+k where the etl call gets x->data()+k).  Results always fit the capacity.
#pragma once

namespace c04 {

template <typename Char, std::size_t N, typename Tr>
auto Run<Char, N, Tr>::do_extra(std::uint32_t code) -> void
{
    E const& cx     = *x;
    M& m            = *mx;
    auto const size = m.size();
    auto k          = vpos(op.b, size); // the argument starts at index k of the string itself
    auto avail      = size - k;
    auto clen       = [&](std::size_t from) { return M::traits_type::length(m.c_str() + from); };
    auto view_e     = [&](std::size_t from, std::size_t n) { return SV(x->data() + from, n); };
    auto view_m     = [&](std::size_t from, std::size_t n) { return SSV(m.data() + from, n); };
    auto sel        = op.a;
    auto qrep = [&](char const* what, std::size_t got, std::size_t exp, std::string const& args) {
        nt_hit |= (exp != knpos);
        if (got != exp && !tolerated(what)) { fail(std::string(what) + " on " + show(m) + " with " + args + ": expected " + num(exp) + " got " + num(got)); }
    };
    auto srep = [&](char const* what, int got, int exp, std::string const& args) {
        if (sgn(got) != sgn(exp)) { fail(std::string(what) + " on " + show(m) + " with " + args + ": expected sign " + std::to_string(sgn(exp)) + " got " + std::to_string(sgn(got))); }
    };
    auto brep = [&](char const* what, bool got, bool exp, std::string const& args) {
        if (got != exp && !tolerated(what)) { fail(std::string(what) + " on " + show(m) + " with " + args + ": expected " + (exp ? "true" : "false") + " got " + (got ? "true" : "false")); }
    };

    switch (code) {
    // ------------------------------------------------------------------ assign / operator= from inside the string
    case ALIAS_ASSIGN_PTR_N: {
        auto n = fitlen(op.a, avail);
        nt_alias = true;
        self(x->assign(x->data() + k, n), *x);
        m.assign(m.data() + k, n);
        break;
    }
    case ALIAS_ASSIGN_CSTR: {
        nt_alias = true;
        self(x->assign(x->c_str() + k), *x);
        m.assign(m.c_str() + k);
        break;
    }
    case ALIAS_OPEQ_CSTR: {
        nt_alias = true;
        E& r     = (*x = x->c_str() + k);
        self(r, *x);
        m = m.c_str() + k;
        break;
    }
    case ALIAS_ASSIGN_MISC: {
        auto n   = fitlen(op.c >> 4, avail);
        nt_alias = true;
        switch (sel % 5) {
        case 0: {
            Char const* f = x->data() + k;
            self(x->assign(f, f + n), *x);
            m.assign(m.data() + k, m.data() + k + n);
            break;
        }
        case 1: self(x->assign(view_e(k, n)), *x), m.assign(view_m(k, n)); break;
        case 2: self(x->assign(view_e(0, size), k, n), *x), m.assign(view_m(0, size), k, n); break;
        case 3: {
            E& r = (*x = view_e(k, n));
            self(r, *x);
            m = view_m(k, n);
            break;
        }
        default: self(x->assign(*x, k, n), *x), m.assign(m, k, n); break;
        }
        break;
    }

    // ------------------------------------------------------------------ append / += / push_back from inside the string
    case ALIAS_APPEND: {
        auto n   = fitlen(op.c >> 4, std::min(avail, room));
        nt_alias = true;
        switch (sel % 10) {
        case 0: self(x->append(x->data() + k, n), *x), m.append(m.data() + k, n); break;
        case 1:
        case 2: {
            if (clen(k) > room) { k = size; } // the C string starting at k must fit: otherwise append the empty tail
            if (sel % 10 == 1) {
                self(x->append(x->c_str() + k), *x);
            } else {
                self(*x += x->c_str() + k, *x);
            }
            m.append(m.c_str() + k);
            break;
        }
        case 3: self(x->append(view_e(k, n)), *x), m.append(view_m(k, n)); break;
        case 4: self(*x += view_e(k, n), *x), m += view_m(k, n); break;
        case 5: self(x->append(view_e(0, size), k, n), *x), m.append(view_m(0, size), k, n); break;
        case 6: {
            Char const* f = x->data() + k;
            self(x->append(f, f + n), *x);
            m.append(m.data() + k, m.data() + k + n);
            break;
        }
        case 7: {
            if (size > 0 && room >= 1) {
                x->push_back((*x)[k % size]);
                m.push_back(m[k % size]);
            }
            break;
        }
        case 8: {
            if (size > 0 && room >= 1) {
                self(*x += cx[k % size], *x);
                m += m[k % size];
            }
            break;
        }
        default: {
            if (size > 0) {
                auto cnt = fitlen(op.c >> 4, room);
                self(x->append(cnt, cx[k % size]), *x);
                m.append(cnt, m[k % size]);
            }
            break;
        }
        }
        break;
    }

    // ------------------------------------------------------------------ insert from inside the string
    case ALIAS_INSERT: {
        auto idx = vpos(op.c >> 4, size);
        auto n   = fitlen(op.c >> 8, std::min(avail, room));
        nt_alias = true;
        nt_middle |= (idx > 0 && idx < size && n > 0);
        switch (sel % 7) {
        case 0: self(x->insert(idx, x->data() + k, n), *x), m.insert(idx, m.data() + k, n); break;
        case 1: {
            if (clen(k) > room) { k = size; }
            self(x->insert(idx, x->c_str() + k), *x);
            m.insert(idx, m.c_str() + k);
            break;
        }
        case 2: self(x->insert(idx, view_e(k, n)), *x), m.insert(idx, view_m(k, n)); break;
        case 3: self(x->insert(idx, view_e(0, size), k, n), *x), m.insert(idx, view_m(0, size), k, n); break;
        case 4: {
            if (size <= room) {
                self(x->insert(idx, *x), *x);
                m.insert(idx, m);
                break;
            }
            [[fallthrough]];
        }
        case 5: self(x->insert(idx, *x, k, n), *x), m.insert(idx, m, k, n); break;
        default: {
            if (size > 0) {
                auto cnt = fitlen(op.c >> 8, room);
                self(x->insert(idx, cnt, cx[k % size]), *x);
                m.insert(idx, cnt, m[k % size]);
            }
            break;
        }
        }
        break;
    }

    // ------------------------------------------------------------------ replace from inside the string
    case ALIAS_REPLACE: {
        auto pos = vpos(op.c >> 4, size);
        auto cnt = qc(op.c >> 8, size - pos, pos);
        auto n1  = std::min(cnt, size - pos);
        auto n2  = fitlen(op.c >> 12, std::min(avail, room + n1));
        if ((op.c >> 3) % 2 == 0) { n2 = std::min(n1, avail); }
        if (ex_replace && n2 != n1) {
            // known finding string.replace.length_changing: only replacements as long as the replaced range
            vf::excluded_known(tag_replace);
            if (n1 > avail) {
                k     = size - n1;
                avail = n1;
            }
            n2 = n1;
        }
        if (vf::ctx().excluded(tag_replace_overlap) && k < pos && k + n2 > pos) {
            // finding string.replace.self_overlap: the in-place forward copy reads characters it has already overwritten
            vf::excluded_known(tag_replace_overlap);
            k     = pos; // (n2 <= n1 <= size - pos here or the length-changing class is being searched anyway)
            avail = size - k;
            n2    = std::min(n2, avail);
            if (ex_replace) { n2 = n1; }
        }
        nt_alias = true;
        nt_middle |= (pos > 0 && pos + n1 < size && (n1 > 0 || n2 > 0));
        auto f  = x->cbegin() + static_cast<std::ptrdiff_t>(pos);
        auto l  = f + static_cast<std::ptrdiff_t>(n1);
        auto mf = m.cbegin() + static_cast<std::ptrdiff_t>(pos);
        auto ml = mf + static_cast<std::ptrdiff_t>(n1);
        switch (sel % 5) {
        case 0: self(x->replace(pos, cnt, x->data() + k, n2), *x), m.replace(pos, cnt, m.data() + k, n2); break;
        case 1: self(x->replace(f, l, x->data() + k, n2), *x), m.replace(mf, ml, m.data() + k, n2); break;
        case 2: self(x->replace(pos, cnt, *x, k, n2), *x), m.replace(pos, cnt, m, k, n2); break;
        case 3: {
            if (size > 0) {
                auto c = cx[k % size];
                self(x->replace(f, l, n2, c), *x);
                m.replace(mf, ml, n2, c);
            }
            break;
        }
        default: {
            // the whole string as replacement: identity when it replaces the whole string, otherwise only if it fits
            bool whole = ex_replace || (size - n1 + size > N);
            if (whole) {
                self(x->replace(0, knpos, *x), *x);
                m.replace(0, knpos, m);
            } else {
                self(x->replace(f, l, *x), *x);
                m.replace(mf, ml, m);
            }
            break;
        }
        }
        break;
    }

    // ------------------------------------------------------------------ queries with an argument inside the string
    case ALIAS_QUERY: {
        auto pos = qpos(op.c >> 4, size);
        auto n   = fitlen(op.c >> 8, avail);
        auto p1  = vpos(op.c >> 4, size);
        auto n1  = qc(op.c >> 12, size - p1, p1);
        nt_alias = true;
        nt_edge |= (pos >= size);
        nt_empty |= (n == 0);
        auto const* ep = x->data() + k;
        auto const* mp = m.data() + k;
        auto args      = "k=" + num(k) + " n=" + num(n) + " pos=" + num(pos) + " p1=" + num(p1) + " n1=" + num(n1);
        switch (sel % 19) {
        case 0: qrep("find(s.data()+k,pos,n)", cx.find(ep, pos, n), m.find(mp, pos, n), args); break;
        case 1: qrep("find(s.c_str()+k,pos)", cx.find(ep, pos), m.find(mp, pos), args); break;
        case 2: qrep("find(s,pos)", cx.find(cx, pos), m.find(m, pos), args); break;
        case 3: qrep("rfind(s,pos)", cx.rfind(cx, pos), m.rfind(m, pos), args); break;
        case 4: qrep("rfind(s.c_str()+k,pos)", cx.rfind(ep, pos), m.rfind(mp, pos), args); break;
        case 5: qrep("find_first_of(s.data()+k,pos,n)", cx.find_first_of(ep, pos, n), m.find_first_of(mp, pos, n), args); break;
        case 6: qrep("find_first_of(view of s,pos)", cx.find_first_of(view_e(k, n), pos), m.find_first_of(view_m(k, n), pos), args); break;
        case 7: qrep("find_first_not_of(s.data()+k,pos,n)", cx.find_first_not_of(ep, pos, n), m.find_first_not_of(mp, pos, n), args); break;
        case 8: qrep("find_last_of(s.data()+k,pos,n)", cx.find_last_of(ep, pos, n), m.find_last_of(mp, pos, n), args); break;
        case 9: qrep("find_last_not_of(s.data()+k,pos,n)", cx.find_last_not_of(ep, pos, n), m.find_last_not_of(mp, pos, n), args); break;
        case 10: srep("compare(s)", cx.compare(cx), m.compare(m), args); break;
        case 11: srep("compare(p1,n1,s)", cx.compare(p1, n1, cx), m.compare(p1, n1, m), args); break;
        case 12: srep("compare(p1,n1,s,k,n)", cx.compare(p1, n1, cx, k, n), m.compare(p1, n1, m, k, n), args); break;
        case 13: srep("compare(s.c_str()+k)", cx.compare(ep), m.compare(mp), args); break;
        case 14: srep("compare(p1,n1,s.data()+k,n)", cx.compare(p1, n1, ep, n), m.compare(p1, n1, mp, n), args); break;
        case 15: srep("compare(view of s)", cx.compare(view_e(k, n)), m.compare(view_m(k, n)), args); break;
        case 16: brep("starts_with(view of s)", cx.starts_with(view_e(k, n)), m.starts_with(view_m(k, n)), args); break;
        case 17: brep("ends_with(s.c_str()+k)", cx.ends_with(ep), m.ends_with(mp), args); break;
        default: brep("contains(view of s)", cx.contains(view_e(k, n)), m.find(view_m(k, n)) != M::npos, args); break;
        }
        break;
    }

    // ------------------------------------------------------------------ a string of another capacity as argument / result
    case OTHERCAP: {
        auto len = fitlen(op.b, (sel % 10 == 2 || sel % 10 == 3 || sel % 10 == 4) ? room : N);
        auto o   = srcn(op.c >> 4, len);
        EO t(o.data(), o.size());
        auto pos = qpos(op.c >> 4, size);
        auto p1  = vpos(op.c >> 4, size);
        auto n1  = qc(op.c >> 8, size - p1, p1);
        auto p2  = vpos(op.c >> 12, o.size());
        auto n2  = qc(op.c >> 16, o.size() - p2, p2);
        auto args = "other=" + show(o) + " pos=" + num(pos) + " p1=" + num(p1) + " n1=" + num(n1) + " p2=" + num(p2) + " n2=" + num(n2);
        switch (sel % 10) {
        case 0: self(x->assign(t), *x), m.assign(o); break;
        case 1: {
            E& r = (*x = t);
            self(r, *x);
            m = o;
            break;
        }
        case 2: self(x->append(t), *x), m.append(o); break;
        case 3: self(*x += t, *x), m += o; break;
        case 4: {
            auto idx = vpos(op.c >> 4, size);
            nt_middle |= (idx > 0 && idx < size && !o.empty());
            self(x->insert(idx, t), *x);
            m.insert(idx, o);
            break;
        }
        case 5: {
            E c(t);
            adopt("string(str of other capacity)", c, o, *x, m);
            break;
        }
        case 6: {
            srep("compare(p1,n1,other capacity)", cx.compare(p1, n1, t), m.compare(p1, n1, o), args);
            srep("compare(p1,n1,other capacity,p2,n2)", cx.compare(p1, n1, t, p2, n2), m.compare(p1, n1, o, p2, n2), args);
            srep("compare(p1,n1,other capacity,p2)", cx.compare(p1, n1, t, p2), m.compare(p1, n1, o, p2), args);
            break;
        }
        case 7: {
            brep("starts_with(other capacity)", cx.starts_with(t), m.starts_with(o), args);
            brep("ends_with(other capacity)", cx.ends_with(t), m.ends_with(o), args);
            brep("contains(other capacity)", cx.contains(t), m.find(o) != M::npos, args);
            break;
        }
        case 8: qrep("find_first_of(other capacity,pos)", cx.find_first_of(t, pos), m.find_first_of(o, pos), args); break;
        default: {
            // the other direction: the larger-capacity string is built from / assigned / appended with this one
            EO u(cx);
            EO v;
            v = cx;
            EO w;
            w.assign(cx);
            w.append(cx, 0, 0);
            for (EO const* q : {&u, &v, &w}) {
                if (q->size() != size || M(q->data(), q->size()) != m || q->data()[q->size()] != Char(0) || q->size() > q->capacity()) { fail("string of other capacity built from " + show(m) + " has content " + show(M(q->data(), q->size()))); }
            }
            break;
        }
        }
        break;
    }

    // ------------------------------------------------------------------ free erase / erase_if with a value of another type
    case FREE_ERASE_TYPED: {
        // value: the character itself or a value congruent to it modulo 2^width (outside the character type's range);
        // std::erase compares `element == value` after the usual arithmetic conversions, without narrowing the value
        constexpr long long span = sizeof(Char) >= 4 ? (1LL << 32) : (1LL << (8 * sizeof(Char)));
        Char c    = size > 0 ? m[k % size] : ch; // mostly a character that is present
        long long base = static_cast<long long>(c);
        auto which     = (op.c >> 4) % 3;
        long long val  = which == 0 ? base : (which == 1 ? base + span : base - span);
        std::size_t r1 = 0, r2 = 0;
        std::string what;
        switch (sel % 6) {
        case 0: r1 = etl::erase(*x, static_cast<int>(val)), r2 = std::erase(m, static_cast<int>(val)), what = "erase(str,int " + std::to_string(static_cast<int>(val)) + ")"; break;
        case 1: r1 = etl::erase(*x, static_cast<long>(val)), r2 = std::erase(m, static_cast<long>(val)), what = "erase(str,long " + std::to_string(static_cast<long>(val)) + ")"; break;
        case 2: r1 = etl::erase(*x, val), r2 = std::erase(m, val), what = "erase(str,long long " + std::to_string(val) + ")"; break;
        case 3: r1 = etl::erase(*x, static_cast<unsigned>(val)), r2 = std::erase(m, static_cast<unsigned>(val)), what = "erase(str,unsigned " + std::to_string(static_cast<unsigned>(val)) + ")"; break;
        case 4: r1 = etl::erase(*x, static_cast<unsigned long long>(val)), r2 = std::erase(m, static_cast<unsigned long long>(val)), what = "erase(str,unsigned long long " + std::to_string(static_cast<unsigned long long>(val)) + ")"; break;
        default: {
            auto pred = [val](long long e) { return e == val; };
            r1 = etl::erase_if(*x, pred), r2 = std::erase_if(m, pred), what = "erase_if(str,[](long long e){ return e == " + std::to_string(val) + "; })";
            break;
        }
        }
        if (r1 != r2) { fail(what + " returned " + num(r1) + " expected " + num(r2)); }
        break;
    }
    // ------------------------------------------------------------------ the only iterator-range member that accepts a
    // non-pointer iterator on this tree (the (first,last) constructor and assign delegate to (const_pointer, size_type))
    case APPEND_INPUT_IT: {
        auto s = srcn(op.a, fitlen(op.b, room));
        auto b = pbuf(s);
        nt_single_pass = true;
        Fifo<Char> fe{b.get(), b.end(), 0};
        Fifo<Char> fm{b.get(), b.end(), 0};
        self(x->append(FifoIt<Char>(&fe), FifoIt<Char>()), *x);
        m.append(FifoIt<Char>(&fm), FifoIt<Char>());
        if (fe.p != fe.e || fe.pops != fm.pops) { fail("append(single-pass first,last) consumed " + num(fe.pops) + " elements of the source, std consumed " + num(fm.pops)); }
        break;
    }
    // ------------------------------------------------------------------ erase_if with a predicate whose answer depends on
    // state held by reference: [alg.remove] applies the predicate exactly last-first times, once per element, in order
    case FREE_ERASE_IF_STATEFUL: {
        struct State {
            std::size_t calls{0};
            std::size_t budget{0};
        };
        Char target    = size > 0 ? m[k % size] : ch; // mostly a character that is present
        std::size_t kk = 2 + (op.c >> 4) % 3;
        auto make      = [&](State& st) {
            return [&st, target, kk, mode = sel % 4](Char e) -> bool {
                ++st.calls;
                switch (mode) {
                case 0: // "remove at most `budget` occurrences of target"
                    if (e == target && st.budget > 0) {
                        --st.budget;
                        return true;
                    }
                    return false;
                case 1: return st.calls % kk == 0;                     // every kk-th character
                case 2: return e == target && st.calls % 2 == 1;       // target, but only on odd-numbered applications
                default: return st.calls <= kk || e == Char(0);        // the first kk characters and every NUL
                }
            };
        };
        State se{0, 1 + (op.c >> 6) % 3};
        State sm = se;
        auto r1  = etl::erase_if(*x, make(se));
        auto r2  = std::erase_if(m, make(sm));
        std::string what = "erase_if(str, stateful predicate mode " + std::to_string(sel % 4) + " target " + show_ch(target) + " k " + num(kk) + " budget " + num(1 + (op.c >> 6) % 3) + ")";
        if (r1 != r2) {
            fail(what + " returned " + num(r1) + " expected " + num(r2));
        } else if (se.calls != size) {
            fail(what + " applied the predicate " + num(se.calls) + " times to a string of size " + num(size) + " (std: " + num(sm.calls) + ")");
        }
        break;
    }
    default: break;
    }
}

} // namespace c04
