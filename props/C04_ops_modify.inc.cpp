// C04 — element writes, push/pop, erase, append/+=, insert, replace, resize, swap, substr, copy, operator+, free erase
// (included by props/C04_strings.cpp).
//
// Which calls overflow on purpose (a "clamp event": applied to the etl string only, invariant checked, model re-synced):
//   append(n,ch), append(cstr), append(p,n), append(view[,pos[,n]]), += ch / cstr / view, resize beyond capacity
//                                                                   -- these clamp to capacity in the library.
// Fit-only (they go through push_back, which has TETL_PRECONDITION(size() < capacity())):
//   append(first,last), append(str[,pos[,n]]), += str, cstr+str, ch+str, and every constructor.
// insert/replace/operator+ are only generated with results that fit (the property promises clamping for appends only).
#pragma once

namespace c04 {

template <typename Char, std::size_t N, typename Tr>
auto Run<Char, N, Tr>::do_modify(std::uint32_t code) -> void
{
    auto const size = mx->size();
    bool alias      = (op.b % 5) == 0;
    E const& srcE   = alias ? *x : *y;
    M const srcM    = alias ? *mx : *my;
    auto middle     = [&](std::size_t pos, std::size_t n1, std::size_t n2) { nt_middle |= (pos > 0 && pos + n1 < size && (n1 > 0 || n2 > 0)); };

    // a (pos, n) window of the source string whose length fits into `room`
    auto fit_window = [&](std::size_t srcsize, std::size_t& pos, std::size_t& cnt, bool default_count) {
        pos        = vpos(op.a / 8, srcsize);
        auto avail = srcsize - pos;
        if (default_count) {
            if (avail > room) { pos = srcsize - room; }
            cnt = knpos;
            return;
        }
        cnt = qc(op.b / 5, avail, pos);
        if (std::min(cnt, avail) > room) { cnt = room; }
    };

    switch (code) {
    case WRITE_INDEX: {
        auto i  = op.a % size;
        (*x)[i] = ch;
        (*mx)[i] = ch;
        break;
    }
    case WRITE_FRONT_BACK: {
        if ((op.a & 1U) != 0) {
            x->front()  = ch;
            mx->front() = ch;
        } else {
            x->back()  = ch;
            mx->back() = ch;
        }
        break;
    }
    case WRITE_ITER: {
        auto i = op.a % size;
        if ((op.b & 1U) != 0) {
            *(x->begin() + static_cast<std::ptrdiff_t>(i)) = ch;
        } else {
            x->data()[i] = ch;
        }
        (*mx)[i] = ch;
        break;
    }
    case PUSH_BACK: {
        x->push_back(ch);
        mx->push_back(ch);
        break;
    }
    case POP_BACK: {
        x->pop_back();
        mx->pop_back();
        break;
    }
    case CLEAR: {
        x->clear();
        mx->clear();
        break;
    }
    case ERASE_IDX_N: {
        auto idx = vpos(op.a, size);
        auto cnt = qc(op.b, size - idx, idx);
        middle(idx, std::min(cnt, size - idx), 0);
        self(x->erase(idx, cnt), *x);
        mx->erase(idx, cnt);
        break;
    }
    case ERASE_IDX: {
        auto idx = vpos(op.a, size);
        self(x->erase(idx), *x);
        mx->erase(idx);
        break;
    }
    case ERASE_ALL: {
        self(x->erase(), *x);
        mx->erase();
        break;
    }
    case ERASE_IT: {
        auto i = op.a % size;
        middle(i, 1, 0);
        auto it = x->erase(x->cbegin() + static_cast<std::ptrdiff_t>(i));
        mx->erase(mx->begin() + static_cast<std::ptrdiff_t>(i));
        if (static_cast<std::size_t>(it - x->begin()) != i) { fail("erase(it) returned offset " + num(static_cast<std::size_t>(it - x->begin())) + " expected " + num(i)); }
        break;
    }
    case ERASE_IT_IT: {
        auto f = vpos(op.a, size);
        auto l = f + fitlen(op.b, size - f);
        middle(f, l - f, 0);
        auto it = x->erase(x->cbegin() + static_cast<std::ptrdiff_t>(f), x->cbegin() + static_cast<std::ptrdiff_t>(l));
        mx->erase(mx->begin() + static_cast<std::ptrdiff_t>(f), mx->begin() + static_cast<std::ptrdiff_t>(l));
        if (static_cast<std::size_t>(it - x->begin()) != f) { fail("erase(first,last) returned offset " + num(static_cast<std::size_t>(it - x->begin())) + " expected " + num(f)); }
        break;
    }

    // ------------------------------------------------------------------ append family
    case APPEND_N_CH: {
        auto n = ovlen(op.b, room);
        self(x->append(n, ch), *x);
        n <= room ? (void)mx->append(n, ch) : clamp_event();
        break;
    }
    case APPEND_CSTR:
    case PLUSEQ_CSTR: {
        auto n = ovlen(op.b, room);
        auto s = no_nul(srcn(op.a, n));
        auto b = cbuf(s);
        self(code == APPEND_CSTR ? x->append(b.get()) : (*x += b.get()), *x);
        n <= room ? (void)mx->append(s.c_str()) : clamp_event();
        break;
    }
    case APPEND_PTR_N: {
        auto n = ovlen(op.b, room);
        auto s = srcn(op.a, n);
        auto b = pbuf(s);
        self(x->append(b.get(), b.n), *x);
        n <= room ? (void)mx->append(s.data(), s.size()) : clamp_event();
        break;
    }
    case APPEND_RANGE: {
        auto s = srcn(op.a, fitlen(op.b, room));
        auto b = pbuf(s);
        switch ((op.c >> 1) % 3) {
        case 1: {
            // a genuine (non-pointer) forward iterator, range-checked
            using It = vf::it::Fwd<Char const>;
            vf::it::g_out_of_range = false;
            self(x->append(It(b.get(), b.get(), b.end()), It(b.end(), b.get(), b.end())), *x);
            if (vf::it::g_out_of_range) { fail("append(first,last) stepped outside [first,last)"); }
            break;
        }
        case 2: {
            // a single-pass input iterator draining a FIFO; the std model is fed from an identical second FIFO
            nt_single_pass = true;
            Fifo<Char> fe{b.get(), b.end(), 0};
            Fifo<Char> fm{b.get(), b.end(), 0};
            self(x->append(FifoIt<Char>(&fe), FifoIt<Char>()), *x);
            mx->append(FifoIt<Char>(&fm), FifoIt<Char>());
            if (fe.p != fe.e || fe.pops != fm.pops) { fail("append(single-pass first,last) consumed " + num(fe.pops) + " elements of the source, std consumed " + num(fm.pops)); }
            break;
        }
        default: self(x->append(b.get(), b.end()), *x); break;
        }
        if ((op.c >> 1) % 3 == 2) { break; }
        mx->append(s.begin(), s.end());
        break;
    }
    case APPEND_STR:
    case PLUSEQ_STR: {
        if (srcM.size() <= room) {
            self(code == APPEND_STR ? x->append(srcE) : (*x += srcE), *x);
            mx->append(srcM);
            break;
        }
        [[fallthrough]]; // the whole source does not fit: append a window of it instead
    }
    case APPEND_STR_POS_N: {
        std::size_t pos = 0, cnt = 0;
        fit_window(srcM.size(), pos, cnt, false);
        self(x->append(srcE, pos, cnt), *x);
        mx->append(srcM, pos, cnt);
        break;
    }
    case APPEND_STR_POS: {
        std::size_t pos = 0, cnt = 0;
        fit_window(srcM.size(), pos, cnt, true);
        self(x->append(srcE, pos), *x);
        mx->append(srcM, pos);
        break;
    }
    case APPEND_VIEW:
    case PLUSEQ_VIEW: {
        auto n = ovlen(op.b, room);
        auto s = srcn(op.a, n);
        auto b = pbuf(s);
        self(code == APPEND_VIEW ? x->append(SV(b.get(), b.n)) : (*x += SV(b.get(), b.n)), *x);
        n <= room ? (void)mx->append(SSV(s)) : clamp_event();
        break;
    }
    case APPEND_VIEW_POS_N:
    case APPEND_VIEW_POS: {
        auto s   = srcn(op.a, ovlen(op.b, room) + (op.c >> 4) % 3);
        auto b   = pbuf(s);
        auto pos = vpos(op.a / 8, s.size());
        auto cnt = code == APPEND_VIEW_POS ? knpos : qc(op.b / 16, s.size() - pos, pos);
        self(code == APPEND_VIEW_POS ? x->append(SV(b.get(), b.n), pos) : x->append(SV(b.get(), b.n), pos, cnt), *x);
        std::min(cnt, s.size() - pos) <= room ? (void)mx->append(SSV(s), pos, cnt) : clamp_event();
        break;
    }
    case PLUSEQ_CH: {
        self(*x += ch, *x);
        room >= 1 ? (void)(*mx += ch) : clamp_event();
        break;
    }

    // ------------------------------------------------------------------ insert family (results fit)
    case INSERT_N_CH: {
        auto idx = vpos(op.a, size);
        auto n   = fitlen(op.b, room);
        middle(idx, 0, n);
        self(x->insert(idx, n, ch), *x);
        mx->insert(idx, n, ch);
        break;
    }
    case INSERT_CSTR: {
        auto idx = vpos(op.a, size);
        auto s   = no_nul(srcn(op.a / 8, fitlen(op.b, room)));
        auto b   = cbuf(s);
        middle(idx, 0, s.size());
        self(x->insert(idx, b.get()), *x);
        mx->insert(idx, s.c_str());
        break;
    }
    case INSERT_PTR_N: {
        auto idx = vpos(op.a, size);
        auto s   = srcn(op.a / 8, fitlen(op.b, room));
        auto b   = pbuf(s);
        middle(idx, 0, s.size());
        self(x->insert(idx, b.get(), b.n), *x);
        mx->insert(idx, s.data(), s.size());
        break;
    }
    case INSERT_STR: {
        auto idx = vpos(op.a, size);
        if (srcM.size() <= room) {
            middle(idx, 0, srcM.size());
            self(x->insert(idx, srcE), *x);
            mx->insert(idx, srcM);
            break;
        }
        [[fallthrough]];
    }
    case INSERT_STR_POS_N:
    case INSERT_STR_POS: {
        auto idx        = vpos(op.a, size);
        std::size_t pos = 0, cnt = 0;
        fit_window(srcM.size(), pos, cnt, code == INSERT_STR_POS);
        middle(idx, 0, std::min(cnt, srcM.size() - pos));
        self(code == INSERT_STR_POS ? x->insert(idx, srcE, pos) : x->insert(idx, srcE, pos, cnt), *x);
        mx->insert(idx, srcM, pos, cnt);
        break;
    }
    case INSERT_VIEW: {
        auto idx = vpos(op.a, size);
        auto s   = srcn(op.a / 8, fitlen(op.b, room));
        auto b   = pbuf(s);
        middle(idx, 0, s.size());
        self(x->insert(idx, SV(b.get(), b.n)), *x);
        mx->insert(idx, SSV(s));
        break;
    }
    case INSERT_VIEW_POS_N:
    case INSERT_VIEW_POS: {
        auto idx = vpos(op.a, size);
        // view = head (skipped by pos) + the part that is inserted (+ a tail cut off by count)
        auto part = fitlen(op.b, room);
        auto head = (op.c >> 4) % 3;
        auto tail = code == INSERT_VIEW_POS ? 0U : (op.c >> 6) % 3;
        auto s    = srcn(op.a / 8, head + part + tail);
        auto b    = pbuf(s);
        auto cnt  = (tail == 0 && (op.b & 16U) != 0) ? knpos : part;
        middle(idx, 0, part);
        self(code == INSERT_VIEW_POS ? x->insert(idx, SV(b.get(), b.n), head) : x->insert(idx, SV(b.get(), b.n), head, cnt), *x);
        mx->insert(idx, SSV(s), head, cnt);
        break;
    }

    // ------------------------------------------------------------------ replace family
    case REPLACE_POS_N_STR:
    case REPLACE_IT_STR:
    case REPLACE_POS_N_STR_POS_N:
    case REPLACE_POS_N_STR_POS:
    case REPLACE_POS_N_PTR_N:
    case REPLACE_IT_PTR_N:
    case REPLACE_POS_N_CSTR:
    case REPLACE_IT_CSTR:
    case REPLACE_IT_N_CH: {
        auto pos = vpos(op.a, size);
        auto cnt = qc(op.b, size - pos, pos);
        auto n1  = std::min(cnt, size - pos);                // characters that std replaces
        auto n2  = fitlen(op.b / 16, std::min(N, room + n1)); // length of the replacement: the result fits
        if ((op.a / 8) % 3 == 0) { n2 = n1; }
        if (ex_replace && n2 != n1) {
            // known finding string.replace.length_changing: replace overwrites in place and never changes the length
            vf::excluded_known(tag_replace);
            n2 = n1;
        }
        bool by_it = code == REPLACE_IT_STR || code == REPLACE_IT_PTR_N || code == REPLACE_IT_CSTR || code == REPLACE_IT_N_CH;
        if (by_it) { cnt = n1; }
        middle(pos, n1, n2);
        auto f  = x->cbegin() + static_cast<std::ptrdiff_t>(pos);
        auto l  = f + static_cast<std::ptrdiff_t>(n1);
        auto mf = mx->cbegin() + static_cast<std::ptrdiff_t>(pos);
        auto ml = mf + static_cast<std::ptrdiff_t>(n1);
        auto s  = srcn(op.a / 8, n2);
        switch (code) {
        case REPLACE_POS_N_STR: {
            E t(s.data(), s.size());
            self(x->replace(pos, cnt, t), *x);
            mx->replace(pos, cnt, s);
            break;
        }
        case REPLACE_IT_STR: {
            E t(s.data(), s.size());
            self(x->replace(f, l, t), *x);
            mx->replace(mf, ml, s);
            break;
        }
        case REPLACE_POS_N_STR_POS_N:
        case REPLACE_POS_N_STR_POS: {
            // replacement = t.substr(head, n2) of a longer string t (capacity N limits head/tail)
            std::size_t head = (op.c >> 4) % 3;
            std::size_t tail = code == REPLACE_POS_N_STR_POS ? 0U : (op.c >> 6) % 3;
            if (head + n2 + tail > N) { tail = 0; }
            if (head + n2 > N) { head = N - n2; }
            auto full = gen_str<M, CI>(op.c, head) + s + gen_str<M, CI>(op.c + 1, tail);
            auto cnt2 = (tail == 0 && (op.b & 16U) != 0) ? knpos : n2;
            E t(full.data(), full.size());
            if (code == REPLACE_POS_N_STR_POS) {
                self(x->replace(pos, cnt, t, head), *x);
                mx->replace(pos, cnt, full, head);
            } else {
                self(x->replace(pos, cnt, t, head, cnt2), *x);
                mx->replace(pos, cnt, full, head, cnt2);
            }
            break;
        }
        case REPLACE_POS_N_PTR_N: {
            auto b = pbuf(s);
            self(x->replace(pos, cnt, b.get(), b.n), *x);
            mx->replace(pos, cnt, s.data(), s.size());
            break;
        }
        case REPLACE_IT_PTR_N: {
            auto b = pbuf(s);
            self(x->replace(f, l, b.get(), b.n), *x);
            mx->replace(mf, ml, s.data(), s.size());
            break;
        }
        case REPLACE_POS_N_CSTR:
        case REPLACE_IT_CSTR: {
            // these two overloads call etl::strlen(char const*): they only compile for Char == char on this tree
            if constexpr (std::is_same_v<Char, char>) {
                s      = no_nul(s);
                auto b = cbuf(s);
                if (code == REPLACE_POS_N_CSTR) {
                    self(x->replace(pos, cnt, b.get()), *x);
                    mx->replace(pos, cnt, s.c_str());
                } else {
                    self(x->replace(f, l, b.get()), *x);
                    mx->replace(mf, ml, s.c_str());
                }
            }
            break;
        }
        default: { // REPLACE_IT_N_CH
            self(x->replace(f, l, n2, ch), *x);
            mx->replace(mf, ml, n2, ch);
            break;
        }
        }
        break;
    }

    // ------------------------------------------------------------------ resize, swap, substr, copy
    case RESIZE:
    case RESIZE_CH: {
        auto n = ovlen(op.b, N);
        if (code == RESIZE) {
            x->resize(n);
            n <= N ? mx->resize(n) : clamp_event();
        } else {
            x->resize(n, ch);
            n <= N ? mx->resize(n, ch) : clamp_event();
        }
        break;
    }
    case SWAP_MEMBER: {
        x->swap(*y);
        mx->swap(*my);
        break;
    }
    case SWAP_FREE: {
        using etl::swap;
        swap(*x, *y);
        mx->swap(*my);
        break;
    }
    case SUBSTR: {
        auto pos = vpos(op.a, size);
        auto cnt = qc(op.b, size - pos, pos);
        E const& cx = *x;
        adopt("substr(pos,n)", cx.substr(pos, cnt), mx->substr(pos, cnt), *y, *my);
        break;
    }
    case SUBSTR_DEFAULTS: {
        auto pos = vpos(op.a, size);
        E const& cx = *x;
        if ((op.b & 1U) != 0) {
            adopt("substr()", cx.substr(), mx->substr(), *y, *my);
        } else {
            adopt("substr(pos)", cx.substr(pos), mx->substr(pos), *y, *my);
        }
        break;
    }
    case COPY_OUT:
    case COPY_OUT_DEFAULT: {
        auto pos  = code == COPY_OUT ? vpos(op.a, size) : 0;
        auto cnt  = qc(op.b, size - pos, pos);
        auto want = std::min(cnt, size - pos);
        std::unique_ptr<Char[]> d1(new Char[want]); // exact size: one character too many lands in the redzone
        std::unique_ptr<Char[]> d2(new Char[want]);
        E const& cx = *x;
        auto r1 = code == COPY_OUT ? cx.copy(d1.get(), cnt, pos) : cx.copy(d1.get(), cnt);
        auto r2 = mx->copy(d2.get(), cnt, pos);
        if (r1 != r2) {
            fail("copy(dest," + num(cnt) + "," + num(pos) + ") returned " + num(r1) + " expected " + num(r2));
        } else if (M(d1.get(), r1) != M(d2.get(), r2)) {
            fail("copy(dest," + num(cnt) + "," + num(pos) + ") wrote " + show(M(d1.get(), r1)) + " expected " + show(M(d2.get(), r2)));
        }
        break;
    }

    // ------------------------------------------------------------------ operator+ (result stored in the other string)
    case PLUS_STR_STR: {
        auto s = srcn(op.a, fitlen(op.b, room));
        EO rhs(s.data(), s.size());
        E r = *x + rhs; // the right-hand side has another capacity (and, where possible, the other storage layout)
        adopt("str+str", r, *mx + s, *y, *my);
        break;
    }
    case PLUS_STR_CSTR: {
        auto s = no_nul(srcn(op.a, fitlen(op.b, room)));
        auto b = cbuf(s);
        E r    = *x + b.get();
        adopt("str+cstr", r, *mx + s.c_str(), *y, *my);
        break;
    }
    case PLUS_STR_CH: {
        if (room >= 1) {
            E r = *x + ch;
            adopt("str+ch", r, *mx + ch, *y, *my);
        }
        break;
    }
    case PLUS_CSTR_STR: {
        auto s = no_nul(srcn(op.a, fitlen(op.b, room)));
        auto b = cbuf(s);
        E r    = b.get() + *x;
        adopt("cstr+str", r, s.c_str() + *mx, *y, *my);
        break;
    }
    case PLUS_CH_STR: {
        if constexpr (N >= 1) {
            if (room >= 1) {
                E r = ch + *x;
                adopt("ch+str", r, ch + *mx, *y, *my);
            }
        }
        break;
    }
    case FREE_ERASE: {
        auto r1 = etl::erase(*x, ch);
        auto r2 = std::erase(*mx, ch);
        if (r1 != r2) { fail("erase(str," + show_ch(ch) + ") returned " + num(r1) + " expected " + num(r2)); }
        break;
    }
    case FREE_ERASE_IF: {
        auto pred = [c = ch](Char v) { return v == c || v == Char(0); };
        auto r1   = etl::erase_if(*x, pred);
        auto r2   = std::erase_if(*mx, pred);
        if (r1 != r2) { fail("erase_if(str,pred) returned " + num(r1) + " expected " + num(r2)); }
        break;
    }
    default: break;
    }
}

} // namespace c04
