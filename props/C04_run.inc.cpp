// C04 — the lock-step runner: two etl strings of one (Char, Capacity) configuration and their std::basic_string models.
// (included by props/C04_strings.cpp; the three op families live in C04_ops_*.inc.cpp)
#pragma once

namespace c04 {

// Tr = void: the default traits of both libraries (etl::char_traits / std::char_traits); otherwise one user-supplied traits
// class used by the etl string AND the std model (ci_traits: the comparison / search surface must go through Traits)
template <typename Char, std::size_t N, typename Tr = void>
struct Run {
    static constexpr bool CI = !std::is_void_v<Tr>;
    using ET  = std::conditional_t<CI, Tr, etl::char_traits<Char>>;
    using ST  = std::conditional_t<CI, Tr, std::char_traits<Char>>;
    using E   = etl::basic_inplace_string<Char, N, ET>;
    static constexpr std::size_t N2 = N < 16 ? N + 16 : N + 1; // a second capacity, on the other side of the layout boundary where possible
    using EO  = etl::basic_inplace_string<Char, N2, ET>;
    using M   = std::basic_string<Char, ST>;
    using SV  = etl::basic_string_view<Char, ET>;
    using SSV = std::basic_string_view<Char, ST>;
    static_assert(E::npos == M::npos);

    // canaries around the two strings: ASan does not see an overflow that stays inside the enclosing object
    struct Sandwich {
        std::uint64_t pre{0xA5A5A5A5A5A5A5A5ULL};
        E a{};
        std::uint64_t mid{0x5A5A5A5A5A5A5A5AULL};
        E b{};
        std::uint64_t post{0xC3C3C3C3C3C3C3C3ULL};
    } sw;
    M ma, mb;

    // context of the op being executed
    E* x{nullptr};
    E* y{nullptr};
    M* mx{nullptr};
    M* my{nullptr};
    RawOp op{};
    Char ch{};
    std::size_t room{0};
    std::string err;
    bool clamped{false};
    bool ex_replace{false}, ex_rfind{false}, ex_search_traits{false};
    bool nt_middle{false}, nt_clamp{false}, nt_edge{false}, nt_empty{false}, nt_full{false}, nt_nul{false}, nt_hit{false}, nt_alias{false}, nt_extreme{false}, nt_big{false}, nt_huge{false}, nt_single_pass{false}, nt_case{false};

    // ------------------------------------------------------------------ the invariant the property promises after EVERY op
    static auto inv(char const* name, E const& e) -> std::string
    {
        std::string n = name;
        if (e.size() > e.capacity()) { return n + ": size() " + std::to_string(e.size()) + " > capacity() " + std::to_string(e.capacity()); }
        if (e.capacity() != N || e.max_size() != N) { return n + ": capacity()/max_size() != Capacity"; }
        if (e.data()[e.size()] != Char(0)) { return n + ": data()[size()] is not the null character (size " + std::to_string(e.size()) + ")"; }
        if (static_cast<std::size_t>(e.end() - e.begin()) != e.size()) { return n + ": end()-begin() != size()"; }
        if (e.c_str() != e.data()) { return n + ": c_str() != data()"; }
        if (e.begin() != e.data() || e.cbegin() != e.data() || e.cend() != e.end()) { return n + ": begin()/cbegin()/cend() inconsistent with data()"; }
        return "";
    }

    // contents + observers against the model; `deep` adds the per-index accessors and reverse iteration
    static auto check(char const* name, E const& e, M const& m, bool deep) -> std::string
    {
        if (auto d = inv(name, e); !d.empty()) { return d; }
        std::string n = name;
        if (e.size() != m.size()) { return n + ": size " + std::to_string(e.size()) + " model " + std::to_string(m.size()) + " (content " + show(M(e.data(), e.size())) + " model " + show(m) + ")"; }
        if (e.length() != m.size() || e.empty() != m.empty() || e.full() != (m.size() == N)) { return n + ": length()/empty()/full() wrong"; }
        auto const* p = e.data();
        for (std::size_t i = 0; i < m.size(); ++i) {
            if (p[i] != m[i]) { return n + ": content " + show(M(e.data(), e.size())) + " model " + show(m); }
        }
        if (!deep) { return ""; }
        for (std::size_t i = 0; i < m.size(); ++i) {
            if (e[i] != m[i] || e.begin()[i] != m[i]) { return n + ": operator[]/begin()[i] differ from data()[i] at " + std::to_string(i); }
        }
        if (e[e.size()] != Char(0)) { return n + ": operator[](size()) is not the null character"; }
        if (!m.empty()) {
            if (e.front() != m.front() || e.back() != m.back()) { return n + ": front()/back() wrong"; }
            if (&e.front() != e.data() || &e.back() != e.data() + (m.size() - 1)) { return n + ": front()/back() refer to the wrong element"; }
        }
        std::size_t i = m.size();
        for (auto r = e.rbegin(); r != e.rend(); ++r) {
            if (i == 0) { return n + ": reverse iteration too long"; }
            --i;
            if (*r != m[i]) { return n + ": reverse iteration differs at " + std::to_string(i); }
        }
        if (i != 0) { return n + ": reverse iteration too short"; }
        if (e.crbegin() != e.rbegin() || e.crend() != e.rend()) { return n + ": crbegin/crend wrong"; }
        SV v = e;
        if (v.data() != e.data() || v.size() != e.size()) { return n + ": conversion to basic_string_view wrong"; }
        E::reserve(N);
        E::shrink_to_fit();
        return "";
    }

    // ------------------------------------------------------------------ argument material
    // kinds: part of the target (searches hit), the other string, short generated, longer generated; forced to length len
    auto srcn(std::uint32_t raw, std::size_t len) -> M
    {
        M base;
        switch (raw % 4) {
        case 0: base = mx->substr(spread(raw / 4) % (mx->size() + 1)); break;
        case 1: base = *my; break;
        default: break;
        }
        if (base.size() >= len) {
            base = base.substr(0, len);
        } else {
            base += gen_str<M, CI>(raw, len - base.size());
        }
        if (((raw >> 2) & 1U) != 0) { flipcase(base); }
        return base;
    }
    // ci_traits only: equal under the traits, different code units (flips the case of the ASCII letters)
    auto flipcase(M& s) -> void
    {
        if constexpr (CI) {
            for (auto& c : s) {
                if (c >= 'a' && c <= 'z') {
                    c = static_cast<Char>(c - 'a' + 'A');
                    nt_case = true;
                } else if (c >= 'A' && c <= 'Z') {
                    c = static_cast<Char>(c - 'A' + 'a');
                    nt_case = true;
                }
            }
        }
    }
    // count arguments (see qcount): remembers that a huge count other than npos was used
    auto qc(std::uint32_t raw, std::size_t avail, std::size_t pos = 0) -> std::size_t
    {
        auto c = qcount(raw, avail, pos);
        nt_huge |= is_huge(c);
        return c;
    }
    // search needle: empty, 1..3 characters, as long as the haystack, longer than the haystack
    auto needle(std::uint32_t raw) -> M
    {
        std::size_t const lens[8] = {0, 1, 1, 2, 2, 3, mx->size(), mx->size() + 1};
        auto s = srcn(raw, lens[spread(raw) % 8]);
        nt_empty |= s.empty();
        return s;
    }
    // right-hand side of comparisons: the other string, the string itself, a near miss, unrelated
    auto cmp_other(std::uint32_t raw) -> M
    {
        M r;
        switch (raw % 5) {
        case 0: r = *my; break;
        case 1: r = *mx; break;
        case 2: {
            r = mx->substr(0, spread(raw) % (mx->size() + 1));
            if (r.size() < N) { r.push_back(ch); }
            break;
        }
        case 3: r = mx->substr(0, spread(raw) % (mx->size() + 1)); break;
        default: return srcn(raw / 8, fitlen(raw / 64, N));
        }
        if (((raw / 5) & 1U) != 0) { flipcase(r); }
        return r;
    }
    // finding string.search.traits_eq (user-supplied traits only): a differing result of these functions is counted, not
    // reported, while the finding is open; every other function and every default-traits configuration is unaffected
    auto tolerated(char const* what) -> bool
    {
        if (!ex_search_traits) { return false; }
        std::string w = what;
        bool in_class = w.rfind("find(", 0) == 0 || w.rfind("find_first_of", 0) == 0 || w.rfind("find_last_of", 0) == 0 || w.rfind("find_last_not_of", 0) == 0 || w.rfind("contains", 0) == 0;
        if (in_class) { vf::excluded_known(tag_search_traits); }
        return in_class;
    }
    auto fail(std::string d) -> void
    {
        if (err.empty()) { err = std::move(d); }
    }
    auto self(E const& r, E const& target) -> void
    {
        if (&r != &target) { fail("did not return *this"); }
    }
    // result of a constructor / value-returning op: compare, then store it in `dst`
    auto adopt(char const* what, E const& t, M const& mt, E& dst, M& mdst) -> void
    {
        if (auto d = check(what, t, mt, true); !d.empty()) { fail(d); }
        dst  = t;
        mdst = mt;
    }
    // an appending op whose result does not fit: the property promises only the invariant -> resynchronise the model
    auto clamp_event() -> void
    {
        clamped  = true;
        nt_clamp = true;
    }

    auto do_construct(std::uint32_t code) -> void;
    auto do_modify(std::uint32_t code) -> void;
    auto do_query(std::uint32_t code) -> void;
    auto do_extra(std::uint32_t code) -> void;

    auto run(OpsCase const& k, int stats) -> std::string
    {
        ex_replace = vf::ctx().excluded(tag_replace);
        ex_rfind   = vf::ctx().excluded(tag_rfind);
        ex_search_traits = CI && vf::ctx().excluded(tag_search_traits);
        std::uint32_t last_code = 0;
        for (auto const& o : k.ops) {
            bool tb = (o.c & 1U) != 0;
            x       = tb ? &sw.b : &sw.a;
            y       = tb ? &sw.a : &sw.b;
            mx      = tb ? &mb : &ma;
            my      = tb ? &ma : &mb;
            op      = o;
            ch      = alpha_cfg<Char, CI>(o.c >> 1);
            room    = N - mx->size();
            clamped = false;
            auto code = o.code % NCODES;
            // ops that are impossible in the current state are re-mapped to possible ones
            if (room == 0 && code == PUSH_BACK) { code = mx->empty() ? CLEAR : POP_BACK; }
            if (mx->empty() && (code == POP_BACK || code == ERASE_IT || code == WRITE_INDEX || code == WRITE_FRONT_BACK || code == WRITE_ITER)) { code = room != 0 ? PUSH_BACK : CLEAR; }
            last_code = code;
            if (stats > 1) { vf::count((std::string("op.") + code_names[code]).c_str()); }
            if (code < WRITE_INDEX) {
                do_construct(code);
            } else if (code < FIND_STR) {
                do_modify(code);
            } else if (code < ALIAS_ASSIGN_PTR_N) {
                do_query(code);
            } else {
                do_extra(code);
            }
            if (err.empty() && clamped) {
                err = inv(tb ? "B (after a clamping append)" : "A (after a clamping append)", *x);
                if (err.empty()) { mx->assign(x->data(), x->size()); }
            }
            if (err.empty()) { err = check(tb ? "B" : "A", *x, *mx, true); }
            if (err.empty()) { err = check(tb ? "A" : "B", *y, *my, false); }
            if (err.empty() && (sw.pre != 0xA5A5A5A5A5A5A5A5ULL || sw.mid != 0x5A5A5A5A5A5A5A5AULL || sw.post != 0xC3C3C3C3C3C3C3C3ULL)) { err = "canary next to the string was overwritten"; }
            nt_full |= (mx->size() == N);
            nt_nul |= (mx->find(Char(0)) != M::npos);
            nt_big |= (N >= 255 && mx->size() >= 254);
            for (auto c : *mx) { nt_extreme |= is_extreme(c); }
            if (!err.empty()) { break; }
        }
        if (!err.empty()) { err = std::string("after ") + code_names[last_code] + ": " + err; }
        if (stats > 1) {
            vf::label("hist.middle_insert_erase_replace", nt_middle);
            vf::label("hist.clamp_event", nt_clamp);
            vf::label("hist.query_pos_size_or_beyond", nt_edge);
            vf::label("hist.empty_needle", nt_empty);
            vf::label("hist.reached_full", nt_full);
            vf::label("hist.embedded_nul", nt_nul);
            vf::label("hist.search_hit", nt_hit);
            vf::label("hist.self_referential_argument", nt_alias);
            vf::label("hist.huge_count_not_npos", nt_huge);
            vf::label("hist.single_pass_input_iterator", nt_single_pass);
            if (CI) { vf::label("hist.ci_traits.argument_with_flipped_case", nt_case); }
            vf::label("hist.extreme_code_unit_in_string", nt_extreme);
            if (N >= 255) { vf::label("hist.capacity_255_256_reached_size_254_or_more", nt_big); }
        }
        return err;
    }
    [[nodiscard]] auto nontrivial() const -> bool { return nt_middle || nt_clamp || nt_edge || nt_empty || nt_alias; }
};

} // namespace c04
