// C08 — etl::basic_string_view returns exactly what std::basic_string_view returns, and reads only characters inside
// the views involved.
//
// Engine E2 (complete small-scope enumeration) + seeded random longer strings (vf::Rng).  Oracle: libstdc++
// std::basic_string_view called with the SAME pointers / positions / counts.  Every haystack and needle lives in an
// exact-size heap region (see Exact<T>) without a terminator, so that reading one element before or behind a view is an
// ASan error; the C-string overloads get a second copy whose terminator is the last element.
//
// The same source is compiled four times (see props/registry.d/C08.json):
//   C08_sv_char : Char = char, full scope
//   C08_sv_wide : -DC08_WIDE=1 : wchar_t and char16_t with a reduced scope
//   C08_sv_utf  : -DC08_WIDE=2 : char8_t and char32_t with a reduced scope
//   C08_sv_ci   : -DC08_WIDE=3 : basic_string_view<char, ci_traits> (user-supplied case-insensitive traits) against
//                 std::basic_string_view<char, ci_traits>, full scope over {a, A, b, B}
// C08_sv_char additionally runs the "huge_sizes" sub: views of 2^31-1 .. 2^32+1 characters over a lazily mapped zero region.
//
// Only arguments the standard gives a meaning to are generated: substr / copy / compare(pos1, ...) /
// compare(..., pos2, ...) with pos <= size(), remove_prefix/suffix with n <= size(), operator[] with pos < size(),
// front/back on non-empty views, (pointer, count) overloads with count == length of the exact-size needle block
// (shorter counts are the same call on the prefix needle, which is enumerated with its own exact-size block).
// Not part of the check: max_size() (implementation-defined), at() (does not exist on this tree), operator<=> (does not
// exist on this tree), hash.
#include <etl/string_view.hpp>

#include <compare>
#include <cwchar>
#include <iosfwd>
#include <string>
#include <string_view>

#include <sys/mman.h>

#include "verif.hpp"

#if defined(__SANITIZE_ADDRESS__)
    #include <sanitizer/asan_interface.h>
#else
    #define ASAN_POISON_MEMORY_REGION(a, n)   ((void)(a), (void)(n))
    #define ASAN_UNPOISON_MEMORY_REGION(a, n) ((void)(a), (void)(n))
#endif

namespace {

constexpr std::size_t NPOS = static_cast<std::size_t>(-1);

// ---------------------------------------------------------------- exact-size heap region
// malloc(n) with n == 0 yields one addressable byte under ASan, so a plain malloc(n) cannot catch an over-read of an
// empty view.  Exact<T> therefore allocates [pad | n*sizeof(T) | pad], poisons all of it and un-poisons exactly the
// n*sizeof(T) bytes in the middle: every access before the first or behind the last element is an ASan error, also for
// n == 0.
template <typename T>
struct Exact {
    static constexpr std::size_t pad = 64;
    unsigned char* block{nullptr};
    T* p{nullptr};
    std::size_t n{0};
    std::size_t total{0};
    explicit Exact(std::size_t count) : n{count}
    {
        auto const bytes = n * sizeof(T);
        total            = pad + ((bytes + 7U) & ~std::size_t{7}) + pad;
        block            = static_cast<unsigned char*>(std::malloc(total));
        if (block == nullptr) { std::abort(); }
        std::memset(block, 0xCD, total);
        p = reinterpret_cast<T*>(block + pad);
        ASAN_POISON_MEMORY_REGION(block, total);
        ASAN_UNPOISON_MEMORY_REGION(block + pad, bytes);
    }
    ~Exact()
    {
        ASAN_UNPOISON_MEMORY_REGION(block, total);
        std::free(block);
    }
    Exact(Exact const&)                    = delete;
    auto operator=(Exact const&) -> Exact& = delete;
};

// ---------------------------------------------------------------- user-supplied character traits
// The textbook case-insensitive traits ('A'..'Z' fold to 'a'..'z', nothing else; no locale).  Standalone on purpose: a
// traits class derived from std::char_traits drags namespace std into ADL of etl's unqualified begin/end calls.
// Every search / comparison of basic_string_view has to go through Traits::eq / lt / compare / find / length; the oracle
// is std::basic_string_view<char, ci_traits>.
struct ci_traits {
    using char_type           = char;
    using int_type            = int;
    using off_type            = std::streamoff;
    using pos_type            = std::streampos;
    using state_type          = std::mbstate_t;
    using comparison_category = std::weak_ordering;
    static constexpr auto fold(char c) noexcept -> unsigned char { return static_cast<unsigned char>(c >= 'A' && c <= 'Z' ? c - 'A' + 'a' : c); }
    static constexpr void assign(char& a, char const& b) noexcept { a = b; }
    static constexpr auto eq(char a, char b) noexcept -> bool { return fold(a) == fold(b); }
    static constexpr auto lt(char a, char b) noexcept -> bool { return fold(a) < fold(b); }
    static constexpr auto compare(char const* a, char const* b, std::size_t n) noexcept -> int
    {
        for (std::size_t i = 0; i < n; ++i) {
            if (lt(a[i], b[i])) { return -1; }
            if (lt(b[i], a[i])) { return 1; }
        }
        return 0;
    }
    static constexpr auto length(char const* s) noexcept -> std::size_t
    {
        std::size_t n = 0;
        while (s[n] != char(0)) { ++n; }
        return n;
    }
    static constexpr auto find(char const* s, std::size_t n, char const& c) noexcept -> char const*
    {
        for (std::size_t i = 0; i < n; ++i) {
            if (eq(s[i], c)) { return s + i; }
        }
        return nullptr;
    }
    static constexpr auto move(char* d, char const* s, std::size_t n) noexcept -> char*
    {
        if (d < s) {
            for (std::size_t i = 0; i < n; ++i) { d[i] = s[i]; }
        } else {
            for (std::size_t i = n; i > 0; --i) { d[i - 1] = s[i - 1]; }
        }
        return d;
    }
    static constexpr auto copy(char* d, char const* s, std::size_t n) noexcept -> char*
    {
        for (std::size_t i = 0; i < n; ++i) { d[i] = s[i]; }
        return d;
    }
    static constexpr auto assign(char* s, std::size_t n, char a) noexcept -> char*
    {
        for (std::size_t i = 0; i < n; ++i) { s[i] = a; }
        return s;
    }
    static constexpr auto to_char_type(int_type c) noexcept -> char { return static_cast<char>(c); }
    static constexpr auto to_int_type(char c) noexcept -> int_type { return static_cast<unsigned char>(c); }
    static constexpr auto eq_int_type(int_type a, int_type b) noexcept -> bool { return a == b; }
    static constexpr auto eof() noexcept -> int_type { return -1; }
    static constexpr auto not_eof(int_type c) noexcept -> int_type { return c == eof() ? 0 : c; }
};
template <typename Char, bool Ci>
struct Views {
    using EV = etl::basic_string_view<Char>;
    using SV = std::basic_string_view<Char>;
};
template <>
struct Views<char, true> {
    using EV = etl::basic_string_view<char, ci_traits>;
    using SV = std::basic_string_view<char, ci_traits>;
};

// ---------------------------------------------------------------- huge views
// 4 GiB + 2 pages of lazily mapped zero pages (MAP_NORESERVE): views of size around 2^31 and 2^32 can be formed over it
// without touching more than a few pages, as long as only calls that stop at the SHORTER view's length are made.
// Index 100 holds 'q', everything else is 0.  If the mapping cannot be made the sub-check is counted as "not run".
constexpr std::size_t HUGE_LEN = (std::size_t{1} << 32) + 2 * 4096;
auto huge_map() -> char*
{
    static char* const p = [] {
        void* m = ::mmap(nullptr, HUGE_LEN, PROT_READ | PROT_WRITE, MAP_PRIVATE | MAP_ANONYMOUS | MAP_NORESERVE, -1, 0);
        if (m == MAP_FAILED) { return static_cast<char*>(nullptr); }
        static_cast<char*>(m)[100] = 'q';
        return static_cast<char*>(m);
    }();
    return p;
}

// ---------------------------------------------------------------- functions under test
#define SEARCHES(X) X(find) X(rfind) X(find_first_of) X(find_last_of) X(find_first_not_of) X(find_last_not_of)
#define OTHERS(X)                                                                                                      \
    X(cmp_v) X(cmp_ppv) X(cmp_ppvpp) X(cmp_z) X(cmp_ppz) X(cmp_ppzn)                                                  \
    X(sw_v) X(sw_c) X(sw_z) X(ew_v) X(ew_c) X(ew_z) X(ct_v) X(ct_c) X(ct_z)                                           \
    X(substr_pc) X(substr_p) X(substr_d) X(copy_cp) X(copy_c) X(rmprefix) X(rmsuffix)                                 \
    X(rel_vv) X(rel_vz) X(rel_zv) X(elem) X(frontback) X(iter) X(observers) X(ctors)

enum Fn : int {
#define X(F) F##_v, F##_vd, F##_c, F##_cd, F##_pn, F##_z, F##_zd,
    SEARCHES(X)
#undef X
#define X(F) F,
        OTHERS(X)
#undef X
            FN_COUNT
};
char const* const fn_names[] = {
#define X(F) #F "_v", #F "_vd", #F "_c", #F "_cd", #F "_pn", #F "_z", #F "_zd",
    SEARCHES(X)
#undef X
#define X(F) #F,
        OTHERS(X)
#undef X
};
constexpr int N_SEARCH_FNS = 6 * 7;

// which arguments a function takes (domains are enumerated by for_args / drawn by rand_args)
enum ArgKind { A_NONE, A_POS_ANY, A_P1C1, A_P1C1P2C2, A_P1, A_C1, A_ELEM };
struct FnInfo {
    ArgKind args;
    bool needs_char;   // single-character overload: only for needles of length 1
    bool uses_needle;  // false: result does not depend on the needle (run once per haystack)
    bool is_search;
};
auto fn_info(int fn) -> FnInfo
{
    if (fn < N_SEARCH_FNS) {
        switch (fn % 7) {
        case 0: return {A_POS_ANY, false, true, true};
        case 1: return {A_NONE, false, true, true};
        case 2: return {A_POS_ANY, true, true, true};
        case 3: return {A_NONE, true, true, true};
        case 4: return {A_POS_ANY, false, true, true};
        case 5: return {A_POS_ANY, false, true, true};
        default: return {A_NONE, false, true, true};
        }
    }
    switch (fn) {
    case cmp_v:
    case cmp_z: return {A_NONE, false, true, false};
    case cmp_ppv:
    case cmp_ppz:
    case cmp_ppzn: return {A_P1C1, false, true, false};
    case cmp_ppvpp: return {A_P1C1P2C2, false, true, false};
    case sw_v:
    case sw_z:
    case ew_v:
    case ew_z:
    case ct_v:
    case ct_z: return {A_NONE, false, true, false};
    case sw_c:
    case ew_c:
    case ct_c: return {A_NONE, true, true, false};
    case substr_pc:
    case copy_cp: return {A_P1C1, false, false, false};
    case substr_p:
    case rmprefix:
    case rmsuffix: return {A_P1, false, false, false};
    case substr_d: return {A_NONE, false, false, false};
    case copy_c: return {A_C1, false, false, false};
    case rel_vv:
    case rel_vz:
    case rel_zv: return {A_NONE, false, true, false};
    case elem: return {A_ELEM, false, false, false};
    case ctors: return {A_NONE, false, true, false};
    default: return {A_NONE, false, false, false}; // frontback, iter, observers
    }
}

// ---------------------------------------------------------------- case
enum CharKind { CK_CHAR, CK_WCHAR, CK_CHAR16, CK_CHAR8, CK_CHAR32, CK_CI, CK_COUNT };
char const* const ck_names[] = {"char", "wchar_t", "char16_t", "char8_t", "char32_t", "char_ci"};

struct Case {
    int ck{CK_CHAR};
    int fn{0};
    bool hnull{false}; // haystack is a default-constructed view (data() == nullptr)
    bool nnull{false}; // needle view is default-constructed (only the view overloads differ from the empty needle)
    std::vector<std::uint32_t> hay, nee; // code units
    std::size_t pos{0}, cnt{0}, pos2{0}, cnt2{0};
    std::size_t hhuge{0};  // != 0: the haystack is a view of this size over the huge zero mapping (hay is ignored)
    bool swapped{false};   // the needle view is the object, the haystack view the argument (view overloads only)
};
auto num(std::size_t v) -> std::string { return v == NPOS ? std::string("npos") : std::to_string(v); }
auto units(std::vector<std::uint32_t> const& v, bool null) -> std::string
{
    if (null) { return "null"; }
    if (v.empty()) { return "-"; }
    std::string o;
    char b[16];
    for (std::size_t i = 0; i < v.size(); ++i) {
        std::snprintf(b, sizeof b, i ? ".%x" : "%x", v[i]);
        o += b;
    }
    return o;
}
auto show_case(Case const& k) -> std::string
{
    return std::string(ck_names[k.ck]) + " " + (k.swapped ? "swap:" : "") + fn_names[k.fn] + " " + (k.hhuge != 0 ? "huge:" + std::to_string(k.hhuge) : units(k.hay, k.hnull)) + " " + units(k.nee, k.nnull) + " " + num(k.pos) + " " + num(k.cnt) + " " + num(k.pos2) + " " + num(k.cnt2);
}
auto parse_units(std::string const& s, std::vector<std::uint32_t>& out, bool& null) -> void
{
    out.clear();
    null = (s == "null");
    if (null || s == "-") { return; }
    std::stringstream ss(s);
    std::string t;
    while (std::getline(ss, t, '.')) { out.push_back(static_cast<std::uint32_t>(std::strtoul(t.c_str(), nullptr, 16))); }
}
auto parse_num(std::string const& s) -> std::size_t { return s == "npos" ? NPOS : static_cast<std::size_t>(std::strtoull(s.c_str(), nullptr, 10)); }
auto parse_case(std::string const& cs, Case& k) -> bool
{
    std::stringstream ss(cs);
    std::string ck, fn, h, n, a, b, c, d;
    if (!(ss >> ck >> fn >> h >> n >> a >> b >> c >> d)) { return false; }
    k.ck = -1;
    for (int i = 0; i < CK_COUNT; ++i) {
        if (ck == ck_names[i]) { k.ck = i; }
    }
    k.swapped = fn.rfind("swap:", 0) == 0;
    if (k.swapped) { fn = fn.substr(5); }
    k.hhuge = 0;
    if (h.rfind("huge:", 0) == 0) {
        k.hhuge = static_cast<std::size_t>(std::strtoull(h.c_str() + 5, nullptr, 10));
        h       = "-";
    }
    k.fn = -1;
    for (int i = 0; i < FN_COUNT; ++i) {
        if (fn == fn_names[i]) { k.fn = i; }
    }
    if (k.ck < 0 || k.fn < 0) { return false; }
    parse_units(h, k.hay, k.hnull);
    parse_units(n, k.nee, k.nnull);
    k.pos  = parse_num(a);
    k.cnt  = parse_num(b);
    k.pos2 = parse_num(c);
    k.cnt2 = parse_num(d);
    return true;
}

// ---------------------------------------------------------------- buffers of one (haystack, needle) pair
template <typename Char>
struct Bufs {
    Exact<Char> hay, nee, hayz, neez;
    bool hnull, nnull;
    Bufs(Case const& k) : hay{k.hay.size()}, nee{k.nee.size()}, hayz{k.hay.size() + 1}, neez{k.nee.size() + 1}, hnull{k.hnull}, nnull{k.nnull}
    {
        if constexpr (sizeof(Char) == 1) {
            if (k.hhuge != 0) { // the exact block stays empty; the view goes over the huge mapping
                hay.p = reinterpret_cast<Char*>(huge_map());
                hay.n = k.hhuge;
            }
        }
        for (std::size_t i = 0; i < k.hay.size(); ++i) { hay.p[i] = hayz.p[i] = static_cast<Char>(k.hay[i]); }
        for (std::size_t i = 0; i < k.nee.size(); ++i) { nee.p[i] = neez.p[i] = static_cast<Char>(k.nee[i]); }
        hayz.p[k.hay.size()] = Char(0);
        neez.p[k.nee.size()] = Char(0);
    }
};

long long g_last = 0; // the oracle's answer of the last call (for the non-trivial rule)

auto lnum(long long v) -> std::string { return v == -1 ? std::string("npos(-1)") : std::to_string(v); }
template <typename A, typename B>
auto eq(char const* what, A e, B s) -> std::string
{
    auto const x = static_cast<long long>(e);
    auto const y = static_cast<long long>(s);
    g_last       = y;
    if (x == y) { return {}; }
    return std::string(what) + ": etl " + lnum(x) + " std " + lnum(y);
}
auto sgn(int v) -> int { return (v > 0) - (v < 0); }
// like eq, for results that are not positions (signs, bit masks): printed as plain numbers
template <typename A, typename B>
auto eqn(char const* what, A e, B s) -> std::string
{
    auto const x = static_cast<long long>(e);
    auto const y = static_cast<long long>(s);
    g_last       = y;
    if (x == y) { return {}; }
    return std::string(what) + ": etl " + std::to_string(x) + " std " + std::to_string(y);
}

template <typename Char, typename V>
auto text(V const& v) -> std::string
{
    std::string o = "[";
    for (std::size_t i = 0; i < v.size(); ++i) { o += (i ? "," : "") + std::to_string(static_cast<std::uint32_t>(static_cast<std::make_unsigned_t<Char>>(v.data()[i]))); }
    return o + "]";
}

// ---------------------------------------------------------------- ONE differential call
template <typename Char, bool Ci = false>
auto run_call(Bufs<Char> const& b, Case const& k) -> std::string
{
    using EV = typename Views<Char, Ci>::EV;
    using SV = typename Views<Char, Ci>::SV;
    EV const eh0 = b.hnull ? EV{} : EV{b.hay.p, b.hay.n};
    SV const sh0 = b.hnull ? SV{} : SV{b.hay.p, b.hay.n};
    EV const en0 = b.nnull ? EV{} : EV{b.nee.p, b.nee.n};
    SV const sn0 = b.nnull ? SV{} : SV{b.nee.p, b.nee.n};
    EV const eh  = k.swapped ? en0 : eh0;
    SV const sh  = k.swapped ? sn0 : sh0;
    EV const en  = k.swapped ? eh0 : en0;
    SV const sn  = k.swapped ? sh0 : sn0;
    Char const* const np = b.nee.p;  // exact, no terminator
    Char const* const nz = b.neez.p; // terminator is the last element
    auto const nn        = b.nee.n;
    Char const c         = nn > 0 ? b.nee.p[0] : Char(0);
    auto const pos = k.pos, cnt = k.cnt, pos2 = k.pos2, cnt2 = k.cnt2;
    g_last = 0;

    switch (k.fn) {
#define X(F)                                                                                                           \
    case F##_v: return eq(#F "(view,pos)", eh.F(en, pos), sh.F(sn, pos));                                              \
    case F##_vd: return eq(#F "(view)", eh.F(en), sh.F(sn));                                                           \
    case F##_c: return eq(#F "(char,pos)", eh.F(c, pos), sh.F(c, pos));                                                \
    case F##_cd: return eq(#F "(char)", eh.F(c), sh.F(c));                                                             \
    case F##_pn: return eq(#F "(ptr,pos,count)", eh.F(np, pos, nn), sh.F(np, pos, nn));                                \
    case F##_z: return eq(#F "(cstr,pos)", eh.F(nz, pos), sh.F(nz, pos));                                              \
    case F##_zd: return eq(#F "(cstr)", eh.F(nz), sh.F(nz));
        SEARCHES(X)
#undef X
    case cmp_v: return eqn("sign of compare(view)", sgn(eh.compare(en)), sgn(sh.compare(sn)));
    case cmp_ppv: return eqn("sign of compare(pos1,count1,view)", sgn(eh.compare(pos, cnt, en)), sgn(sh.compare(pos, cnt, sn)));
    case cmp_ppvpp: return eqn("sign of compare(pos1,count1,view,pos2,count2)", sgn(eh.compare(pos, cnt, en, pos2, cnt2)), sgn(sh.compare(pos, cnt, sn, pos2, cnt2)));
    case cmp_z: return eqn("sign of compare(cstr)", sgn(eh.compare(nz)), sgn(sh.compare(nz)));
    case cmp_ppz: return eqn("sign of compare(pos1,count1,cstr)", sgn(eh.compare(pos, cnt, nz)), sgn(sh.compare(pos, cnt, nz)));
    case cmp_ppzn: return eqn("sign of compare(pos1,count1,ptr,count2)", sgn(eh.compare(pos, cnt, np, nn)), sgn(sh.compare(pos, cnt, np, nn)));
    case sw_v: return eq("starts_with(view)", eh.starts_with(en), sh.starts_with(sn));
    case sw_c: return eq("starts_with(char)", eh.starts_with(c), sh.starts_with(c));
    case sw_z: return eq("starts_with(cstr)", eh.starts_with(nz), sh.starts_with(nz));
    case ew_v: return eq("ends_with(view)", eh.ends_with(en), sh.ends_with(sn));
    case ew_c: return eq("ends_with(char)", eh.ends_with(c), sh.ends_with(c));
    case ew_z: return eq("ends_with(cstr)", eh.ends_with(nz), sh.ends_with(nz));
        // std::basic_string_view::contains is C++23; its specification is find(x) != npos
    case ct_v: return eq("contains(view)", eh.contains(en), sh.find(sn) != SV::npos);
    case ct_c: return eq("contains(char)", eh.contains(c), sh.find(c) != SV::npos);
    case ct_z: return eq("contains(cstr)", eh.contains(nz), sh.find(nz) != SV::npos);
    case substr_pc:
    case substr_p:
    case substr_d: {
        auto const e = k.fn == substr_pc ? eh.substr(pos, cnt) : (k.fn == substr_p ? eh.substr(pos) : eh.substr());
        auto const s = k.fn == substr_pc ? sh.substr(pos, cnt) : (k.fn == substr_p ? sh.substr(pos) : sh.substr());
        if (auto d = eq("substr size", e.size(), s.size()); !d.empty()) { return d; }
        if (b.hnull) { return eq("substr of a null view: data()==nullptr", e.data() == nullptr, s.data() == nullptr); }
        return eq("substr data offset", e.data() - b.hay.p, s.data() - b.hay.p);
    }
    case copy_cp:
    case copy_c: {
        auto const p      = k.fn == copy_cp ? pos : 0;
        auto const rcount = std::min(cnt, b.hay.n - p);
        Exact<Char> de{rcount};
        Exact<Char> ds{rcount};
        for (std::size_t i = 0; i < rcount; ++i) { de.p[i] = ds.p[i] = static_cast<Char>(0x5A + i); }
        auto const re = k.fn == copy_cp ? eh.copy(de.p, cnt, pos) : eh.copy(de.p, cnt);
        auto const rs = k.fn == copy_cp ? sh.copy(ds.p, cnt, pos) : sh.copy(ds.p, cnt);
        if (auto d = eq("copy return", re, rs); !d.empty()) { return d; }
        for (std::size_t i = 0; i < rcount; ++i) {
            if (de.p[i] != ds.p[i]) { return "copy: destination differs at index " + std::to_string(i) + ": etl " + text<Char>(SV{de.p, rcount}) + " std " + text<Char>(SV{ds.p, rcount}); }
        }
        return {};
    }
    case rmprefix:
    case rmsuffix: {
        auto e = eh;
        auto s = sh;
        if (k.fn == rmprefix) {
            e.remove_prefix(pos);
            s.remove_prefix(pos);
        } else {
            e.remove_suffix(pos);
            s.remove_suffix(pos);
        }
        if (auto d = eq("remove_prefix/suffix: size", e.size(), s.size()); !d.empty()) { return d; }
        if (b.hnull) { return {}; }
        return eq("remove_prefix/suffix: data offset", e.data() - b.hay.p, s.data() - b.hay.p);
    }
    case rel_vv: {
        int const e = (eh == en) | (eh != en) << 1 | (eh < en) << 2 | (eh <= en) << 3 | (eh > en) << 4 | (eh >= en) << 5;
        int const s = (sh == sn) | (sh != sn) << 1 | (sh < sn) << 2 | (sh <= sn) << 3 | (sh > sn) << 4 | (sh >= sn) << 5;
        return eqn("view OP view, bits(== != < <= > >=)", e, s);
    }
    case rel_vz: {
        int const e = (eh == nz) | (eh != nz) << 1 | (eh < nz) << 2 | (eh <= nz) << 3 | (eh > nz) << 4 | (eh >= nz) << 5;
        int const s = (sh == nz) | (sh != nz) << 1 | (sh < nz) << 2 | (sh <= nz) << 3 | (sh > nz) << 4 | (sh >= nz) << 5;
        return eqn("view OP cstr, bits(== != < <= > >=)", e, s);
    }
    case rel_zv: {
        int const e = (nz == eh) | (nz != eh) << 1 | (nz < eh) << 2 | (nz <= eh) << 3 | (nz > eh) << 4 | (nz >= eh) << 5;
        int const s = (nz == sh) | (nz != sh) << 1 | (nz < sh) << 2 | (nz <= sh) << 3 | (nz > sh) << 4 | (nz >= sh) << 5;
        return eqn("cstr OP view, bits(== != < <= > >=)", e, s);
    }
    case elem: {
        if (auto d = eq("operator[] value", static_cast<std::uint32_t>(eh[pos]), static_cast<std::uint32_t>(sh[pos])); !d.empty()) { return d; }
        return eq("operator[] address offset", &eh[pos] - b.hay.p, &sh[pos] - b.hay.p);
    }
    case frontback: {
        if (b.hay.n == 0 || b.hnull) { return {}; }
        if (auto d = eq("front() address offset", &eh.front() - b.hay.p, &sh.front() - b.hay.p); !d.empty()) { return d; }
        if (auto d = eq("front() value", static_cast<std::uint32_t>(eh.front()), static_cast<std::uint32_t>(sh.front())); !d.empty()) { return d; }
        if (auto d = eq("back() address offset", &eh.back() - b.hay.p, &sh.back() - b.hay.p); !d.empty()) { return d; }
        return eq("back() value", static_cast<std::uint32_t>(eh.back()), static_cast<std::uint32_t>(sh.back()));
    }
    case iter: {
        std::basic_string<Char> f, r, cf, cr, rf, ref{sh.begin(), sh.end()}, rref{sh.rbegin(), sh.rend()};
        for (auto it = eh.begin(); it != eh.end(); ++it) { f.push_back(*it); }
        for (auto it = eh.rbegin(); it != eh.rend(); ++it) { r.push_back(*it); }
        for (auto it = eh.cbegin(); it != eh.cend(); ++it) { cf.push_back(*it); }
        for (auto it = eh.crbegin(); it != eh.crend(); ++it) { cr.push_back(*it); }
        for (auto ch : eh) { rf.push_back(ch); }
        if (auto d = eq("end() - begin()", eh.end() - eh.begin(), sh.end() - sh.begin()); !d.empty()) { return d; }
        if (f != ref || cf != ref || rf != ref) { return "iteration begin..end: etl " + text<Char>(f) + " / " + text<Char>(cf) + " / " + text<Char>(rf) + " std " + text<Char>(ref); }
        if (r != rref || cr != rref) { return "iteration rbegin..rend: etl " + text<Char>(r) + " / " + text<Char>(cr) + " std " + text<Char>(rref); }
        return {};
    }
    case observers: {
        if (auto d = eq("size()", eh.size(), sh.size()); !d.empty()) { return d; }
        if (auto d = eq("length()", eh.length(), sh.length()); !d.empty()) { return d; }
        if (auto d = eq("empty()", eh.empty(), sh.empty()); !d.empty()) { return d; }
        if (b.hnull) { return eq("data() == nullptr", eh.data() == nullptr, sh.data() == nullptr); }
        return eq("data() offset", eh.data() - b.hay.p, sh.data() - b.hay.p);
    }
    case ctors: {
        { // default
            EV e;
            SV s;
            if (auto d = eq("default ctor: size", e.size(), s.size()); !d.empty()) { return d; }
            if (auto d = eq("default ctor: data()==nullptr", e.data() == nullptr, s.data() == nullptr); !d.empty()) { return d; }
        }
        { // from a C string (the terminator is the last element of the block)
            EV e{b.hayz.p};
            SV s{b.hayz.p};
            if (auto d = eq("ctor(cstr): size", e.size(), s.size()); !d.empty()) { return d; }
            if (auto d = eq("ctor(cstr): data offset", e.data() - b.hayz.p, s.data() - b.hayz.p); !d.empty()) { return d; }
        }
        { // from an iterator pair
            EV e{b.hay.p, b.hay.p + b.hay.n};
            SV s{b.hay.p, b.hay.p + b.hay.n};
            if (auto d = eq("ctor(first,last): size", e.size(), s.size()); !d.empty()) { return d; }
            if (auto d = eq("ctor(first,last): data offset", e.data() - b.hay.p, s.data() - b.hay.p); !d.empty()) { return d; }
        }
        { // copy, assignment, swap
            EV e1{eh};
            EV e2;
            e2 = en;
            e1.swap(e2);
            if (e1.data() != en.data() || e1.size() != en.size() || e2.data() != eh.data() || e2.size() != eh.size()) { return "copy ctor / assignment / swap: views do not carry (data,size) over"; }
        }
        return {};
    }
    default: return "harness: unknown function id";
    }
}

// ---------------------------------------------------------------- argument domains
auto any_pos_domain(std::size_t len) -> std::vector<std::size_t>
{
    std::vector<std::size_t> v;
    for (std::size_t p = 0; p <= len + 2; ++p) { v.push_back(p); }
    v.push_back(NPOS);
    return v;
}

// calls f() for every argument tuple of function fn on a haystack of length hn and a needle of length nn
template <typename F>
void for_args(int fn, std::size_t hn, std::size_t nn, Case& k, F f)
{
    k.pos = k.cnt = k.pos2 = k.cnt2 = 0;
    switch (fn_info(fn).args) {
    case A_NONE: f(); break;
    case A_POS_ANY:
        for (auto p : any_pos_domain(hn)) {
            k.pos = p;
            f();
        }
        break;
    case A_P1:
        for (std::size_t p = 0; p <= hn; ++p) {
            k.pos = p;
            f();
        }
        break;
    case A_C1:
        for (auto c : any_pos_domain(hn)) {
            k.cnt = c;
            f();
        }
        break;
    case A_ELEM:
        for (std::size_t p = 0; p < hn; ++p) {
            k.pos = p;
            f();
        }
        break;
    case A_P1C1:
        for (std::size_t p = 0; p <= hn; ++p) {
            for (auto c : any_pos_domain(hn)) {
                k.pos = p;
                k.cnt = c;
                f();
            }
        }
        break;
    case A_P1C1P2C2:
        for (std::size_t p = 0; p <= hn; ++p) {
            for (auto c : any_pos_domain(hn)) {
                for (std::size_t p2 = 0; p2 <= nn; ++p2) {
                    for (auto c2 : any_pos_domain(nn)) {
                        k.pos  = p;
                        k.cnt  = c;
                        k.pos2 = p2;
                        k.cnt2 = c2;
                        f();
                    }
                }
            }
        }
        break;
    }
}

auto rand_pos_any(vf::Rng& r, std::size_t len) -> std::size_t
{
    switch (r.below(8)) {
    case 0: return 0;
    case 1: return len;
    case 2: return len + 1;
    case 3: return NPOS;
    case 4: return len > 0 ? len - 1 : 0;
    case 5: return NPOS - r.below(3);
    default: return r.below(len + 3);
    }
}
template <typename F>
void rand_args(int fn, std::size_t hn, std::size_t nn, Case& k, vf::Rng& r, F f)
{
    k.pos = k.cnt = k.pos2 = k.cnt2 = 0;
    switch (fn_info(fn).args) {
    case A_NONE: break;
    case A_POS_ANY: k.pos = rand_pos_any(r, hn); break;
    case A_P1: k.pos = r.below(4) == 0 ? hn : r.below(hn + 1); break;
    case A_C1: k.cnt = rand_pos_any(r, hn); break;
    case A_ELEM:
        if (hn == 0) { return; }
        k.pos = r.below(hn);
        break;
    case A_P1C1:
        k.pos = r.below(4) == 0 ? hn : r.below(hn + 1);
        k.cnt = rand_pos_any(r, hn - k.pos);
        break;
    case A_P1C1P2C2:
        k.pos  = r.below(4) == 0 ? hn : r.below(hn + 1);
        k.cnt  = rand_pos_any(r, hn - k.pos);
        k.pos2 = r.below(4) == 0 ? nn : r.below(nn + 1);
        k.cnt2 = rand_pos_any(r, nn - k.pos2);
        break;
    }
    f();
}

// ---------------------------------------------------------------- statistics (batched: the per-call engine calls cost more than the calls under test)
struct Tally {
    std::uint64_t evals[5]{}; // per sub
    std::uint64_t cls[9]{};   // class hits
    std::uint64_t searches{0}, compares{0}, total{0};
} g_t;
char const* const sub_names[] = {"search", "compare", "prefix_suffix_contains", "substr_copy_access", "huge_sizes"};
// classes 0..5 are fractions of the search calls, 6 of the compare/relational calls, 7..8 of all calls
char const* const cls_names[] = {"search: empty needle", "search: empty haystack", "search: pos >= size", "search: needle longer than haystack", "search: match at position != 0", "search: nothing found (npos)",
    "compare: result != 0", "all: NUL or >= 0x80 unit (ci_traits: a unit the traits fold) involved", "all: haystack is a null view"};
auto sub_of(int fn) -> int
{
    if (fn < N_SEARCH_FNS) { return 0; }
    if (fn <= cmp_ppzn || fn == rel_vv || fn == rel_vz || fn == rel_zv) { return 1; }
    if (fn <= ct_z) { return 2; }
    return 3;
}
void flush_tally()
{
    for (int i = 0; i < 5; ++i) {
        if (g_t.evals[i]) { vf::eval(sub_names[i], g_t.evals[i]); }
        g_t.evals[i] = 0;
    }
    for (int i = 0; i < 9; ++i) {
        auto& c = vf::stats().classes[cls_names[i]];
        c.first += g_t.cls[i];
        c.second += i <= 5 ? g_t.searches : (i == 6 ? g_t.compares : g_t.total);
        g_t.cls[i] = 0;
    }
    g_t.total = g_t.searches = g_t.compares = 0;
}

struct PairFlags {
    bool special{false}; // NUL or >= 0x80 unit in haystack or needle; for ci_traits also an upper-case letter
};
auto pair_flags(Case const& k) -> PairFlags
{
    PairFlags f;
    bool const ci = k.ck == CK_CI;
    for (auto u : k.hay) { f.special = f.special || u == 0 || u >= 0x80 || (ci && u >= 'A' && u <= 'Z'); }
    for (auto u : k.nee) { f.special = f.special || u == 0 || u >= 0x80 || (ci && u >= 'A' && u <= 'Z'); }
    return f;
}

// executes the call described by k (buffers b belong to k's haystack/needle); returns false after a mismatch
template <typename Char, bool Ci = false>
auto one(Bufs<Char> const& b, Case const& k, PairFlags pf, bool random, bool digest = true) -> bool
{
    auto const info = fn_info(k.fn);
    auto const sub  = k.hhuge != 0 ? 4 : sub_of(k.fn);
    auto d          = run_call<Char, Ci>(b, k);
    if (!d.empty()) {
        vf::mismatch(sub_names[sub], k, d);
        return false;
    }
    ++g_t.evals[sub];
    ++g_t.total;
    auto const hn      = k.hhuge != 0 ? k.hhuge : k.hay.size();
    auto const nn      = k.nee.size();
    bool const has_pos = info.args != A_NONE && info.args != A_C1;
    bool const c0      = info.uses_needle && nn == 0;
    bool const c1      = hn == 0;
    bool const c2      = has_pos && k.pos >= hn;
    bool const c3      = info.uses_needle && nn > hn;
    bool const c4      = info.is_search && g_last != 0 && g_last != -1;
    bool const c5      = pf.special;
    if (info.is_search) {
        ++g_t.searches;
        g_t.cls[0] += c0;
        g_t.cls[1] += c1;
        g_t.cls[2] += c2;
        g_t.cls[3] += c3;
        g_t.cls[4] += c4;
        g_t.cls[5] += g_last == -1;
    } else if (sub_of(k.fn) == 1) {
        ++g_t.compares;
        g_t.cls[6] += k.fn == rel_vv || k.fn == rel_vz || k.fn == rel_zv ? (g_last & 1) == 0 : g_last != 0;
    }
    g_t.cls[7] += c5;
    g_t.cls[8] += k.hnull;
    if (c0 || c1 || c2 || c3 || c4 || c5) {
        if (!random) {
            vf::nontrivial_count();
        } else if (digest) { // random phase: one digest per (pair, function) - the first argument tuple drawn
            std::uint64_t h = vf::mix(vf::mix(vf::mix(vf::mix(vf::mix(vf::mix(0xC08ULL, k.ck), k.fn), k.pos), k.cnt), k.pos2), k.cnt2);
            h               = vf::fnv(k.hay.data(), k.hay.size() * 4, h);
            h               = vf::fnv(k.nee.data(), k.nee.size() * 4, vf::mix(h, 0xFF));
            vf::nontrivial(h);
        }
        static std::uint64_t nth[5] = {0, 0, 0, 0, 0};
        if ((c4 || sub != 0) && hn >= 2 && (++nth[sub] % (sub == 4 ? 97 : 4099)) == 1) {
            vf::sample(sub_names[sub], [&] { return show_case(k) + " -> std answers " + (info.is_search ? lnum(g_last) : std::to_string(g_last)); });
        }
    }
    return true;
}

// ci_traits runs: the same letter in the other case (what the traits fold together)
auto flip_case(std::uint32_t u) -> std::uint32_t
{
    if (u >= 'a' && u <= 'z') { return u - 32; }
    if (u >= 'A' && u <= 'Z') { return u + 32; }
    return u;
}

// all strings of length <= maxlen over the alphabet, shortest first
auto all_strings(std::vector<std::uint32_t> const& alpha, std::size_t maxlen) -> std::vector<std::vector<std::uint32_t>>
{
    std::vector<std::vector<std::uint32_t>> out{{}};
    std::size_t from = 0;
    for (std::size_t l = 1; l <= maxlen; ++l) {
        auto const to = out.size();
        for (std::size_t i = from; i < to; ++i) {
            for (auto a : alpha) {
                auto s = out[i];
                s.push_back(a);
                out.push_back(s);
            }
        }
        from = to;
    }
    return out;
}

template <typename Char>
struct Scope {
    int ck;
    std::vector<std::uint32_t> alpha;
    std::size_t hmax, nmax;        // enumeration
    std::size_t rand_pairs;        // random (haystack, needle) pairs per shard
    std::size_t rand_maxlen;
    std::vector<std::uint32_t> extreme; // extreme code units of the type (sign bit set, min, max, surrogates, 0xFF/0x100 boundary)
    std::vector<std::uint32_t> sym;     // 5 distinct non-NUL units A X Y Z B for the structured long inputs
    std::size_t long_max;               // largest needle length of the structured long inputs
};

// ---------------------------------------------------------------- enumeration of one character type
template <typename Char, bool Ci = false>
void enumerate(vf::Ctx& c, Scope<Char> const& sc, std::uint64_t& work)
{
    auto const hays = all_strings(sc.alpha, sc.hmax);
    auto const nees = all_strings(sc.alpha, sc.nmax);
    Case k;
    k.ck = sc.ck;
    // index hays.size() is the null (default-constructed) haystack, index nees.size() the null needle view
    for (std::size_t hi = 0; hi <= hays.size(); ++hi) {
        for (std::size_t ni = 0; ni <= nees.size(); ++ni) {
            if (!c.mine(work++)) { continue; }
            k.hnull = hi == hays.size();
            k.nnull = ni == nees.size();
            k.hay   = k.hnull ? std::vector<std::uint32_t>{} : hays[hi];
            k.nee   = k.nnull ? std::vector<std::uint32_t>{} : nees[ni];
            Bufs<Char> b{k};
            auto const pf = pair_flags(k);
            vf::Flight<Case> fl("enumeration", k);
            for (int fn = 0; fn < FN_COUNT; ++fn) {
                auto const info = fn_info(fn);
                if (info.needs_char && k.nee.size() != 1) { continue; }
                if (!info.uses_needle && ni != 0) { continue; }
                // the null needle only differs from the empty needle in the overloads that take a view
                if (k.nnull && !(fn < N_SEARCH_FNS ? (fn % 7 <= 1) : (fn == cmp_v || fn == cmp_ppv || fn == cmp_ppvpp || fn == sw_v || fn == ew_v || fn == ct_v || fn == rel_vv || fn == ctors))) { continue; }
                k.fn    = fn;
                bool ok = true;
                for_args(fn, k.hay.size(), k.nee.size(), k, [&] {
                    if (ok) { ok = one<Char, Ci>(b, k, pf, false); }
                });
                if (!ok && !c.memory_only) { return; }
            }
            flush_tally();
        }
    }
}

// ---------------------------------------------------------------- random longer strings
template <typename Char, bool Ci = false>
void random_pairs(vf::Ctx& c, Scope<Char> const& sc)
{
    vf::Rng r{c.seed * 977 + static_cast<std::uint64_t>(sc.ck)};
    Case k;
    k.ck = sc.ck;
    for (std::size_t it = 0; it < sc.rand_pairs; ++it) {
        // alphabet of 1..4 units drawn from the scope's alphabet (small, so that needles do occur in haystacks)
        std::vector<std::uint32_t> al;
        auto const an = 1 + r.below(sc.alpha.size());
        for (std::size_t i = 0; i < an; ++i) {
            // one draw in three comes from the extreme code units of the type
            al.push_back(!sc.extreme.empty() && r.below(3) == 0 ? sc.extreme[r.below(sc.extreme.size())] : sc.alpha[r.below(sc.alpha.size())]);
        }
        auto const hl = r.below(5) == 0 ? r.below(6) : r.below(sc.rand_maxlen + 1);
        k.hnull       = false;
        k.nnull       = false;
        k.hay.clear();
        for (std::size_t i = 0; i < hl; ++i) { k.hay.push_back(al[r.below(al.size())]); }
        k.nee.clear();
        auto const mode = r.below(10);
        if (mode < 5 && hl > 0) { // substring of the haystack
            auto const st = r.below(hl);
            auto const ln = r.below(std::min<std::size_t>(hl - st, 8) + 1);
            k.nee.assign(k.hay.begin() + static_cast<long>(st), k.hay.begin() + static_cast<long>(st + ln));
            if (mode >= 3 && !k.nee.empty()) { k.nee[r.below(k.nee.size())] = sc.alpha[r.below(sc.alpha.size())]; } // one unit changed
        } else if (mode == 5) { // haystack plus something: longer than the haystack
            k.nee = k.hay;
            k.nee.push_back(al[r.below(al.size())]);
        } else {
            auto const ln = r.below(7);
            for (std::size_t i = 0; i < ln; ++i) { k.nee.push_back(al[r.below(al.size())]); }
        }
        if constexpr (Ci) { // the needle in (randomly) different case than the haystack
            for (auto& u : k.nee) {
                if (r.below(2) == 0) { u = flip_case(u); }
            }
        }
        Bufs<Char> b{k};
        auto const pf = pair_flags(k);
        vf::Flight<Case> fl("random", k);
        for (int fn = 0; fn < FN_COUNT; ++fn) {
            auto const info = fn_info(fn);
            if (info.needs_char && k.nee.size() != 1) { continue; }
            k.fn    = fn;
            bool ok = true;
            for (int rep = 0; rep < (info.args == A_NONE ? 1 : 3); ++rep) {
                rand_args(fn, k.hay.size(), k.nee.size(), k, r, [&] {
                    if (ok) { ok = one<Char, Ci>(b, k, pf, true, rep == 0); }
                });
            }
            if (!ok && !c.memory_only) { return; }
        }
        if (it < 2) {
            k.fn = find_v;
            k.pos = k.cnt = k.pos2 = k.cnt2 = 0;
            vf::sample("search", [&] { return "random pair: " + show_case(k); });
        }
        flush_tally();
    }
}

// ---------------------------------------------------------------- structured long inputs
// Needles of length L around the thresholds of skip-ahead / Horspool / two-way / SIMD-prefilter searches, built from
// periodic and almost-periodic patterns, and haystacks built from those needles (prefix of the needle + needle, near miss +
// needle, overlapping repetitions, needle at the very start / very end / cut off by the end).  Every search function and
// compare / starts_with / ends_with / contains run at the positions around the real matches and around size()-L.
using Units = std::vector<std::uint32_t>;
auto cat(Units a, Units const& b) -> Units
{
    a.insert(a.end(), b.begin(), b.end());
    return a;
}
auto head(Units const& a, std::size_t n) -> Units { return Units(a.begin(), a.begin() + static_cast<long>(std::min(n, a.size()))); }
auto tail_from(Units const& a, std::size_t n) -> Units { return Units(a.begin() + static_cast<long>(std::min(n, a.size())), a.end()); }

struct LongNeedle {
    Units n;
    std::size_t hint; // period / recurrence distance of the pattern (0 = none)
};
auto long_needles(std::vector<std::uint32_t> const& sym, std::size_t L) -> std::vector<LongNeedle>
{
    auto const A = sym[0], X = sym[1], Y = sym[2], B = sym[4];
    std::set<Units> seen;
    std::vector<LongNeedle> out;
    auto add = [&](Units u, std::size_t hint) {
        if (u.size() == L && seen.insert(u).second) { out.push_back({std::move(u), hint}); }
    };
    for (std::size_t p : {1U, 2U, 3U, 7U, 8U, 15U, 16U, 17U, 31U, 32U}) {
        if (p >= L) { continue; }
        Units base(L);
        for (std::size_t i = 0; i < L; ++i) { base[i] = i % p == 0 ? A : (i % p == 1 ? B : X); }
        add(base, p);
        for (std::size_t at : {L - 1, std::size_t{0}, L / 2}) {
            auto v = base;
            v[at]  = Y;
            add(v, p);
        }
    }
    // the first unit recurs exactly at distance d, nowhere else
    for (std::size_t d : {1U, 2U, 3U, 7U, 8U, 9U, 15U, 16U, 17U, 18U, 31U, 32U, 33U, 63U, 64U, 65U, 127U, 128U, 129U}) {
        if (d + 2 > L) { continue; }
        Units v(L, X);
        v[0] = A;
        v[d] = A;
        add(v, d);
        v[L - 1] = Y;
        add(v, d);
    }
    // runs
    {
        Units v(L, A);
        v[L - 1] = X;
        add(v, 1);
        Units w(L, X);
        w[0] = A;
        add(w, 0);
        Units u(L, A);
        for (std::size_t i = L / 2; i < L; ++i) { u[i] = X; }
        add(u, 1);
    }
    return out;
}
auto long_haystacks(std::vector<std::uint32_t> const& sym, LongNeedle const& ln) -> std::vector<Units>
{
    auto const Z  = sym[3];
    auto const& n = ln.n;
    auto const L  = n.size();
    std::set<Units> seen;
    std::vector<Units> out;
    auto add = [&](Units u) {
        if (seen.insert(u).second) { out.push_back(std::move(u)); }
    };
    std::set<std::size_t> ks{1, 2, L / 2, L - 1};
    if (ln.hint > 0 && ln.hint < L) {
        ks.insert(ln.hint);
        ks.insert(ln.hint + 1);
    }
    for (auto k : ks) {
        add(cat(head(n, k), n));                    // prefix of the needle + needle
        add(cat(n, tail_from(n, k)));               // needle + needle shifted by k (overlapping repetition or near miss)
        add(cat(cat(head(n, k), head(n, L - 1)), cat(Units{Z}, n))); // prefix + needle cut short + junk + needle
    }
    auto miss_last = n;
    miss_last[L - 1] = Z;
    auto miss_mid    = n;
    miss_mid[L / 2]  = Z;
    add(cat(miss_last, n));                         // near miss (last unit) + needle
    add(cat(miss_mid, n));                          // near miss (middle unit) + needle
    add(cat(cat(n, n), n));                         // repetitions
    add(cat(Units{Z, Z, Z}, n));                    // needle at the very end
    add(cat(n, Units{Z, Z, Z}));                    // needle at the very start
    add(cat(Units{Z}, head(n, L - 1)));             // needle cut off by the end of the haystack: no match, over-read bait
    add(cat(cat(n, Units{Z}), head(n, L - 1)));     // one match, then the needle cut off by the end
    add(head(n, L - 1));                            // haystack one unit shorter than the needle
    add(n);                                         // haystack == needle
    return out;
}

template <typename Char, bool Ci = false>
void structured(vf::Ctx& c, Scope<Char> const& sc, std::uint64_t& work)
{
    using SV = typename Views<Char, Ci>::SV;
    Case k;
    k.ck = sc.ck;
    for (std::size_t L : {7U, 8U, 9U, 15U, 16U, 17U, 31U, 32U, 33U, 63U, 64U, 65U, 127U, 128U, 129U, 255U, 256U, 257U}) {
        if (L > sc.long_max) { continue; }
        bool const big = L > 65; // the character-class searches are O(size * L): only a few of them on the big inputs
        for (auto const& ln : long_needles(sc.sym, L)) {
            if (!c.mine(work++)) { continue; }
            for (auto const& hay : long_haystacks(sc.sym, ln)) {
                k.hnull = k.nnull = false;
                k.hay             = hay;
                k.nee             = ln.n;
                if constexpr (Ci) { // every other haystack unit in the other case
                    for (std::size_t i = 1; i < k.hay.size(); i += 2) { k.hay[i] = flip_case(k.hay[i]); }
                }
                Bufs<Char> b{k};
                auto const pf = pair_flags(k);
                vf::Flight<Case> fl("structured", k);
                auto const hn = hay.size();
                // positions: around the first and the last real match (the oracle tells where they are), around size()-L, the ends
                SV const sh{b.hay.p, hn};
                SV const sn{b.nee.p, L};
                auto const m  = sh.find(sn);
                auto const rm = sh.rfind(sn);
                std::set<std::size_t> ps{0, 1, hn, NPOS};
                for (auto x : {m, rm}) {
                    if (x != NPOS) {
                        ps.insert(x);
                        ps.insert(x + 1);
                        if (x > 0) { ps.insert(x - 1); }
                    }
                }
                if (hn >= L) {
                    ps.insert(hn - L);
                    ps.insert(hn - L + 1);
                }
                bool ok   = true;
                auto call = [&](int fn, std::size_t pos, std::size_t cnt, std::size_t pos2, std::size_t cnt2) {
                    if (!ok) { return; }
                    k.fn   = fn;
                    k.pos  = pos;
                    k.cnt  = cnt;
                    k.pos2 = pos2;
                    k.cnt2 = cnt2;
                    ok     = one<Char, Ci>(b, k, pf, false);
                };
                for (int fam = 0; fam < 6; ++fam) {
                    bool const substring_search = fam <= 1; // find, rfind
                    for (int form : {0, 4, 5}) {            // (view,pos) (ptr,pos,count) (cstr,pos)
                        if (big && !substring_search && form != 0) { continue; }
                        for (auto pos : ps) {
                            if (big && !substring_search && pos != 0 && pos != NPOS && pos != m) { continue; }
                            call(fam * 7 + form, pos, 0, 0, 0);
                        }
                    }
                    call(fam * 7 + 1, 0, 0, 0, 0); // (view), default pos
                    if (!big || substring_search) { call(fam * 7 + 6, 0, 0, 0, 0); } // (cstr), default pos
                }
                for (int fn : {cmp_v, cmp_z, sw_v, sw_z, ew_v, ew_z, ct_v, ct_z, rel_vv, rel_vz, rel_zv}) { call(fn, 0, 0, 0, 0); }
                std::set<std::size_t> cps{0};
                if (m != NPOS) { cps.insert(m); }
                if (rm != NPOS) { cps.insert(rm); }
                if (hn >= L) { cps.insert(hn - L); }
                for (auto pos : cps) {
                    for (auto cnt : {L, L - 1, L + 1, NPOS}) {
                        for (int fn : {cmp_ppv, cmp_ppz, cmp_ppzn}) { call(fn, pos, cnt, 0, 0); }
                        call(cmp_ppvpp, pos, cnt, 0, NPOS);
                        call(cmp_ppvpp, pos, cnt, 1, L - 1);
                    }
                }
                if (!ok && !c.memory_only) { return; }
                flush_tally();
            }
        }
    }
}

// ---------------------------------------------------------------- huge sizes
// Views of size around 2^31 and 2^32 over the zero mapping against empty / short views, in both roles.  Only calls that
// stop at the shorter view's length, find their answer within the first few hundred units, or start a few units before
// the end are made, so nothing large is read.  Size arithmetic (compare's length tie-break, substr/copy/remove_* clamps,
// rfind's position clamp) must not pass through a 32-bit or signed type.
[[maybe_unused]] void huge_sizes(vf::Ctx& c, std::uint64_t& work)
{
    if (!c.mine(work++)) { return; }
    if (huge_map() == nullptr) {
        vf::count("huge_sizes: mmap of 4 GiB (MAP_NORESERVE) failed - sub-check not run");
        return;
    }
    constexpr std::size_t G2 = std::size_t{1} << 31, G4 = std::size_t{1} << 32;
    std::vector<std::size_t> sizes{G2 - 1, G2, G2 + 1, G4, G4 + 1, 3 * (G2 / 2)};
    if (c.thorough()) {
        for (std::size_t s : {G4 - 1, G2 + G2 / 2 + 1, G2 - 2, G4 + 4096}) { sizes.push_back(s); }
    }
    std::vector<Units> const needles{{}, {0}, {0, 0, 0}, {'q'}};
    Case k;
    k.ck = CK_CHAR;
    for (auto S : sizes) {
        for (auto const& nee : needles) {
            k.hnull = k.nnull = false;
            k.hhuge           = S;
            k.hay.clear();
            k.nee = nee;
            Bufs<char> b{k};
            auto const pf = pair_flags(k);
            vf::Flight<Case> fl("huge_sizes", k);
            auto const nn = nee.size();
            bool ok       = true;
            auto call     = [&](bool swapped, int fn, std::size_t pos, std::size_t cnt, std::size_t pos2, std::size_t cnt2) {
                if (!ok) { return; }
                k.swapped = swapped;
                k.fn      = fn;
                k.pos     = pos;
                k.cnt     = cnt;
                k.pos2    = pos2;
                k.cnt2    = cnt2;
                ok        = one<char>(b, k, pf, false);
            };
            bool const is_q = nn == 1 && nee[0] == 'q';
            // ---- the huge view is the object
            for (int fn : {cmp_v, cmp_z, rel_vv, rel_vz, rel_zv, sw_v, sw_z, ew_v, ew_z, ct_v, ct_z, substr_d, frontback, observers}) { call(false, fn, 0, 0, 0, 0); }
            if (nn == 1) {
                for (int fn : {sw_c, ew_c, ct_c}) { call(false, fn, 0, 0, 0, 0); }
            }
            for (auto pos : {std::size_t{0}, std::size_t{1}, std::size_t{99}, G2 - 1, G2, S - 1, S}) {
                if (pos > S) { continue; }
                for (auto cnt : {std::size_t{0}, std::size_t{2}, S, S - 1, G2, NPOS}) {
                    for (int fn : {cmp_ppv, cmp_ppz, cmp_ppzn, substr_pc}) { call(false, fn, pos, cnt, 0, 0); }
                    call(false, cmp_ppvpp, pos, cnt, 0, NPOS);
                    call(false, cmp_ppvpp, pos, cnt, nn, 1);
                }
                for (int fn : {substr_p, rmprefix, rmsuffix}) { call(false, fn, pos, 0, 0, 0); }
                for (auto cnt : {std::size_t{0}, std::size_t{3}}) { call(false, copy_cp, pos, cnt, 0, 0); }
                if (pos < S) { call(false, elem, pos, 0, 0, 0); }
            }
            call(false, copy_c, 0, 3, 0, 0);
            // forward searches: the answer lies at 0 or 100, or the search starts 2 units before the end
            for (int fam : {0, 2, 4}) { // find, find_first_of, find_first_not_of
                for (auto pos : {std::size_t{0}, std::size_t{50}, std::size_t{100}, S - 2, S - 1, S, S + 1, NPOS}) {
                    // find_first_not_of("q") from 100 on and find/find_first_of("q") from 101 on would walk 4 GiB of zeros - not generated
                    if (is_q && fam == 4 && pos == 100) { continue; }
                    // etl's find_first_of with an EMPTY needle visits every position (no character is read, the answer npos is right,
                    // but it takes size() steps where std answers at once): not generated on huge views
                    // (the C-string forms see an empty needle whenever the needle starts with NUL)
                    if (nn == 0 && fam == 2) { continue; }
                    for (int form : {0, 4, 5}) {
                        if (fam == 2 && form == 5 && !is_q) { continue; }
                        call(false, fam * 7 + form, pos, 0, 0, 0);
                    }
                    if (nn == 1) { call(false, fam * 7 + 2, pos, 0, 0, 0); }
                }
                if (nn == 0 && fam == 2) { continue; }
                for (int form : {1, 6}) {
                    if (fam == 2 && form == 6 && !is_q) { continue; }
                    call(false, fam * 7 + form, 0, 0, 0, 0);
                }
                if (nn == 1) { call(false, fam * 7 + 3, 0, 0, 0, 0); }
            }
            // backward searches from a small position only (the default npos would walk the whole view)
            for (int fam : {1, 3, 5}) { // rfind, find_last_of, find_last_not_of
                for (auto pos : {std::size_t{0}, std::size_t{50}, std::size_t{100}, std::size_t{200}}) {
                    for (int form : {0, 4, 5}) { call(false, fam * 7 + form, pos, 0, 0, 0); }
                    if (nn == 1) { call(false, fam * 7 + 2, pos, 0, 0, 0); }
                }
            }
            // ---- the short view is the object, the huge view the argument
            for (int fn : {cmp_v, rel_vv, sw_v, ew_v, ct_v, find_v, find_vd, rfind_v, rfind_vd, find_first_of_v, find_first_not_of_v, find_last_of_v, find_last_not_of_v}) {
                call(true, fn, fn == rfind_v || fn == find_last_of_v || fn == find_last_not_of_v ? NPOS : 0, 0, 0, 0);
            }
            for (std::size_t pos = 0; pos <= nn; ++pos) {
                for (auto cnt : {std::size_t{0}, std::size_t{1}, NPOS}) {
                    call(true, cmp_ppv, pos, cnt, 0, 0);
                    for (auto pos2 : {std::size_t{0}, std::size_t{99}, G2, S - 1, S}) {
                        if (pos2 > S) { continue; }
                        for (auto cnt2 : {std::size_t{0}, std::size_t{2}, G2, S, NPOS}) { call(true, cmp_ppvpp, pos, cnt, pos2, cnt2); }
                    }
                }
            }
            k.swapped = false;
            if (!ok && !c.memory_only) { return; }
            flush_tally();
        }
    }
}

template <typename Char, bool Ci = false>
auto replay_one(Case const& k) -> std::string
{
    Bufs<Char> b{k};
    vf::Flight<Case> fl("replay", k);
    return run_call<Char, Ci>(b, k);
}

} // namespace

// the second, smaller enumeration puts the extreme code units of the type next to 'a' and NUL
template <typename Char, bool Ci = false>
void run_type(vf::Ctx& c, Scope<Char> const& sc, std::uint64_t& work)
{
    enumerate<Char, Ci>(c, sc, work);
    auto ex     = sc;
    ex.alpha    = {sc.alpha[0], 0};
    ex.alpha.insert(ex.alpha.end(), sc.extreme.begin(), sc.extreme.end());
    ex.hmax     = c.thorough() ? 3U : 2U;
    ex.nmax     = 2U;
    enumerate<Char, Ci>(c, ex, work);
    structured<Char, Ci>(c, sc, work);
    random_pairs<Char, Ci>(c, sc);
}

void vf_run(vf::Ctx& c)
{
    std::uint64_t work = 0;
    bool const t       = c.thorough();
    [[maybe_unused]] auto const u = [](auto v) { return static_cast<std::uint32_t>(v); };
#if !defined(C08_WIDE)
    // the property's scope: all haystacks of length <= 4 (thorough 5), needles <= 3 (4) over {a, b, NUL, 0xE9}
    Scope<char> sc{CK_CHAR, {'a', 'b', 0, 0xE9}, t ? 5U : 4U, t ? 4U : 3U, t ? 5000U : 2500U, 64, {0x7F, 0x80, 0xFF}, {'a', 'x', 'y', 'z', 0xE9}, 257};
    run_type<char>(c, sc, work);
    huge_sizes(c, work);
#elif C08_WIDE == 1
    // wchar_t is a signed 32-bit type here and std::char_traits<wchar_t> orders it with the built-in <: negative units sort first
    Scope<wchar_t> sw{CK_WCHAR, {L'a', L'b', 0, 0x20AC}, t ? 4U : 3U, t ? 3U : 2U, t ? 4000U : 1200U, 64, {u(-1), u(WCHAR_MIN), u(WCHAR_MAX), 0x100, 0xFF}, {L'a', L'x', u(-1), L'z', u(WCHAR_MAX)}, t ? 257U : 129U};
    run_type<wchar_t>(c, sw, work);
    Scope<char16_t> s16{CK_CHAR16, {u'a', u'b', 0, 0xD83D}, t ? 4U : 3U, t ? 3U : 2U, t ? 4000U : 1200U, 64, {0xD800, 0xDFFF, 0xFFFF, 0x0100, 0x00FF}, {u'a', u'x', 0xFFFF, u'z', 0xD800}, t ? 257U : 129U};
    run_type<char16_t>(c, s16, work);
#elif C08_WIDE == 3
    // user-supplied traits: basic_string_view<char, ci_traits> against std::basic_string_view<char, ci_traits>.  The second
    // enumeration adds the neighbours of the folded ranges ('@' '[' '`' '{'), Z/z, NUL and two Latin-1 letters the traits must NOT fold.
    Scope<char> sci{CK_CI, {'a', 'A', 'b', 'B'}, t ? 5U : 4U, 3U, t ? 5000U : 2000U, 64, {'@', '[', '`', '{', 'Z', 'z', 0xC1, 0xE1}, {'a', 'X', 'y', 'Z', 'B'}, t ? 257U : 129U};
    run_type<char, true>(c, sci, work);
#else
    Scope<char8_t> s8{CK_CHAR8, {u8'a', u8'b', 0, 0xC3}, t ? 4U : 3U, t ? 3U : 2U, t ? 4000U : 1200U, 64, {0x80, 0xFF, 0x7F}, {u8'a', u8'x', 0xFF, u8'z', 0x80}, t ? 257U : 129U};
    run_type<char8_t>(c, s8, work);
    Scope<char32_t> s32{CK_CHAR32, {U'a', U'b', 0, 0x1F600}, t ? 4U : 3U, t ? 3U : 2U, t ? 4000U : 1200U, 64, {0x10FFFF, 0x80000000U, 0xFFFFFFFFU, 0x0100}, {U'a', U'x', 0xFFFFFFFFU, U'z', 0x80000000U}, t ? 257U : 129U};
    run_type<char32_t>(c, s32, work);
#endif
}

std::string vf_replay(std::string const& sub, std::string const& cs)
{
    (void)sub;
    Case k;
    if (!parse_case(cs, k)) { return "harness: cannot parse case string"; }
    auto const info = fn_info(k.fn);
    if (info.needs_char && k.nee.size() != 1) { return "harness: single-character overload needs a needle of length 1"; }
    if (k.swapped && !(k.fn < N_SEARCH_FNS ? k.fn % 7 <= 1 : (k.fn == cmp_v || k.fn == cmp_ppv || k.fn == cmp_ppvpp || k.fn == sw_v || k.fn == ew_v || k.fn == ct_v || k.fn == rel_vv))) {
        return "harness: swap: is only defined for the overloads that take a view";
    }
    if (k.hhuge != 0) {
        if (k.ck != CK_CHAR || k.hhuge > HUGE_LEN) { return "harness: huge views exist for char only, up to 4 GiB + 2 pages"; }
        if (huge_map() == nullptr) { return {}; } // cannot be run here: not a failure
    }
    switch (k.ck) {
#if !defined(C08_WIDE)
    case CK_CHAR: return replay_one<char>(k);
#elif C08_WIDE == 1
    case CK_WCHAR: return replay_one<wchar_t>(k);
    case CK_CHAR16: return replay_one<char16_t>(k);
#elif C08_WIDE == 3
    case CK_CI: return replay_one<char, true>(k);
#else
    case CK_CHAR8: return replay_one<char8_t>(k);
    case CK_CHAR32: return replay_one<char32_t>(k);
#endif
    default: return "harness: character type not built into this binary";
    }
}
