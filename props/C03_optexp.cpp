// C03 — lifetimes of the value contained in optional<Tracked> and expected<Tracked, TrackedErr> (copy+move, move-only
// and copy-only kinds).  Oracle: see props/C03_shared.cpp (registry invariants; value snapshots only around self
// copy-assignment / self-swap and for the read-back of a fresh assignment into a moved-from / copied-from source).
// Engines: E1 rapidcheck histories over three objects + E2 all op pairs (thorough: triples) after a fixed prefix.
//
// Not part of the check because it does not compile on this tree: copy operations with the move-only kind, the const&
// value_or / or_else of optional<TMO>, expected::and_then / or_else with move-only types, expected::swap (no member;
// etl::swap's generic three-move form is used), assignment of a value / unexpected to an expected (not declared).
#include <etl/expected.hpp>
#include <etl/optional.hpp>

#include "C03_shared.cpp"

namespace {

using namespace c03;

// ================================================================== optional
enum Code : std::uint32_t {
    EMPLACE, RESET, ASSIGN_NULLOPT, ASSIGN_VALUE_RREF, ASSIGN_VALUE_CREF, ASSIGN_INT, WRITE, COPY_CTOR, MOVE_CTOR, COPY_ASSIGN, MOVE_ASSIGN, SELF_COPY_ASSIGN, SELF_MOVE_ASSIGN,
    SWAP_MEMBER, SWAP_FREE, SELF_SWAP_MEMBER, SELF_SWAP_FREE, CONV_CTOR_COPY, CONV_CTOR_MOVE, CONV_ASSIGN_COPY, CONV_ASSIGN_MOVE, VALUE_OR_CREF, VALUE_OR_RREF, AND_THEN, OR_ELSE_CREF, OR_ELSE_RREF,
    MAKE_OPTIONAL, CTOR_VALUE, COMPARE,
    NCODES
};
char const* const code_names[] = {"emplace", "reset", "=nullopt", "=T&&", "=T const&", "=int (converting)", "*o=T", "copy-ctor", "move-ctor+refill source", "copy-assign", "move-assign+refill source",
    "self copy-assign", "self move-assign", "swap(member)", "swap(free)", "self swap(member)", "self swap(free)", "ctor(optional<int> const&)", "ctor(optional<int>&&)", "=optional<int> const&", "=optional<int>&&",
    "value_or const&", "value_or &&", "and_then", "or_else const&", "or_else &&", "make_optional", "ctor(value)/in_place", "compare"};
static_assert(sizeof(code_names) / sizeof(code_names[0]) == NCODES);

template <typename T>
struct OPT {
    using V                  = etl::optional<T>;
    static constexpr bool CP = std::is_copy_constructible_v<T>;

    static auto snap(V const& o) -> std::vector<int>
    {
        if (!o.has_value()) { return {}; }
        return {(*o).get()};
    }
    static void touch(V const& o)
    {
        if (o.has_value()) {
            (void)(*o).get();
            (void)o->get();
        }
    }
    // fresh assignment into a moved-from / copied-from source, read back
    static void refill(V& x, std::uint32_t raw, int val, Hist& h, char const* who)
    {
        int w = val + 40;
        std::vector<int> want{w};
        switch (raw % 5) {
        case 0: x.emplace(w); break;
        case 1: x = T(w); break;
        case 2: x = V(etl::in_place, w); break;
        case 3: {
            if constexpr (CP) {
                V fresh(etl::in_place, w);
                x = fresh;
            } else {
                x = w;
            }
            break;
        }
        default: {
            x = etl::nullopt;
            want.clear();
            break;
        }
        }
        auto got = snap(x);
        if (got != want) { h.fail(std::string(who) + " does not read back a fresh assignment: wrote " + show(want) + " read " + show(got)); }
    }

    static auto run(OpsCase const& k, int stats) -> std::string
    {
        lt::reset();
        Hist h;
        {
            V o[3];
            for (auto const& op : k.ops) {
                auto xi   = op.c % 3;
                auto yi   = (xi + 1 + (op.c / 3) % 2) % 3;
                V& x      = o[xi];
                V& y      = o[yi];
                int val   = static_cast<int>((op.c >> 3) % 7) + 1;
                auto code = op.code % NCODES;
                if constexpr (!CP) {
                    switch (code) {
                    case ASSIGN_VALUE_CREF: code = ASSIGN_VALUE_RREF; break;
                    case COPY_CTOR: code = MOVE_CTOR; break;
                    case COPY_ASSIGN: code = MOVE_ASSIGN; break;
                    case SELF_COPY_ASSIGN: code = SELF_MOVE_ASSIGN; break;
                    case VALUE_OR_CREF: code = VALUE_OR_RREF; break;
                    case OR_ELSE_CREF: code = OR_ELSE_RREF; break;
                    default: break;
                    }
                }
                bool had = x.has_value();
                if (!had && code == WRITE) { code = EMPLACE; }
                if (stats > 1) { vf::count((std::string("opt.") + code_names[code]).c_str()); }
                switch (code) {
                case EMPLACE: x.emplace(val); break;
                case RESET: x.reset(); break;
                case ASSIGN_NULLOPT: x = etl::nullopt; break;
                case ASSIGN_VALUE_RREF: x = T(val); break;
                case ASSIGN_VALUE_CREF: {
                    if constexpr (CP) {
                        T t(val);
                        x = t;
                    }
                    break;
                }
                case ASSIGN_INT: x = val; break;
                case WRITE: *x = T(val); break;
                case COPY_CTOR: {
                    if constexpr (CP) {
                        V c(x);
                        h.poll();
                        touch(c);
                        c.emplace(99);
                        if ((op.b & 1U) != 0) { y = std::move(c); }
                        if ((op.b & 2U) != 0) { refill(x, op.b / 4, val, h, "copied-from source"); }
                    }
                    break;
                }
                case MOVE_CTOR: {
                    h.moved |= had;
                    V c(std::move(x));
                    h.poll();
                    touch(c);
                    touch(x);
                    refill(x, op.b, val, h, "moved-from source (move construction)");
                    if ((op.c & 64U) != 0) { y = std::move(c); }
                    break;
                }
                case COPY_ASSIGN: {
                    if constexpr (CP) {
                        h.cross |= (had != y.has_value());
                        y = x;
                        if ((op.b & 2U) != 0) { refill(x, op.b / 4, val, h, "copied-from source"); }
                    }
                    break;
                }
                case MOVE_ASSIGN: {
                    h.moved |= had;
                    h.cross |= (had != y.has_value());
                    y = std::move(x);
                    touch(x);
                    refill(x, op.b, val, h, "moved-from source (move assignment)");
                    break;
                }
                case SELF_COPY_ASSIGN: {
                    if constexpr (CP) {
                        auto before = snap(x);
                        V& alias    = x;
                        x           = alias;
                        auto after  = snap(x);
                        if (before != after) { h.fail("self copy-assignment changed the value: " + show(before) + " -> " + show(after)); }
                        h.selfop |= had;
                    }
                    break;
                }
                case SELF_MOVE_ASSIGN: { // value unspecified afterwards: validity only
                    V& alias = x;
                    x        = std::move(alias);
                    touch(x);
                    h.selfop |= had;
                    if ((op.b & 1U) != 0) { refill(x, op.b / 2, val, h, "self-move-assigned object"); }
                    break;
                }
                case SWAP_MEMBER:
                case SWAP_FREE: {
                    h.swapped |= (had && y.has_value());
                    h.cross |= (had != y.has_value());
                    if (code == SWAP_MEMBER) {
                        x.swap(y);
                    } else {
                        using etl::swap;
                        swap(x, y);
                    }
                    break;
                }
                case SELF_SWAP_MEMBER:
                case SELF_SWAP_FREE: {
                    auto before = snap(x);
                    V& alias    = x;
                    if (code == SELF_SWAP_MEMBER) {
                        x.swap(alias);
                    } else {
                        using etl::swap;
                        swap(x, alias);
                    }
                    auto after = snap(x);
                    if (before != after) { h.fail("self-swap changed the value: " + show(before) + " -> " + show(after)); }
                    h.selfop |= had;
                    break;
                }
                case CONV_CTOR_COPY:
                case CONV_CTOR_MOVE: {
                    etl::optional<int> src;
                    if ((op.b & 1U) != 0) { src = val; }
                    if (code == CONV_CTOR_COPY) {
                        V c(src);
                        h.poll();
                        touch(c);
                        y = std::move(c);
                    } else {
                        V c(std::move(src));
                        h.poll();
                        touch(c);
                        y = std::move(c);
                    }
                    break;
                }
                case CONV_ASSIGN_COPY:
                case CONV_ASSIGN_MOVE: {
                    etl::optional<int> src;
                    if ((op.b & 1U) != 0) { src = val; }
                    h.cross |= (had != src.has_value());
                    if (code == CONV_ASSIGN_COPY) {
                        x = src;
                    } else {
                        x = std::move(src);
                    }
                    break;
                }
                case VALUE_OR_CREF: {
                    if constexpr (CP) {
                        V const& cx = x;
                        T r         = cx.value_or(T(val));
                        h.poll();
                        (void)r.get();
                    }
                    break;
                }
                case VALUE_OR_RREF: {
                    h.moved |= had;
                    T r = std::move(x).value_or(T(val));
                    h.poll();
                    (void)r.get();
                    touch(x);
                    refill(x, op.b, val, h, "moved-from source (value_or &&)");
                    break;
                }
                case AND_THEN: {
                    auto r = x.and_then([](T& t) { return V(etl::in_place, t.get() + 1); });
                    h.poll();
                    touch(r);
                    if ((op.b & 1U) != 0) { y = std::move(r); }
                    break;
                }
                case OR_ELSE_CREF: {
                    if constexpr (CP) {
                        V const& cx = x;
                        V r         = cx.or_else([&] { return V(etl::in_place, val); });
                        h.poll();
                        touch(r);
                        if ((op.b & 1U) != 0) { y = std::move(r); }
                    }
                    break;
                }
                case OR_ELSE_RREF: {
                    h.moved |= had;
                    V r = std::move(x).or_else([&] { return V(etl::in_place, val); });
                    h.poll();
                    touch(r);
                    touch(x);
                    refill(x, op.b, val, h, "moved-from source (or_else &&)");
                    if ((op.b & 1U) != 0) { y = std::move(r); }
                    break;
                }
                case MAKE_OPTIONAL: {
                    auto c = (op.b & 1U) != 0 ? etl::make_optional<T>(val) : etl::make_optional(T(val));
                    h.poll();
                    touch(c);
                    y = std::move(c);
                    break;
                }
                case CTOR_VALUE: {
                    if ((op.b & 1U) != 0) {
                        V c(T{val});
                        h.poll();
                        touch(c);
                        y = std::move(c);
                    } else {
                        V c(etl::in_place, val);
                        h.poll();
                        touch(c);
                        y = std::move(c);
                    }
                    break;
                }
                case COMPARE: {
                    V const& cx = x;
                    V const& cy = y;
                    (void)(cx == cy);
                    (void)(cx < cy);
                    (void)(cx > cy);
                    (void)(cx <= cy);
                    (void)(cx >= cy);
                    (void)(cx == etl::nullopt);
                    break;
                }
                default: break;
                }
                h.cross |= (had != x.has_value());
                for (auto const& e : o) { touch(e); }
                if (!h.step()) {
                    h.err = std::string("after ") + code_names[code] + ": " + h.err;
                    break;
                }
            }
        }
        if (h.err.empty()) { h.err = lt::check_empty(); }
        h.labels("optional", stats, k, "cvsf");
        return h.err;
    }
};

// ================================================================== expected
enum ECode : std::uint32_t {
    E_EMPLACE, E_ASSIGN_VALUE, E_ASSIGN_ERROR, E_ASSIGN_DEFAULT, E_WRITE, E_COPY_CTOR, E_MOVE_CTOR, E_COPY_ASSIGN, E_MOVE_ASSIGN, E_SELF_COPY_ASSIGN, E_SELF_MOVE_ASSIGN, E_SWAP, E_SELF_SWAP,
    E_VALUE_OR_CREF, E_VALUE_OR_RREF, E_AND_THEN, E_OR_ELSE,
    E_NCODES
};
char const* const ecode_names[] = {"emplace", "=expected(in_place,v)", "=expected(unexpect,e)", "=expected()", "*e=T / error()=E", "copy-ctor", "move-ctor+refill source", "copy-assign",
    "move-assign+refill source", "self copy-assign", "self move-assign", "etl::swap", "self etl::swap", "value_or const&", "value_or &&", "and_then", "or_else"};
static_assert(sizeof(ecode_names) / sizeof(ecode_names[0]) == E_NCODES);

template <typename T, typename E>
struct EXP {
    using V                  = etl::expected<T, E>;
    static constexpr bool CP = std::is_copy_constructible_v<T>;

    static auto snap(V const& o) -> std::vector<int>
    {
        if (o.has_value()) { return {0, (*o).get()}; }
        return {1, o.error().get()};
    }
    static void touch(V const& o) { (void)snap(o); }

    static void refill(V& x, std::uint32_t raw, int val, Hist& h, char const* who)
    {
        int w = val + 40;
        std::vector<int> want{0, w};
        switch (raw % 4) {
        case 0: x.emplace(w); break;
        case 1: x = V(etl::in_place, w); break;
        case 2: {
            x    = V(etl::unexpect, w);
            want = {1, w};
            break;
        }
        default: {
            if constexpr (CP) {
                V fresh(etl::unexpect, w);
                x    = fresh;
                want = {1, w};
            } else {
                x.emplace(w);
            }
            break;
        }
        }
        auto got = snap(x);
        if (got != want) { h.fail(std::string(who) + " does not read back a fresh assignment: wrote " + show(want) + " read " + show(got)); }
    }

    static auto run(OpsCase const& k, int stats) -> std::string
    {
        lt::reset();
        Hist h;
        {
            V o[3]{V(), V(etl::unexpect, 5), V(etl::in_place, 7)};
            for (auto const& op : k.ops) {
                auto xi   = op.c % 3;
                auto yi   = (xi + 1 + (op.c / 3) % 2) % 3;
                V& x      = o[xi];
                V& y      = o[yi];
                int val   = static_cast<int>((op.c >> 3) % 7) + 1;
                auto code = op.code % E_NCODES;
                if constexpr (!CP) {
                    switch (code) {
                    case E_COPY_CTOR: code = E_MOVE_CTOR; break;
                    case E_COPY_ASSIGN: code = E_MOVE_ASSIGN; break;
                    case E_SELF_COPY_ASSIGN: code = E_SELF_MOVE_ASSIGN; break;
                    case E_VALUE_OR_CREF: code = E_VALUE_OR_RREF; break;
                    case E_AND_THEN: code = E_ASSIGN_ERROR; break;
                    case E_OR_ELSE: code = E_ASSIGN_VALUE; break;
                    default: break;
                    }
                }
                bool had = x.has_value();
                if (stats > 1) { vf::count((std::string("exp.") + ecode_names[code]).c_str()); }
                switch (code) {
                case E_EMPLACE: x.emplace(val); break;
                case E_ASSIGN_VALUE: x = V(etl::in_place, val); break;
                case E_ASSIGN_ERROR: x = V(etl::unexpect, val); break;
                case E_ASSIGN_DEFAULT: x = V(); break;
                case E_WRITE: {
                    if (had) {
                        *x = T(val);
                    } else {
                        x.error() = E(val);
                    }
                    break;
                }
                case E_COPY_CTOR: {
                    if constexpr (CP) {
                        V c(x);
                        h.poll();
                        touch(c);
                        c.emplace(99);
                        if ((op.b & 1U) != 0) { y = std::move(c); }
                        if ((op.b & 2U) != 0) { refill(x, op.b / 4, val, h, "copied-from source"); }
                    }
                    break;
                }
                case E_MOVE_CTOR: {
                    h.moved = true;
                    V c(std::move(x));
                    h.poll();
                    touch(c);
                    touch(x);
                    refill(x, op.b, val, h, "moved-from source (move construction)");
                    if ((op.c & 64U) != 0) { y = std::move(c); }
                    break;
                }
                case E_COPY_ASSIGN: {
                    if constexpr (CP) {
                        h.cross |= (had != y.has_value());
                        y = x;
                        if ((op.b & 2U) != 0) { refill(x, op.b / 4, val, h, "copied-from source"); }
                    }
                    break;
                }
                case E_MOVE_ASSIGN: {
                    h.moved = true;
                    h.cross |= (had != y.has_value());
                    y = std::move(x);
                    touch(x);
                    refill(x, op.b, val, h, "moved-from source (move assignment)");
                    break;
                }
                case E_SELF_COPY_ASSIGN: {
                    if constexpr (CP) {
                        auto before = snap(x);
                        V& alias    = x;
                        x           = alias;
                        auto after  = snap(x);
                        if (before != after) { h.fail("self copy-assignment changed the value: " + show(before) + " -> " + show(after)); }
                        h.selfop = true;
                    }
                    break;
                }
                case E_SELF_MOVE_ASSIGN: { // value unspecified afterwards: validity only
                    V& alias = x;
                    x        = std::move(alias);
                    touch(x);
                    h.selfop = true;
                    if ((op.b & 1U) != 0) { refill(x, op.b / 2, val, h, "self-move-assigned object"); }
                    break;
                }
                case E_SWAP: {
                    h.swapped = true;
                    h.cross |= (had != y.has_value());
                    using etl::swap;
                    swap(x, y);
                    break;
                }
                case E_SELF_SWAP: {
                    auto before = snap(x);
                    V& alias    = x;
                    using etl::swap;
                    swap(x, alias);
                    auto after = snap(x);
                    if (before != after) { h.fail("self-swap changed the value: " + show(before) + " -> " + show(after)); }
                    h.selfop = true;
                    break;
                }
                case E_VALUE_OR_CREF: {
                    if constexpr (CP) {
                        V const& cx = x;
                        T r         = cx.value_or(T(val));
                        h.poll();
                        (void)r.get();
                    }
                    break;
                }
                case E_VALUE_OR_RREF: {
                    h.moved = true;
                    T r     = std::move(x).value_or(T(val));
                    h.poll();
                    (void)r.get();
                    touch(x);
                    refill(x, op.b, val, h, "moved-from source (value_or &&)");
                    break;
                }
                case E_AND_THEN: {
                    if constexpr (CP) {
                        V r = x.and_then([](T& t) { return V(etl::in_place, t.get() + 1); });
                        h.poll();
                        touch(r);
                        if ((op.b & 1U) != 0) { y = std::move(r); }
                    }
                    break;
                }
                case E_OR_ELSE: {
                    if constexpr (CP) {
                        V r = x.or_else([](E& e) { return V(etl::in_place, e.get() + 1); });
                        h.poll();
                        touch(r);
                        if ((op.b & 1U) != 0) { y = std::move(r); }
                    }
                    break;
                }
                default: break;
                }
                h.cross |= (had != x.has_value());
                for (auto const& e : o) { touch(e); }
                if (!h.step()) {
                    h.err = std::string("after ") + ecode_names[code] + ": " + h.err;
                    break;
                }
            }
        }
        if (h.err.empty()) { h.err = lt::check_empty(); }
        h.labels("expected", stats, k, "cvsf");
        return h.err;
    }
};

void init_configs()
{
    configs() = {
        Config{"optional<TCM>", &OPT<lt::TCM>::run, NCODES, code_names, true},
        Config{"optional<TMO>", &OPT<lt::TMO>::run, NCODES, code_names, true},
        Config{"optional<TCO>", &OPT<lt::TCO>::run, NCODES, code_names, true},
        // TA: registry-tracked constructors/destructor, DEFAULTED (trivial) assignment operators (see C03_shared.cpp)
        Config{"optional<TA>", &OPT<TA<0>>::run, NCODES, code_names, true},
        Config{"expected<TCM,ErrCM>", &EXP<lt::TCM, TV<1, Kind::copy_move>>::run, E_NCODES, ecode_names, true},
        Config{"expected<TMO,ErrMO>", &EXP<lt::TMO, TV<1, Kind::move_only>>::run, E_NCODES, ecode_names, true},
        Config{"expected<TCO,ErrCO>", &EXP<lt::TCO, TV<1, Kind::copy_only>>::run, E_NCODES, ecode_names, true},
        Config{"expected<TA,ErrTA>", &EXP<TA<0>, TA<2>>::run, E_NCODES, ecode_names, true},
        // NC: copy constructor/assignment noexcept(false); AO: overloaded unary operator& (see C03_shared.cpp)
        Config{"optional<NC>", &OPT<NC<0>>::run, NCODES, code_names, false},
        Config{"optional<AO>", &OPT<AO<0>>::run, NCODES, code_names, false},
        Config{"expected<NC,ErrNC>", &EXP<NC<0>, NC<2>>::run, E_NCODES, ecode_names, false},
        Config{"expected<AO,ErrAO>", &EXP<AO<0>, AO<2>>::run, E_NCODES, ecode_names, false},
    };
}

} // namespace

void vf_run(vf::Ctx& c)
{
    init_configs();
    // three objects: x = c%3, y = (x+1+(c/3)%2)%3.  Prefix: emplace into objects 0 and 1 (object 2 stays as constructed);
    // shapes: (x=2,y=0), (x=0,y=1 with the "keep the temporary in y" bits set), (x=1,y=0)
    c03::run_pairs(c, {RawOp{0, 0, 0, 9}, RawOp{0, 0, 0, 16}}, {RawOp{0, 0, 1, 2}, RawOp{0, 1, 3, 72}, RawOp{0, 2, 6, 22}});
    c03::run_histories(c, 6000, 80000, 30);
}

std::string vf_replay(std::string const&, std::string const& cs)
{
    init_configs();
    return c03::replay_history(cs);
}
