// C06 — shared machinery of the C06_*.cpp harnesses (NOT a harness itself: it is #included by each C06 TU).
//
// Element type, call log, exact-size / guarded buffers, iterator-kind policies, the Case struct with its string form,
// the generic exhaustive enumerator (E2) and the seeded random top-up (vf::Rng).
//
// Oracle discipline: every check renders what the C++ standard specifies about the outcome of a call (returned
// offsets/values, contents of every range with unspecified regions masked as '_') once for std:: on a std::vector copy
// and once for etl:: on the buffers, and compares the two strings.  Unstable algorithms use validity predicates.
#pragma once

#include <etl/algorithm.hpp>
#include <etl/functional.hpp>
#include <etl/iterator.hpp>
#include <etl/numeric.hpp>
#include <etl/utility.hpp>

#include <algorithm>
#include <functional>
#include <iterator>
#include <new>
#include <numeric>
#include <string>
#include <vector>

#include "verif.hpp"

#include "iterators.hpp"

namespace c06 {

// ------------------------------------------------------------------------------------------------ call log
// Every operation on an Elem (copy/move construction and assignment, ==, <, every predicate / comparator / projection
// the harness passes) reports the addresses it touches.  An address that lies inside a harness-owned block must lie
// inside the payload [b(), e()) of that block (the range handed to the algorithm); addresses outside every harness block
// are the algorithm's own temporaries (legal).  Reads/writes outside a block are caught by ASan (blocks are exact-size).
struct Buf;
struct Log {
    bool active{false};
    std::vector<Buf*> bufs;
    std::string violation; // first violation, deterministic text (buffer name + element offset, no addresses)
    long pcalls{0};        // predicate / comparator / operation calls during the etl run
    std::vector<int> order; // tags seen by for_each-style functions, in call order
};
inline auto g() -> Log&
{
    static Log l;
    return l;
}
void touch_slow(void const* p, char const* what);
inline void touch(void const* p, char const* what)
{
    if (g().active) { touch_slow(p, what); }
}

constexpr int MOVED = -9; // key and tag of a moved-from element
constexpr int DEFLT = -1; // key and tag of a default-constructed element

struct Elem {
    int key{DEFLT};
    int tag{DEFLT};
    Elem() = default;
    Elem(int k, int t) : key{k}, tag{t} { }
    Elem(Elem const& o) : key{o.key}, tag{o.tag}
    {
        touch(&o, "copied from");
        touch(this, "constructed");
    }
    Elem(Elem&& o) noexcept : key{o.key}, tag{o.tag}
    {
        touch(&o, "moved from");
        touch(this, "constructed");
        o.key = MOVED;
        o.tag = MOVED;
    }
    auto operator=(Elem const& o) -> Elem&
    {
        touch(&o, "copied from");
        touch(this, "assigned");
        key = o.key;
        tag = o.tag;
        return *this;
    }
    auto operator=(Elem&& o) noexcept -> Elem&
    {
        touch(&o, "moved from");
        touch(this, "assigned");
        if (this != &o) {
            key   = o.key;
            tag   = o.tag;
            o.key = MOVED;
            o.tag = MOVED;
        }
        return *this;
    }
    // the relations look at the key only, so equivalent-but-distinguishable elements exist
    friend auto operator==(Elem const& a, Elem const& b) -> bool
    {
        touch(&a, "operator== applied to");
        touch(&b, "operator== applied to");
        ++g().pcalls;
        return a.key == b.key;
    }
    friend auto operator!=(Elem const& a, Elem const& b) -> bool { return !(a == b); }
    friend auto operator<(Elem const& a, Elem const& b) -> bool
    {
        touch(&a, "operator< applied to");
        touch(&b, "operator< applied to");
        ++g().pcalls;
        return a.key < b.key;
    }
};
using V = std::vector<Elem>;

inline auto same(Elem const& a, Elem const& b) -> bool { return a.key == b.key && a.tag == b.tag; }

// ------------------------------------------------------------------------------------------------ buffers
// mode 0: the block is exactly n elements (one-past access hits the ASan red zone)
// mode 1: the payload sits between two guard zones of `padn` elements each inside one block; guards must stay untouched
//         and no Elem operation may be applied to them (gives a readable diagnosis instead of a sanitizer abort).
struct Buf {
    char const* name;
    Elem* blk{nullptr};
    int n{0};
    int pad{0};
    Elem* sp_front{nullptr}; // position of the shared "stream" of single-pass iterators into this buffer
    Buf(char const* nm, V const& init, int mode, int padn) : name{nm}, n{static_cast<int>(init.size())}, pad{mode == 0 ? 0 : padn}
    {
        auto total = static_cast<std::size_t>(n + 2 * pad);
        blk        = static_cast<Elem*>(::operator new(total * sizeof(Elem)));
        for (int i = 0; i < pad; ++i) { new (blk + i) Elem{77, -100 - i}; }
        for (int i = 0; i < n; ++i) { new (blk + pad + i) Elem{init[static_cast<std::size_t>(i)].key, init[static_cast<std::size_t>(i)].tag}; }
        for (int i = 0; i < pad; ++i) { new (blk + pad + n + i) Elem{78, -200 - i}; }
        g().bufs.push_back(this);
    }
    Buf(char const* nm, int count, int mode, int padn) : Buf(nm, V(static_cast<std::size_t>(count < 0 ? 0 : count), Elem{55, -55}), mode, padn) { }
    ~Buf()
    {
        auto& v = g().bufs;
        v.erase(std::find(v.begin(), v.end(), this));
        ::operator delete(blk);
    }
    Buf(Buf const&)                    = delete;
    auto operator=(Buf const&) -> Buf& = delete;
    [[nodiscard]] auto b() const -> Elem* { return blk + pad; }
    [[nodiscard]] auto e() const -> Elem* { return blk + pad + n; }
    [[nodiscard]] auto guards() const -> std::string
    {
        for (int i = 0; i < pad; ++i) {
            if (!(blk[i].key == 77 && blk[i].tag == -100 - i)) { return std::string("element ") + std::to_string(i - pad) + " of buffer '" + name + "' (before the range) was overwritten"; }
            auto const& t = blk[pad + n + i];
            if (!(t.key == 78 && t.tag == -200 - i)) { return std::string("element ") + std::to_string(n + i) + " of buffer '" + name + "' (past the range, size " + std::to_string(n) + ") was overwritten"; }
        }
        return "";
    }
};

inline void touch_slow(void const* p, char const* what)
{
    auto& l = g();
    if (!l.violation.empty()) { return; }
    auto const* q = static_cast<Elem const*>(p);
    for (auto* bf : l.bufs) {
        Elem const* lo = bf->blk;
        Elem const* hi = bf->blk + bf->n + 2 * bf->pad;
        if (std::less<>{}(q, lo) || !std::less<>{}(q, hi)) { continue; }
        if (std::less<>{}(q, bf->b()) || !std::less<>{}(q, bf->e())) {
            l.violation = std::string(what) + " element " + std::to_string(q - bf->b()) + " of buffer '" + bf->name + "' which is outside the range passed (size " + std::to_string(bf->n) + ")";
        }
        return;
    }
}

// ------------------------------------------------------------------------------------------------ functors (key only)
// Predicates / comparators only have to return something contextually convertible to bool.  All harness functors return
// int; what "true" looks like is the truth mode of the case (Case::tr, set by run_entry): 0 -> 1, 1 -> 1024 (the
// <cctype> classifier style), 2 -> a negative value that varies with the operand.  (A class with explicit operator bool
// is exercised separately in C06_types.cpp.)
inline int g_truth_mode = 0;
inline auto truth(bool b, int key) -> int
{
    if (!b) { return 0; }
    switch (g_truth_mode) {
    case 0: return 1;
    case 1: return 1024;
    default: return -(3 + (key & 3));
    }
}
inline auto pred_eval(int id, int k) -> bool
{
    switch (id) {
    case 0: return k == 0;
    case 1: return k >= 1;
    case 2: return k == 1;
    default: return k != 1;
    }
}
struct Pred {
    int id;
    auto operator()(Elem const& e) const -> int
    {
        touch(&e, "predicate applied to");
        ++g().pcalls;
        return truth(pred_eval(id, e.key), e.key);
    }
};
// ordering comparators: 0 less (used through the overload WITHOUT comparator), 1 greater, 2 (key mod 2) less
inline auto cmp_eval(int id, int a, int b) -> bool
{
    switch (id) {
    case 0: return a < b;
    case 1: return a > b;
    default: return (a & 1) < (b & 1);
    }
}
struct Cmp {
    int id;
    auto operator()(Elem const& a, Elem const& b) const -> int
    {
        touch(&a, "comparator applied to");
        touch(&b, "comparator applied to");
        ++g().pcalls;
        return truth(cmp_eval(id, a.key, b.key), a.key);
    }
    // heterogeneous forms (value is an int key)
    auto operator()(Elem const& a, int b) const -> int
    {
        touch(&a, "comparator applied to");
        ++g().pcalls;
        return truth(cmp_eval(id, a.key, b), a.key);
    }
    auto operator()(int a, Elem const& b) const -> int
    {
        touch(&b, "comparator applied to");
        ++g().pcalls;
        return truth(cmp_eval(id, a, b.key), a);
    }
};
// binary predicates: 0 == (used through the overload WITHOUT predicate), 1 (key mod 2) ==, 2 asymmetric a.key <= b.key
inline auto eq_eval(int id, int a, int b) -> bool
{
    switch (id) {
    case 0: return a == b;
    case 1: return (a & 1) == (b & 1);
    default: return a <= b;
    }
}
struct Eq {
    int id;
    auto operator()(Elem const& a, Elem const& b) const -> int
    {
        touch(&a, "binary predicate applied to");
        touch(&b, "binary predicate applied to");
        ++g().pcalls;
        return truth(eq_eval(id, a.key, b.key), a.key);
    }
};

// ------------------------------------------------------------------------------------------------ iterator kinds
struct out_tag : etl::output_iterator_tag, std::output_iterator_tag { };
struct ra_tag : etl::random_access_iterator_tag, std::random_access_iterator_tag { };

// write-only, range-checked output iterator
template <typename T>
struct OutT {
    using iterator_category = out_tag;
    using value_type        = void;
    using difference_type   = std::ptrdiff_t;
    using pointer           = void;
    using reference         = void;
    T* p{nullptr};
    T* lo{nullptr};
    T* hi{nullptr};
    struct Proxy {
        T* t;
        auto operator=(T const& v) const -> Proxy const&
        {
            if (t != nullptr) { *t = v; }
            return *this;
        }
        auto operator=(T&& v) const -> Proxy const&
        {
            if (t != nullptr) { *t = std::move(v); }
            return *this;
        }
    };
    auto operator*() const -> Proxy
    {
        if (p < lo || p >= hi) {
            vf::it::g_out_of_range = true;
            return Proxy{nullptr};
        }
        return Proxy{p};
    }
    auto operator++() -> OutT&
    {
        if (p >= hi) { vf::it::g_out_of_range = true; }
        ++p;
        return *this;
    }
    auto operator++(int) -> OutT
    {
        auto t = *this;
        ++*this;
        return t;
    }
};
using Out = OutT<Elem>;

// range-checked random-access iterator.  The position is an integer offset from `lo`, so a faulty caller that steps
// before the range (e.g. prev(first)) is latched without the harness itself ever forming an invalid pointer.
template <typename T>
struct Ra {
    using iterator_category = ra_tag;
    using value_type        = std::remove_cv_t<T>;
    using difference_type   = std::ptrdiff_t;
    using pointer           = T*;
    using reference         = T&;
    T* lo{nullptr};
    T* hi{nullptr};
    difference_type pos{0};
    Ra() = default;
    Ra(T* p_, T* lo_, T* hi_) : lo{lo_}, hi{hi_}, pos{p_ - lo_} { }
    void chk() const
    {
        if (pos < 0 || pos > hi - lo) { vf::it::g_out_of_range = true; }
    }
    [[nodiscard]] auto ptr() const -> T* { return (pos < 0 || pos > hi - lo) ? lo : lo + pos; }
    auto operator*() const -> reference
    {
        if (pos < 0 || pos >= hi - lo) {
            vf::it::g_out_of_range = true;
            static value_type dummy{};
            return const_cast<reference>(static_cast<value_type const&>(dummy));
        }
        return lo[pos];
    }
    auto operator->() const -> pointer { return &**this; }
    auto operator[](difference_type n) const -> reference { return *(*this + n); }
    auto operator++() -> Ra&
    {
        ++pos;
        chk();
        return *this;
    }
    auto operator++(int) -> Ra
    {
        auto t = *this;
        ++*this;
        return t;
    }
    auto operator--() -> Ra&
    {
        --pos;
        chk();
        return *this;
    }
    auto operator--(int) -> Ra
    {
        auto t = *this;
        --*this;
        return t;
    }
    auto operator+=(difference_type n) -> Ra&
    {
        pos += n;
        chk();
        return *this;
    }
    auto operator-=(difference_type n) -> Ra& { return *this += -n; }
    friend auto operator+(Ra a, difference_type n) -> Ra { return a += n; }
    friend auto operator+(difference_type n, Ra a) -> Ra { return a += n; }
    friend auto operator-(Ra a, difference_type n) -> Ra { return a -= n; }
    friend auto operator-(Ra const& a, Ra const& b) -> difference_type { return a.pos - b.pos; }
    friend auto operator==(Ra const& a, Ra const& b) -> bool { return a.pos == b.pos; }
    friend auto operator!=(Ra const& a, Ra const& b) -> bool { return a.pos != b.pos; }
    friend auto operator<(Ra const& a, Ra const& b) -> bool { return a.pos < b.pos; }
    friend auto operator>(Ra const& a, Ra const& b) -> bool { return a.pos > b.pos; }
    friend auto operator<=(Ra const& a, Ra const& b) -> bool { return a.pos <= b.pos; }
    friend auto operator>=(Ra const& a, Ra const& b) -> bool { return a.pos >= b.pos; }
};

template <typename T>
auto rawp(T* p) -> T* { return p; }
template <typename T, typename Tag>
auto rawp(vf::it::Iter<T, Tag> const& i) -> T* { return i.p; }
template <typename T>
auto rawp(Ra<T> const& i) -> T* { return i.ptr(); }
template <typename T>
auto rawp(OutT<T> const& i) -> T* { return i.p; }

// truly single-pass input iterator (behaves like std::istream_iterator): all copies made from one range share the
// position of the underlying "stream" (`*front`).  Incrementing any copy advances the stream; dereferencing or
// incrementing a copy that the stream has already left (a second traversal, e.g. after a premature distance()) is latched.
// `*it++` is valid for input iterators: the copy returned by post-increment may be dereferenced once (`grace`).
inline bool g_second_pass = false;
struct sp_tag : etl::input_iterator_tag { };
template <typename T>
struct SP {
    using iterator_category = sp_tag;
    using value_type        = std::remove_cv_t<T>;
    using difference_type   = std::ptrdiff_t;
    using pointer           = T*;
    using reference         = T&;
    T* p{nullptr};
    T* lo{nullptr};
    T* hi{nullptr};
    T** front{nullptr};
    bool grace{false};
    SP() = default;
    SP(T* p_, T* lo_, T* hi_, T** front_) : p{p_}, lo{lo_}, hi{hi_}, front{front_} { }
    auto operator*() const -> reference
    {
        if (front != nullptr && p != *front && !grace) { g_second_pass = true; }
        if (p < lo || p >= hi) {
            vf::it::g_out_of_range = true;
            static value_type dummy{};
            return const_cast<reference>(static_cast<value_type const&>(dummy));
        }
        return *p;
    }
    auto operator->() const -> pointer { return &**this; }
    auto operator++() -> SP&
    {
        if (front != nullptr && p != *front) { g_second_pass = true; }
        if (p >= hi) { vf::it::g_out_of_range = true; }
        ++p;
        grace = false;
        if (front != nullptr) { *front = p; }
        return *this;
    }
    auto operator++(int) -> SP
    {
        auto t = *this;
        ++*this;
        t.grace = true;
        return t;
    }
    friend auto operator==(SP const& a, SP const& b) -> bool { return a.p == b.p; }
    friend auto operator!=(SP const& a, SP const& b) -> bool { return a.p != b.p; }
};
template <typename T>
auto rawp(SP<T> const& i) -> T* { return i.p; }

// policies: how a check obtains iterators of one kind into a buffer.  k1 / k2 / ko are the kinds used for the first
// range, the second range and the output of a check; a plain policy uses itself for all three.
struct KP { // raw pointers
    static constexpr char id = 'P';
    using k1                 = KP;
    using k2                 = KP;
    using ko                 = KP;
    using it                 = Elem*;
    using out                = Elem*;
    static auto mk(Buf& a, int i) -> it { return a.b() + i; }
    static auto mko(Buf& a, int i) -> out { return a.b() + i; }
};
template <typename W, char Id>
struct KW {
    static constexpr char id = Id;
    using k1                 = KW;
    using k2                 = KW;
    using ko                 = KW;
    using it                 = W;
    using out                = Out;
    static auto mk(Buf& a, int i) -> it { return W{a.b() + i, a.b(), a.e()}; }
    static auto mko(Buf& a, int i) -> out { return Out{a.b() + i, a.b(), a.e()}; }
};
struct KI { // single-pass input iterators (output: write-only Out)
    static constexpr char id = 'I';
    using k1                 = KI;
    using k2                 = KI;
    using ko                 = KI;
    using it                 = SP<Elem>;
    using out                = Out;
    static auto mk(Buf& a, int i) -> it
    {
        if (a.b() + i != a.e() || a.n == 0) { a.sp_front = a.b() + i; } // a new traversal starts where `first` is made
        return it{a.b() + i, a.b(), a.e(), &a.sp_front};
    }
    static auto mko(Buf& a, int i) -> out { return Out{a.b() + i, a.b(), a.e()}; }
};
using KF = KW<vf::it::Fwd<Elem>, 'F'>;
using KB = KW<vf::it::Bidi<Elem>, 'B'>;
// forward wrapper whose category is the plain etl tag (namespace std is NOT associated): needed where an etl template
// makes an unqualified call (remove_if.hpp calls `find_if(...)`), which ADL would otherwise make ambiguous with std::
using KFE = KW<vf::it::Iter<Elem, etl::forward_iterator_tag>, 'F'>;
using KR = KW<Ra<Elem>, 'R'>;
// mixed categories: first range A, second range B, output O
template <typename A, typename B, typename O, char Id>
struct KM {
    static constexpr char id = Id;
    using k1                 = A;
    using k2                 = B;
    using ko                 = O;
};
using Kpi = KM<KP, KI, KP, 'a'>; // (pointer, single-pass) -> pointer
using Kip = KM<KI, KP, KI, 'b'>; // (single-pass, pointer) -> Out
using Kfi = KM<KF, KI, KF, 'c'>; // (forward, single-pass) -> Out
using Kpf = KM<KP, KF, KF, 'd'>; // (pointer, forward)     -> Out
using Kbp = KM<KB, KP, KP, 'e'>; // (bidirectional, pointer) -> pointer
using Kfp = KM<KF, KP, KP, 'f'>; // (forward, pointer)
using Kif = KM<KI, KF, KI, 'I'>; // find_first_of: (single-pass, forward); keeps the id 'I' of the plain input entry
using Kpo = KM<KP, KP, KF, 'o'>; // pointer source(s), write-only Out destination
using Kiq = KM<KI, KI, KP, 'q'>; // single-pass source(s), pointer destination

template <typename K>
auto at(Buf& a, int i) -> typename K::k1::it
{
    return K::k1::mk(a, i);
}
template <typename K>
auto at2(Buf& a, int i) -> typename K::k2::it
{
    return K::k2::mk(a, i);
}
template <typename K>
auto oat(Buf& a, int i) -> typename K::ko::out
{
    return K::ko::mko(a, i);
}
template <typename It>
auto off(Buf const& a, It const& i) -> int
{
    return static_cast<int>(rawp(i) - a.b());
}

// ------------------------------------------------------------------------------------------------ the case
struct Case {
    std::string algo;
    char it{'P'};
    int pad{0};
    std::vector<int> a; // keys of the first range (tags are 0..len-1)
    std::vector<int> b; // keys of the second range / needle (tags are 100..)
    int m{0};           // middle / nth / position
    int n{0};           // count / shift
    int cmp{0};
    int eq{0};
    int pred{0};
    int val{0};
    int tr{0}; // truth mode of the predicates / comparators (see truth())
};
// keys 0..9 are written as a digit string ("-" = empty); sequences with a larger key as ",k,k,k"
inline auto digits(std::vector<int> const& v) -> std::string
{
    if (v.empty()) { return "-"; }
    bool big = false;
    for (int k : v) { big = big || k > 9 || k < 0; }
    std::string s;
    for (int k : v) {
        if (big) {
            s += "," + std::to_string(k);
        } else {
            s += static_cast<char>('0' + k);
        }
    }
    return s;
}
inline auto undigits(std::string const& t) -> std::vector<int>
{
    std::vector<int> v;
    if (t.empty() || t == "-") { return v; }
    if (t[0] == ',') {
        std::size_t i = 1;
        while (i <= t.size()) {
            auto j = t.find(',', i);
            if (j == std::string::npos) { j = t.size(); }
            v.push_back(std::atoi(t.substr(i, j - i).c_str()));
            i = j + 1;
        }
    } else {
        for (char ch : t) { v.push_back(ch - '0'); }
    }
    return v;
}
inline auto show_case(Case const& c) -> std::string
{
    return c.algo + " it=" + std::string(1, c.it) + " pad=" + std::to_string(c.pad) + " a=" + digits(c.a) + " b=" + digits(c.b) + " m=" + std::to_string(c.m) + " n=" + std::to_string(c.n) + " cmp=" + std::to_string(c.cmp)
         + " eq=" + std::to_string(c.eq) + " pred=" + std::to_string(c.pred) + " val=" + std::to_string(c.val) + " tr=" + std::to_string(c.tr);
}
inline auto parse_case(std::string const& s, Case& c) -> bool
{
    std::istringstream is(s);
    std::string tok;
    if (!(is >> c.algo)) { return false; }
    int seen = 0;
    while (is >> tok) {
        auto eqp = tok.find('=');
        if (eqp == std::string::npos) { return false; }
        auto k = tok.substr(0, eqp);
        auto v = tok.substr(eqp + 1);
        ++seen;
        if (k == "it") {
            c.it = v.empty() ? 'P' : v[0];
        } else if (k == "pad") {
            c.pad = std::atoi(v.c_str());
        } else if (k == "a") {
            c.a = undigits(v);
        } else if (k == "b") {
            c.b = undigits(v);
        } else if (k == "m") {
            c.m = std::atoi(v.c_str());
        } else if (k == "n") {
            c.n = std::atoi(v.c_str());
        } else if (k == "cmp") {
            c.cmp = std::atoi(v.c_str());
        } else if (k == "eq") {
            c.eq = std::atoi(v.c_str());
        } else if (k == "pred") {
            c.pred = std::atoi(v.c_str());
        } else if (k == "val") {
            c.val = std::atoi(v.c_str());
        } else if (k == "tr") {
            c.tr = std::atoi(v.c_str());
        } else {
            return false;
        }
    }
    return seen == 10 || seen == 11; // "tr=" is absent in case strings written before the truth modes existed
}

inline auto mk(std::vector<int> const& keys, int tagbase) -> V
{
    V v;
    v.reserve(keys.size());
    for (std::size_t i = 0; i < keys.size(); ++i) { v.emplace_back(keys[i], tagbase + static_cast<int>(i)); }
    return v;
}
inline auto padn(Case const& c) -> int { return static_cast<int>(c.a.size() + c.b.size()) + 2; }

// ------------------------------------------------------------------------------------------------ rendering
inline auto ren1(Elem const& e) -> std::string
{
    if (e.key == MOVED && e.tag == MOVED) { return "M"; }
    if (e.key == DEFLT && e.tag == DEFLT) { return "D"; }
    return std::to_string(e.key) + "." + std::to_string(e.tag);
}
// elements [mlo, mhi) are "valid but unspecified": rendered as '_'
inline auto ren(Elem const* p, int n, int mlo = 0, int mhi = 0) -> std::string
{
    std::string s = "[";
    for (int i = 0; i < n; ++i) {
        if (i != 0) { s += ' '; }
        s += (i >= mlo && i < mhi) ? std::string("_") : ren1(p[i]);
    }
    return s + "]";
}
inline auto ren(V const& v, int mlo = 0, int mhi = 0) -> std::string { return ren(v.data(), static_cast<int>(v.size()), mlo, mhi); }
inline auto ren(Buf const& b, int mlo = 0, int mhi = 0) -> std::string { return ren(b.b(), b.n, mlo, mhi); }
inline auto num(long v) -> std::string { return std::to_string(v); }

// every element of [lo,hi) of `b` is moved-from, default-constructed or equal (key and tag) to some element of `in`
inline auto mask_ok(Buf const& b, int lo, int hi, V const& in) -> bool
{
    for (int i = lo; i < hi; ++i) {
        auto const& e = b.b()[i];
        if ((e.key == MOVED && e.tag == MOVED) || (e.key == DEFLT && e.tag == DEFLT)) { continue; }
        bool found = false;
        for (auto const& x : in) { found = found || same(x, e); }
        if (!found) { return false; }
    }
    return true;
}
// `out` is a permutation of `in` (key and tag)
inline auto is_perm(Elem const* out, int n, V const& in) -> bool
{
    if (static_cast<std::size_t>(n) != in.size()) { return false; }
    std::vector<char> used(in.size(), 0);
    for (int i = 0; i < n; ++i) {
        bool found = false;
        for (std::size_t j = 0; j < in.size(); ++j) {
            if (used[j] == 0 && same(in[j], out[i])) {
                used[j] = 1;
                found   = true;
                break;
            }
        }
        if (!found) { return false; }
    }
    return true;
}

// ------------------------------------------------------------------------------------------------ running etl under the log
struct Scope { // RAII: the etl call happens while a Scope is alive
    Scope()
    {
        auto& l = g();
        l.violation.clear();
        l.pcalls = 0;
        l.order.clear();
        vf::it::g_out_of_range = false;
        g_second_pass          = false;
        l.active               = true;
    }
    ~Scope() { g().active = false; }
    Scope(Scope const&)                    = delete;
    auto operator=(Scope const&) -> Scope& = delete;
};

constexpr char const* SKIP = "\x01skip"; // returned by a check when the case does not satisfy the preconditions

// final verdict of a differential check: memory discipline first, then the two renderings
inline auto verdict(std::string const& etl_out, std::string const& std_out) -> std::string
{
    auto& l = g();
    if (!l.violation.empty()) { return "out of range: " + l.violation + "; etl gave " + etl_out + ", std gives " + std_out; }
    if (vf::it::g_out_of_range) { return "an iterator was moved or dereferenced outside the range passed; etl gave " + etl_out + ", std gives " + std_out; }
    if (g_second_pass) { return "a single-pass input iterator was dereferenced or advanced after the range had already been traversed past it (second pass); etl gave " + etl_out + ", std gives " + std_out; }
    for (auto* b : l.bufs) {
        auto gd = b->guards();
        if (!gd.empty()) { return "out of range: " + gd + "; etl gave " + etl_out + ", std gives " + std_out; }
    }
    if (etl_out != std_out) {
        if (etl_out.size() <= 200 && std_out.size() <= 200) { return "etl gave " + etl_out + ", std gives " + std_out; }
        // long renderings: show the neighbourhood of the first difference only
        std::size_t i = 0;
        while (i < etl_out.size() && i < std_out.size() && etl_out[i] == std_out[i]) { ++i; }
        auto from = i > 60 ? i - 60 : 0;
        return "first difference at character " + std::to_string(i) + ": etl gave ..." + etl_out.substr(from, 120) + "..., std gives ..." + std_out.substr(from, 120) + "...";
    }
    return "";
}
// verdict of a validity check (`why` empty = valid)
inline auto verdict_valid(std::string const& why, std::string const& etl_out, std::string const& input) -> std::string
{
    auto d = verdict("x", "x");
    if (!d.empty()) { return d.substr(0, d.find("; etl gave")) + "; etl gave " + etl_out + " for input " + input; }
    if (!why.empty()) { return why + ": etl gave " + etl_out + " for input " + input; }
    return "";
}

// ------------------------------------------------------------------------------------------------ table + enumerator
enum : unsigned {
    D_MID   = 1U << 0,  // m in [0, len]
    D_N     = 1U << 1,  // n in [-1, len+1]
    D_PRED  = 1U << 2,  // unary predicate id 0..3
    D_VAL   = 1U << 3,  // value key 0..3 (3 = absent)
    D_CMP   = 1U << 4,  // comparator id 0..2
    D_EQ    = 1U << 5,  // binary predicate id 0..2 (2 asymmetric)
    D_EQV   = 1U << 6,  // binary predicate id 0..1 (equivalence relations only)
    D_B     = 1U << 7,  // second range: every sequence of length 0..LB
    D_BSAME = 1U << 8,  // second range: every sequence with len(b) == len(a)
    D_ASORT = 1U << 9,  // a sorted by the comparator (precondition)
    D_BSORT = 1U << 10, // b sorted by the comparator (precondition)
    D_APART = 1U << 11, // a partitioned by the predicate (precondition)
    D_SMALL = 1U << 12, // enumerate a only up to length 3 (fixed-arity functions: min/max/clamp/iter_swap ...)
    D_HALVES = 1U << 13, // [0,m) and [m,len) each sorted by the comparator (inplace_merge precondition)
    D_LEN4  = 1U << 15, // enumerate a only up to length 4 (thorough 5): checks that run a whole family of algorithms per case
    D_LONG  = 1U << 14, // additionally: random inputs around size thresholds (30..40, 63..66, 100, 127..130, 257)
};
using CheckFn = std::string (*)(Case const&);
struct Entry {
    char const* name;
    char it;
    unsigned dims;
    CheckFn fn;
};
auto table() -> std::vector<Entry> const&; // defined by each TU

inline auto sorted_by(std::vector<int> const& v, int cmp, std::size_t lo, std::size_t hi) -> bool
{
    for (std::size_t i = lo + 1; i < hi; ++i) {
        if (cmp_eval(cmp, v[i], v[i - 1])) { return false; }
    }
    return true;
}
inline auto sorted_by(std::vector<int> const& v, int cmp) -> bool { return sorted_by(v, cmp, 0, v.size()); }
inline auto partitioned_by(std::vector<int> const& v, int pred) -> bool
{
    std::size_t i = 0;
    while (i < v.size() && pred_eval(pred, v[i])) { ++i; }
    for (; i < v.size(); ++i) {
        if (pred_eval(pred, v[i])) { return false; }
    }
    return true;
}

// non-trivial rule of DESIGN §3/C06
inline auto nontrivial_case(Case const& c, unsigned dims) -> bool
{
    auto len = static_cast<int>(c.a.size());
    bool dup = false;
    for (std::size_t i = 0; i < c.a.size(); ++i) {
        for (std::size_t j = i + 1; j < c.a.size(); ++j) { dup = dup || c.a[i] == c.a[j]; }
    }
    if (len >= 2 && dup) { return true; }
    if ((dims & D_MID) != 0 && c.m > 0 && c.m < len) { return true; }
    if ((dims & (D_B | D_BSAME)) != 0 && !c.b.empty()) { return true; }
    if ((dims & D_N) != 0 && c.n != 0 && c.n != len) { return true; }
    return false;
}

// executes one case (both tiers, replay): returns detail ("" ok / SKIP / mismatch)
inline auto run_entry(Entry const& e, Case const& c) -> std::string
{
    vf::Flight<Case> fl(e.name, c);
    g_truth_mode = c.tr;
    auto d       = e.fn(c);
    g_truth_mode = 0;
    g().active = false;
    return d;
}

inline void account(Entry const& e, Case const& c, bool random)
{
    vf::eval(e.name);
    bool nt = nontrivial_case(c, e.dims);
    if (nt) {
        if (random) {
            vf::nontrivial(vf::fnv(show_case(c)));
        } else {
            vf::nontrivial_count();
        }
    }
    auto len = static_cast<int>(c.a.size());
    vf::label("nontrivial", nt);
    {
        bool dup = false;
        for (std::size_t i = 0; i < c.a.size() && !dup; ++i) {
            for (std::size_t j = i + 1; j < c.a.size(); ++j) { dup = dup || c.a[i] == c.a[j]; }
        }
        vf::label("first range has a duplicate key (equivalent but distinguishable elements)", dup);
    }
    if ((e.dims & D_MID) != 0) { vf::label("split strictly inside", c.m > 0 && c.m < len); }
    if ((e.dims & D_N) != 0) { vf::label("n outside {0,len}", c.n != 0 && c.n != len); }
    if ((e.dims & (D_B | D_BSAME)) != 0) { vf::label("non-empty second range", !c.b.empty()); }
    vf::label("wrapper iterators (not raw pointers)", c.it != 'P');
    vf::label("mixed iterator categories across the ranges", c.it >= 'a' && c.it <= 'z');
    if ((e.dims & (D_PRED | D_CMP | D_EQ | D_EQV)) != 0) { vf::label("predicate / comparator returns a non-bool truthy value other than 1", c.tr != 0); }
    vf::label("long input (length >= 30, size-threshold classes)", len >= 30);
    if ((e.dims & (D_B | D_BSAME)) != 0) { vf::label("second range / needle longer than 3", c.b.size() > 3); }
    vf::label("guarded buffer (pad=1) vs exact-size block (pad=0)", c.pad == 1);
    if (nt && (vf::stats().sub_evals[e.name] % 997) == 1) {
        vf::sample(e.name, [&] { return show_case(c); });
    }
}

inline void exec(Entry const& e, Case& c, bool random)
{
    for (int pad : {1, 0}) {
        c.pad  = pad;
        auto d = run_entry(e, c);
        if (d == SKIP) { return; }
        if (!d.empty()) {
            vf::mismatch(e.name, c, d);
            // in C02's memory mode the mismatch was only counted: go on to the exact-size pass, where an out-of-range
            // access is a sanitizer report
            if (!vf::ctx().memory_only) { return; }
        }
        account(e, c, random);
    }
}

// all inner dimensions for a fixed `a`
inline void enum_inner(Entry const& e, Case& c, int LB, bool random_b, vf::Rng* rng)
{
    auto const dims = e.dims;
    auto len        = static_cast<int>(c.a.size());
    int ncmp        = (dims & D_CMP) != 0 ? 3 : 1;
    int npred       = (dims & D_PRED) != 0 ? 4 : 1;
    int neq         = (dims & D_EQ) != 0 ? 3 : ((dims & D_EQV) != 0 ? 2 : 1);
    int nval        = (dims & D_VAL) != 0 ? 4 : 1;
    for (c.cmp = 0; c.cmp < ncmp; ++c.cmp) {
        if ((dims & D_ASORT) != 0 && !sorted_by(c.a, c.cmp)) { continue; }
        for (c.pred = 0; c.pred < npred; ++c.pred) {
            if ((dims & D_APART) != 0 && !partitioned_by(c.a, c.pred)) { continue; }
            for (c.eq = 0; c.eq < neq; ++c.eq) {
                for (c.val = 0; c.val < nval; ++c.val) {
                    int mlo = 0;
                    int mhi = (dims & D_MID) != 0 ? len : 0;
                    for (c.m = mlo; c.m <= mhi; ++c.m) {
                        if ((dims & D_HALVES) != 0 && !(sorted_by(c.a, c.cmp, 0, static_cast<std::size_t>(c.m)) && sorted_by(c.a, c.cmp, static_cast<std::size_t>(c.m), c.a.size()))) { continue; }
                        int nlo = (dims & D_N) != 0 ? -1 : 0;
                        int nhi = (dims & D_N) != 0 ? len + 1 : 0;
                        for (c.n = nlo; c.n <= nhi; ++c.n) {
                            if ((dims & (D_B | D_BSAME)) == 0) {
                                c.b.clear();
                                exec(e, c, rng != nullptr);
                                continue;
                            }
                            if (random_b) { // random tier: b was chosen by the caller
                                exec(e, c, true);
                                continue;
                            }
                            int blo = (dims & D_BSAME) != 0 ? len : 0;
                            int bhi = (dims & D_BSAME) != 0 ? len : ((dims & D_LEN4) != 0 ? LB - 1 : LB);
                            for (int bl = blo; bl <= bhi; ++bl) {
                                long total = 1;
                                for (int i = 0; i < bl; ++i) { total *= 3; }
                                for (long code = 0; code < total; ++code) {
                                    c.b.assign(static_cast<std::size_t>(bl), 0);
                                    long x = code;
                                    for (int i = 0; i < bl; ++i) {
                                        c.b[static_cast<std::size_t>(i)] = static_cast<int>(x % 3);
                                        x /= 3;
                                    }
                                    if ((dims & D_BSORT) != 0 && !sorted_by(c.b, c.cmp)) { continue; }
                                    exec(e, c, false);
                                }
                            }
                        }
                    }
                }
            }
        }
    }
}

// E2: every sequence a of length 0..LA over {0,1,2}; `a` index is the sharding unit
inline void enumerate(vf::Ctx& ctx, Entry const& e, int LA, int LB, int LSAME)
{
    auto const dims = e.dims;
    int la          = (dims & D_SMALL) != 0 ? std::min(LA, 3) : ((dims & D_BSAME) != 0 ? std::min(LA, LSAME) : LA);
    if ((dims & D_LEN4) != 0) { la = std::min(la, LSAME); }
    if (e.it >= 'a' && e.it <= 'z') { la = std::min(la, LSAME); } // mixed iterator categories: one length shorter (budget)
    std::uint64_t idx = 0;
    Case c;
    c.algo = e.name;
    c.it   = e.it;
    for (int len = 0; len <= la; ++len) {
        long total = 1;
        for (int i = 0; i < len; ++i) { total *= 3; }
        for (long code = 0; code < total; ++code) {
            if (!ctx.mine(idx++)) { continue; }
            // the truth mode is not a full dimension: every sequence a gets one of the three modes (hash of its index)
            c.tr = (dims & (D_PRED | D_CMP | D_EQ | D_EQV)) != 0 ? static_cast<int>(((idx * 0x9E3779B97F4A7C15ULL) >> 33) % 3U) : 0;
            c.a.assign(static_cast<std::size_t>(len), 0);
            long x = code;
            for (int i = 0; i < len; ++i) {
                c.a[static_cast<std::size_t>(i)] = static_cast<int>(x % 3);
                x /= 3;
            }
            enum_inner(e, c, LB, false, nullptr);
        }
    }
}

// greedy shrinker for a failing random case: delete elements of a (and b) while the case keeps failing.  Deleting
// preserves sortedness / partitioning; m and n are pulled along; a candidate the check rejects (SKIP) is not taken.
inline void shrink_random(Entry const& e, Case& c, std::string& detail)
{
    auto still_fails = [&](Case const& k, std::string& d) {
        if ((e.dims & D_HALVES) != 0 && !(sorted_by(k.a, k.cmp, 0, static_cast<std::size_t>(k.m)) && sorted_by(k.a, k.cmp, static_cast<std::size_t>(k.m), k.a.size()))) { return false; }
        d = run_entry(e, k);
        return !d.empty() && d != SKIP;
    };
    bool progress = true;
    while (progress) {
        progress = false;
        for (std::size_t i = 0; i < c.a.size(); ++i) {
            Case k = c;
            k.a.erase(k.a.begin() + static_cast<long>(i));
            if ((e.dims & D_BSAME) != 0 && i < k.b.size()) { k.b.erase(k.b.begin() + static_cast<long>(i)); }
            if (k.m > static_cast<int>(i)) { --k.m; }
            if (k.n > static_cast<int>(k.a.size()) + 1) { k.n = static_cast<int>(k.a.size()) + 1; }
            std::string d;
            if (still_fails(k, d)) {
                c        = k;
                detail   = d;
                progress = true;
                break;
            }
        }
        if (progress || (e.dims & D_B) == 0) { continue; }
        for (std::size_t i = 0; i < c.b.size(); ++i) {
            Case k = c;
            k.b.erase(k.b.begin() + static_cast<long>(i));
            std::string d;
            if (still_fails(k, d)) {
                c        = k;
                detail   = d;
                progress = true;
                break;
            }
        }
    }
}

// E1-style seeded random top-up: longer, duplicate-heavy inputs over keys 0..3; preconditions by construction
// `longmode`: lengths around the size thresholds an implementation may switch strategy at (8/16 are inside the normal
// random range; 32, 64, 128, 256 here), with few-distinct (2..4) or many-distinct (about len) keys
inline void random_cases(vf::Ctx& ctx, Entry const& e, int count, int maxlen, bool longmode = false)
{
    vf::Rng rng(ctx.seed * 7919ULL + vf::fnv(std::string(e.name)) + static_cast<unsigned char>(e.it) + (longmode ? 104729ULL : 0ULL));
    auto const dims = e.dims;
    for (int i = 0; i < count; ++i) {
        Case c;
        c.algo   = e.name;
        c.it     = e.it;
        int nkey = 2 + static_cast<int>(rng.below(3)); // 2..4 distinct keys
        int len  = (dims & D_SMALL) != 0 ? static_cast<int>(rng.below(4)) : 6 + static_cast<int>(rng.below(static_cast<std::uint64_t>(maxlen - 5)));
        if (longmode) {
            auto w = rng.below(100);
            len    = w < 35 ? static_cast<int>(rng.range(30, 40)) : w < 60 ? static_cast<int>(rng.range(63, 66)) : w < 75 ? 100 : w < 92 ? static_cast<int>(rng.range(127, 130)) : 257;
            if (rng.below(2) == 0) { nkey = len; } // many distinct keys
            maxlen = 2 * len;
        }
        c.a.resize(static_cast<std::size_t>(len));
        for (auto& k : c.a) { k = static_cast<int>(rng.below(static_cast<std::uint64_t>(nkey))); }
        c.cmp  = (dims & D_CMP) != 0 ? static_cast<int>(rng.below(3)) : 0;
        c.pred = (dims & D_PRED) != 0 ? static_cast<int>(rng.below(4)) : 0;
        c.eq   = (dims & D_EQ) != 0 ? static_cast<int>(rng.below(3)) : ((dims & D_EQV) != 0 ? static_cast<int>(rng.below(2)) : 0);
        c.val  = (dims & D_VAL) != 0 ? static_cast<int>(rng.below(5)) : 0;
        c.tr   = (dims & (D_PRED | D_CMP | D_EQ | D_EQV)) != 0 ? static_cast<int>(rng.below(3)) : 0;
        if ((dims & D_VAL) != 0 && nkey > 4 && rng.below(4) != 0) { c.val = static_cast<int>(rng.below(static_cast<std::uint64_t>(nkey + 1))); }
        c.m    = (dims & D_MID) != 0 ? static_cast<int>(rng.below(static_cast<std::uint64_t>(len + 1))) : 0;
        c.n    = (dims & D_N) != 0 ? static_cast<int>(rng.range(-1, len + 1)) : 0;
        if ((dims & D_N) != 0 && rng.below(2) == 0) { c.n = static_cast<int>(rng.range(0, std::min(len, 8))); } // short runs / shifts are the interesting ones
        auto by_cmp = [&](int x, int y) { return cmp_eval(c.cmp, x, y); };
        if ((dims & D_ASORT) != 0) { std::stable_sort(c.a.begin(), c.a.end(), by_cmp); }
        if ((dims & D_APART) != 0) { std::stable_partition(c.a.begin(), c.a.end(), [&](int k) { return pred_eval(c.pred, k); }); }
        if ((dims & D_HALVES) != 0) {
            std::stable_sort(c.a.begin(), c.a.begin() + c.m, by_cmp);
            std::stable_sort(c.a.begin() + c.m, c.a.end(), by_cmp);
        }
        if ((dims & D_BSAME) != 0) {
            c.b = c.a; // same length, mostly equal / a permutation / a few changed keys
            auto how = rng.below(4);
            if (how == 1) {
                for (std::size_t j = c.b.size(); j > 1; --j) { std::swap(c.b[j - 1], c.b[rng.below(j)]); }
            } else if (how >= 2) {
                for (unsigned t = 0; t < how - 1 && !c.b.empty(); ++t) { c.b[rng.below(c.b.size())] = static_cast<int>(rng.below(static_cast<std::uint64_t>(nkey))); }
            }
        } else if ((dims & D_B) != 0) {
            auto how = rng.below(4);
            if (how == 0 && len > 0) { // a sub-range of a (so that searches succeed)
                auto s = rng.below(static_cast<std::uint64_t>(len));
                auto l = rng.below(static_cast<std::uint64_t>(len) - s + 1);
                c.b.assign(c.a.begin() + static_cast<long>(s), c.a.begin() + static_cast<long>(s + l));
            } else if (how == 1) { // a with a tail added / removed (unequal lengths, equal prefix)
                c.b = c.a;
                if (rng.below(2) == 0 && !c.b.empty()) {
                    c.b.resize(rng.below(c.b.size()));
                } else {
                    c.b.push_back(static_cast<int>(rng.below(static_cast<std::uint64_t>(nkey))));
                }
            } else if (how == 2 && len > 0) { // a random sub-sequence of a of length up to 8 (for sorted a: a sub-multiset, so includes() succeeds)
                auto want = 1 + rng.below(8);
                for (int k : c.a) {
                    if (c.b.size() < want && rng.below(static_cast<std::uint64_t>(len)) < 2 * want) { c.b.push_back(k); }
                }
            } else {
                c.b.resize(rng.below(static_cast<std::uint64_t>(maxlen / 2)));
                for (auto& k : c.b) { k = static_cast<int>(rng.below(static_cast<std::uint64_t>(nkey))); }
            }
            if ((dims & D_BSORT) != 0) { std::stable_sort(c.b.begin(), c.b.end(), by_cmp); }
        }
        if (!ctx.mine(static_cast<std::uint64_t>(i))) { continue; }
        // run the single point (no inner enumeration)
        for (int pad : {1, 0}) {
            c.pad  = pad;
            auto d = run_entry(e, c);
            if (d == SKIP) { break; }
            if (!d.empty()) {
                if (vf::ctx().memory_only) {
                    vf::mismatch(e.name, c, d); // only counted; continue with the exact-size pass
                    continue;
                }
                shrink_random(e, c, d);
                vf::mismatch(e.name, c, d);
                break;
            }
            account(e, c, true);
        }
    }
}

// narrow known-finding classes inside a check: `if (known("C06.shift_right.n0")) return SKIP;`
inline auto known(char const* tag) -> bool
{
    if (vf::ctx().excluded(tag)) {
        vf::excluded_known(tag);
        return true;
    }
    return false;
}

// known-finding exclusions understood by these harnesses: "C06.<algo>" or "C06.<algo>.<it>" removes a table entry
inline auto entry_excluded(vf::Ctx& ctx, Entry const& e) -> bool
{
    auto t1 = std::string("C06.") + e.name;
    auto t2 = t1 + "." + std::string(1, e.it);
    if (ctx.excluded(t1.c_str())) {
        vf::excluded_known(t1.c_str());
        return true;
    }
    if (ctx.excluded(t2.c_str())) {
        vf::excluded_known(t2.c_str());
        return true;
    }
    return false;
}

inline void run_table(vf::Ctx& ctx)
{
    bool th   = ctx.thorough();
    int LA    = th ? 7 : 5;
    int LB    = th ? 4 : 3;
    int LSAME = th ? 5 : 4;
    for (auto const& e : table()) {
        if (entry_excluded(ctx, e)) { continue; }
        // the (a x b) product of two-range algorithms is capped one length lower to keep the tier budget
        int la = LA;
        if ((e.dims & D_B) != 0 && (e.dims & (D_ASORT | D_BSORT)) == 0) { la = th ? 6 : 5; }
        enumerate(ctx, e, la, LB, LSAME);
        random_cases(ctx, e, th ? 20000 : 1500, 24);
        if ((e.dims & D_LONG) != 0) { random_cases(ctx, e, th ? 2000 : 150, 24, true); }
    }
    vf::stats().exhaustive = true;
}

inline auto replay_table(std::string const& sub, std::string const& cs) -> std::string
{
    Case c;
    if (!parse_case(cs, c)) { return "cannot parse case '" + cs + "'"; }
    (void)sub;
    for (auto const& e : table()) {
        if (c.algo == e.name && c.it == e.it) {
            auto d = run_entry(e, c);
            return d == SKIP ? std::string() : d;
        }
    }
    return "no table entry for '" + c.algo + "' with iterator kind " + std::string(1, c.it);
}

#define C06_REG(fn_, name_, dims_, K_) Entry{name_, K_::id, (dims_), &fn_<K_>}

} // namespace c06
