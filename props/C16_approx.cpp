// C16 (part 3) — approximating real cmath functions against glibc libm, RUN-TIME path only.
//
//   sqrt exp log log2 log10 log1p pow sin cos tan asin acos atan atan2 sinh cosh tanh asinh acosh atanh erf tgamma
//   lgamma hypot (float and double, the f-suffixed spellings, the integral overloads, pow(x, int), hypot(x, y, z))
//   must
//     (1) stay within the FIXED per-function bound of /verif/cmath_bounds.json (ulps of the libm result; the bounds are
//         8 x the largest error observed on the stated domain, at least 4 ulp - first derived from the pinned tree, then
//         re-derived once from the repaired tree, see "derived_from" in the file - and are compiled in through
//         gen/C16_bounds.py: nothing is measured or adapted at run time),
//     (2) return NaN / +-inf / +-0 exactly where C (Annex F) prescribes it: the special-value tables below are compared
//         with libm by class and sign, and no NaN/inf may appear where libm returns a finite number on the domain.
//   Error measure: |etl - libm| / ulp_T(max(|libm|, abs_floor)); abs_floor is 0 (pure ulp error) except for lgamma,
//   whose zeros at 1 and 2 make a relative measure meaningless next to them (abs_floor 1: absolute error in ulps of 1).
//
//   Not present on this tree: cbrt, exp2, expm1, erfc, and the rest of <cmath>.  beta is not named by the property.
//   Environment C16_MEASURE=1 turns the harness into the one-off measuring tool that produced cmath_bounds.json: it
//   never fails and prints "MEASURE <fn> <type> <max ulp> <argmax>" lines instead.
#include <etl/cmath.hpp>

#include <math.h>

#include <limits>
#include <map>

#include "verif.hpp"

#include "C16_common.hpp"

#include "C16_bounds.inc" // generated from /verif/cmath_bounds.json: c16_bound(name, type) -> ulps, c16_floor(name)

namespace {
using namespace c16;

bool g_measure = false;
std::map<std::string, int> g_measure_fails;
// measuring tool only: list (a few of) the class failures per function instead of stopping at the first
auto measure_swallow(char const* fn, std::string const& d) -> bool
{
    if (!g_measure || d.empty()) { return false; }
    auto const why = d.substr(d.rfind(" - ") + 3);
    int& n         = g_measure_fails[std::string(fn) + " | " + why];
    if (++n <= 3) { std::printf("MEASURE-FAIL %s\n", d.c_str()); }
    return true;
}

// ------------------------------------------------------------------ error in ulps
template <typename T>
auto ulp_of(long double v) -> long double
{
    using L = std::numeric_limits<T>;
    v       = ::fabsl(v);
    if (v < static_cast<long double>(L::min())) { return static_cast<long double>(L::denorm_min()); }
    int e = 0;
    (void)::frexpl(v, &e); // v = f * 2^e, f in [0.5, 1)
    return ::ldexpl(1.0L, e - L::digits);
}
template <typename T>
auto ulp_err(T e, T r, double floor_) -> long double
{
    long double const scale = ::fmaxl(::fabsl(static_cast<long double>(r)), static_cast<long double>(floor_));
    return ::fabsl(static_cast<long double>(e) - static_cast<long double>(r)) / ulp_of<T>(scale);
}

struct Max {
    long double ulp{0};
    std::string arg;
    std::uint64_t n{0};
    long double gross_rel{0};
    std::string gross_arg;
};
std::map<std::string, Max>& maxima()
{
    static std::map<std::string, Max> m;
    return m;
}

// compare one result.  `exact_class`: the argument comes from a special-value table (class AND sign of zero must agree).
// Returns "" or the detail.
template <typename T, typename ArgF>
auto judge(char const* fn, char const* bound_name, T e, T r, bool exact_class, ArgF const& argf) -> std::string
{
    // argf() renders the arguments; it is only called for a failure (or a new maximum in measuring mode)
    auto fail = [&](std::string const& why) { return std::string(fn) + "(" + argf() + "): etl " + show(e) + ", libm " + show(r) + " - " + why; };
    if (nan_b(r)) { return nan_b(e) ? "" : fail("libm returns NaN"); }
    if (nan_b(e)) { return fail("NaN where libm returns a number"); }
    if (inf_b(r)) { return bits(e) == bits(r) ? "" : fail("libm returns an infinity"); }
    if (inf_b(e)) { return fail("infinity where libm returns a finite number"); }
    double const fl = c16_floor(bound_name);
    if (zero_b(r) && (exact_class || fl == 0.0)) {
        if (!zero_b(e)) { return fail("libm returns zero"); }
        if (exact_class && sign_b(e) != sign_b(r)) { return fail("sign of zero"); }
        return "";
    }
    if (exact_class && zero_b(e)) { return fail("zero where libm returns a non-zero number"); }
    long double const u = ulp_err(e, r, fl);
    if (g_measure) {
        auto& m = maxima()[std::string(bound_name) + " " + BitsOf<T>::name];
        ++m.n;
        if (u > m.ulp) {
            m.ulp = u;
            m.arg = argf();
        }
        long double const rel = ::fabsl((static_cast<long double>(e) - r) / static_cast<long double>(r));
        if (fl == 0.0 && rel > m.gross_rel) {
            m.gross_rel = rel;
            m.gross_arg = argf();
        }
        return "";
    }
    double const b = c16_bound(bound_name, BitsOf<T>::name);
    if (b < 0) { return fail("no bound for this function in cmath_bounds.json"); }
    if (u > static_cast<long double>(b)) {
        char buf[160];
        std::snprintf(buf, sizeof buf, "error %.1Lf ulp > fixed bound %.0f ulp", u, b < 1e15 ? b : 1e15);
        return fail(buf);
    }
    return "";
}

// ------------------------------------------------------------------ unary functions
#define C16_FN1(name)                                                                                                   \
    float e32_##name(float x) { return etl::name(x); }                                                                  \
    float ef_##name(float x) { return etl::name##f(x); }                                                                \
    double e64_##name(double x) { return etl::name(x); }                                                                \
    double ei_##name(int n) { return etl::name(n); }                                                                    \
    double el_##name(long long n) { return etl::name(n); }                                                              \
    float (*volatile r32_##name)(float)   = ::name##f;                                                                  \
    double (*volatile r64_##name)(double) = ::name;
C16_FN1(sqrt)
C16_FN1(exp)
C16_FN1(log)
C16_FN1(log2)
C16_FN1(log10)
C16_FN1(log1p)
C16_FN1(sin)
C16_FN1(cos)
C16_FN1(tan)
C16_FN1(asin)
C16_FN1(acos)
C16_FN1(atan)
C16_FN1(sinh)
C16_FN1(cosh)
C16_FN1(tanh)
C16_FN1(asinh)
C16_FN1(acosh)
C16_FN1(atanh)
C16_FN1(erf)
C16_FN1(tgamma)
C16_FN1(lgamma)

struct Seg {
    double lo, hi; // same sign for kind 0
    int kind;      // 0: uniform over bit patterns (= log-uniform), 1: uniform in value
};
struct Cls { // known-finding class of arguments (is32: the call is made in float)
    char const* tag;
    bool (*in)(double, bool is32);
};
struct Fn1 {
    char const* name;
    float (*e32)(float);
    float (*ef)(float);
    double (*e64)(double);
    double (*ei)(int);
    double (*el)(long long);
    float (*volatile* r32)(float);
    double (*volatile* r64)(double);
    std::vector<Seg> d32, d64;    // the domain on which the ulp bound is claimed
    std::vector<double> around;   // points whose +-16 ulp neighbourhood is always sampled
    std::vector<double> specials; // Annex F inputs (class and sign compared exactly); NaN and +-inf, +-0 are added to all
    int ilo, ihi;                 // integral overload: arguments ilo..ihi
    std::vector<Cls> cls;
};

double const F32MAX = 3.4028234663852886e38, F64MAX = 1.7976931348623157e308, F32MIN = 1.1754943508222875e-38, F64MIN = 2.2250738585072014e-308;
double const F32DEN = 1.401298464324817e-45, F64DEN = 4.9406564584124654e-324;
double const PI = 3.141592653589793;

auto sym(double lo, double hi) -> std::vector<Seg> { return {{lo, hi, 0}, {-hi, -lo, 0}, {-hi, hi, 1}}; }
auto pos(double lo, double hi) -> std::vector<Seg> { return {{lo, hi, 0}, {lo, hi, 1}}; }
auto cat(std::vector<Seg> a, std::vector<Seg> const& b) -> std::vector<Seg>
{
    a.insert(a.end(), b.begin(), b.end());
    return a;
}

#define C16_E(name) #name, e32_##name, ef_##name, e64_##name, ei_##name, el_##name, &r32_##name, &r64_##name

// ---- known-finding classes of the pinned tree (see the C16 report / known_findings.json); each is skipped only when its
// tag arrives with --exclude
// (the class predicates live in C16_common.hpp: they are shared with the complex harness)

auto fns() -> std::vector<Fn1>&
{
    static std::vector<Fn1> t = {
        {C16_E(sqrt), cat(pos(F32DEN, F32MAX), {{0.25, 4.0, 1}}), cat(pos(F64DEN, F64MAX), {{0.25, 4.0, 1}}), {1, 4, 2, 0.25, 16}, {-1, -F32DEN, 1, 4}, 0, 100, {{"C16.sqrt.gcem", cls_sqrt}}},
        {C16_E(exp), {{F32DEN, 110, 0}, {-110, -F32DEN, 0}, {-110, 110, 1}, {86, 90, 1}, {-105, -85, 1}}, {{F64DEN, 800, 0}, {-800, -F64DEN, 0}, {-800, 800, 1}, {705, 712, 1}, {-750, -700, 1}},
            {0, 1, -1, 0.5, 2, -2, 88.72283905206835, -87.33654475055311, -103.27892990343185, -103.97207708399179, 709.782712893384, -708.3964185322641, -745.1332191019411}, {}, -20, 20, {}},
        {C16_E(log), pos(F32DEN, F32MAX), pos(F64DEN, F64MAX), {1, 0.5, 1.5, 2, 10}, {1, -1, -F32DEN}, 1, 100, {}},
        {C16_E(log2), pos(F32DEN, F32MAX), pos(F64DEN, F64MAX), {1, 0.5, 2, 4, 1024}, {1, -1, -F32DEN}, 1, 100, {}},
        {C16_E(log10), pos(F32DEN, F32MAX), pos(F64DEN, F64MAX), {1, 0.1, 10, 100, 1000}, {1, -1, -F32DEN}, 1, 100, {}},
        {C16_E(log1p), cat(cat(sym(F32DEN, 0.99), pos(0.99, F32MAX)), {{-1.0, -0.99, 1}}), cat(cat(sym(F64DEN, 0.99), pos(0.99, F64MAX)), {{-1.0, -0.99, 1}}), {0, 1e-4, -1e-4, 1, -0.5, -1}, {-1, -2, -1.5}, 0, 100, {{"C16.log1p.gcem", cls_log1p}}},
        {C16_E(sin), cat(sym(F32DEN, F32MAX), {{-100.0, 100.0, 1}}), cat(sym(F64DEN, F64MAX), {{-100.0, 100.0, 1}}), {0, PI / 2, PI, 2 * PI, -PI, 100, 3294198.0, 1e7, 1e22}, {}, -100, 100, {}},
        {C16_E(cos), cat(sym(F32DEN, F32MAX), {{-100.0, 100.0, 1}}), cat(sym(F64DEN, F64MAX), {{-100.0, 100.0, 1}}), {0, PI / 2, PI, 2 * PI, -PI, 100, 3294198.0, 1e7, 1e22}, {}, -100, 100, {}},
        {C16_E(tan), cat(sym(F32DEN, F32MAX), {{-100.0, 100.0, 1}}), cat(sym(F64DEN, F64MAX), {{-100.0, 100.0, 1}}), {0, PI / 4, PI / 2, PI, -PI / 2, 3294198.0, 1e7, 1e22}, {}, -100, 100, {}},
        {C16_E(asin), sym(F32DEN, 1), sym(F64DEN, 1), {0, 0.5, 1, -1}, {1, -1, 1.5, -1.5, 2}, -1, 1, {}},
        {C16_E(acos), sym(F32DEN, 1), sym(F64DEN, 1), {0, 0.5, 1, -1}, {1, -1, 1.5, -1.5, 2}, -1, 1, {}},
        {C16_E(atan), sym(F32DEN, F32MAX), sym(F64DEN, F64MAX), {0, 1, -1}, {}, -100, 100, {}},
        {C16_E(sinh), cat(sym(F32DEN, 92), {{88.0, 90.5, 1}, {-90.5, -88.0, 1}}), cat(sym(F64DEN, 715), {{708.0, 712.0, 1}, {-712.0, -708.0, 1}}), {0, 1, -1, 89.41598629223294, 710.4758600739439}, {}, -20, 20, {{"C16.sinh.gcem", cls_sinh}}},
        // cosh is the one function of this list that still runs gcem at run time on this tree: (exp(x) + exp(-x)) / 2 overflows
        // from 88.72 / 709.78 on, so its domain stays |x| <= 80 / 700
        {C16_E(cosh), sym(1e-30, 80), sym(1e-300, 700), {0, 1, -1}, {}, -20, 20, {}},
        {C16_E(tanh), sym(F32DEN, F32MAX), sym(F64DEN, F64MAX), {0, 1, -1, 9, 19}, {}, -20, 20, {}},
        {C16_E(asinh), sym(F32DEN, F32MAX), sym(F64DEN, F64MAX), {0, 1, -1}, {}, -100, 100, {}},
        {C16_E(acosh), pos(1, F32MAX), pos(1, F64MAX), {1, 2}, {1, 0.5, -1, -2}, 1, 100, {}},
        {C16_E(atanh), sym(F32DEN, 0.9999999), sym(F64DEN, 0.9999999999999999), {0, 0.5, -0.5}, {1, -1, 1.5, -1.5}, 0, 0, {{"C16.atanh.gcem", cls_atanh}}},
        {C16_E(erf), cat(sym(F32DEN, F32MAX), {{-6.0, 6.0, 1}}), cat(sym(F64DEN, F64MAX), {{-6.0, 6.0, 1}}), {0, 1, 2.1, -2.1, 0.5, 4, 6}, {}, -6, 6, {{"C16.erf.gcem", cls_erf}}},
        {C16_E(tgamma), cat(pos(F32DEN, 36), {{-45.0, -1e-3, 1}, {-1e-3, -F32DEN, 0}}), cat(pos(F64DEN, 172), {{-185.0, -1e-3, 1}, {-1e-3, -F64DEN, 0}}), {1, 2, 3, 0.5, 10, 35.04009, 171.62437695630272}, {-1, -2, -3, -10}, 1, 20,
            {{"C16.tgamma.gcem", cls_tgamma}}},
        {C16_E(lgamma), cat(pos(F32DEN, F32MAX), {{-50.0, -1e-3, 1}, {-F32MAX, -F32DEN, 0}}), cat(pos(F64DEN, F64MAX), {{-50.0, -1e-3, 1}, {-F64MAX, -F64DEN, 0}}), {1, 2, 3, 0.5, 10}, {1, 2, -1, -2, -3, -10}, 1, 100,
            {{"C16.lgamma.gcem", cls_lgamma}}},
    };
    return t;
}

template <typename T>
auto clampT(double v) -> T
{
    using L = std::numeric_limits<T>;
    if (v > static_cast<double>(L::max())) { return L::max(); }
    if (v < -static_cast<double>(L::max())) { return -L::max(); }
    T r = static_cast<T>(v);
    if (v != 0 && r == 0) { r = v > 0 ? L::denorm_min() : -L::denorm_min(); }
    return r;
}

template <typename T>
auto sample_seg(Seg const& s, vf::Rng& rng) -> T
{
    using U = typename BitsOf<T>::type;
    T const lo = clampT<T>(s.lo), hi = clampT<T>(s.hi);
    if (s.kind == 0) {
        // uniform over the bit patterns between lo and hi (same sign)
        U a = bits(lo), b = bits(hi);
        if (a > b) { std::swap(a, b); }
        return from_bits<T>(static_cast<U>(a + static_cast<U>(rng.below(static_cast<std::uint64_t>(b - a) + 1))));
    }
    long double const u = static_cast<long double>(rng.next() >> 11) / 9007199254740992.0L;
    T v = static_cast<T>(static_cast<long double>(lo) + (static_cast<long double>(hi) - static_cast<long double>(lo)) * u);
    if (v < lo) { v = lo; }
    if (v > hi) { v = hi; }
    return v;
}

template <typename T>
auto in_domain(std::vector<Seg> const& d, T x) -> bool
{
    for (auto const& s : d) {
        if (x >= clampT<T>(s.lo) && x <= clampT<T>(s.hi)) { return true; }
    }
    return false;
}

template <typename T>
auto etl1(Fn1 const& f, T x) -> T
{
    if constexpr (sizeof(T) == 4) {
        return f.e32(x);
    } else {
        return f.e64(x);
    }
}
template <typename T>
auto ref1(Fn1 const& f, T x) -> T
{
    if constexpr (sizeof(T) == 4) {
        return (*f.r32)(x);
    } else {
        return (*f.r64)(x);
    }
}

template <typename T>
auto excluded1(Fn1 const& f, T x) -> bool
{
    for (auto const& c : f.cls) {
        if (vf::ctx().excluded(c.tag) && c.in(static_cast<double>(x), sizeof(T) == 4)) {
            vf::excluded_known(c.tag);
            return true;
        }
    }
    return false;
}

// one unary case; variant 0 = etl::f(T), 1 = etl::ff(float)
template <typename T>
auto case1(Fn1 const& f, T x, bool special, int variant, bool run_mode) -> std::string
{
    // the f-suffixed names are interned once (the Case keeps a pointer)
    static std::map<std::string, std::string> suffixed;
    char const* fn = f.name;
    if (variant == 1) {
        auto& sname = suffixed[f.name];
        if (sname.empty()) { sname = std::string(f.name) + "f"; }
        fn = sname.c_str();
    }
    struct Wrap {
        char const* p;
        auto c_str() const { return p; }
    } const fname{fn};
    Case k{fn, BitsOf<T>::name, special ? 2 : 1, bits(x), special ? 1ULL : 0ULL, 0};
    vf::Flight<Case> fl(f.name, k);
    if (run_mode && excluded1(f, x)) { return ""; }
    T e{};
    if constexpr (sizeof(T) == 4) {
        e = variant == 1 ? f.ef(x) : f.e32(x);
    } else {
        e = f.e64(x);
    }
    T const r     = ref1<T>(f, x);
    auto const d  = judge<T>(fname.c_str(), f.name, e, r, special, [&] { return show_arg(x); });
    if (run_mode) {
        vf::eval(f.name);
        if (!d.empty() && !measure_swallow(fname.c_str(), d)) { vf::mismatch(f.name, k, d); }
    }
    return d;
}

template <typename T>
auto specials_of(Fn1 const& f) -> std::vector<T>
{
    using L = std::numeric_limits<T>;
    std::vector<T> v{T(0), -T(0), L::infinity(), -L::infinity(), L::quiet_NaN(), -L::quiet_NaN()};
    for (double s : f.specials) { v.push_back(clampT<T>(s)); }
    return v;
}

template <typename T>
void run_fn1(vf::Ctx& c, Fn1 const& f, std::uint64_t nsamples, vf::Rng& rng)
{
    using U         = typename BitsOf<T>::type;
    auto const& dom = sizeof(T) == 4 ? f.d32 : f.d64;
    std::uint64_t nt = 0, total = 0;
    // (a) special values: every shard (they are few)
    if (c.shard == 0) {
        for (T x : specials_of<T>(f)) {
            case1<T>(f, x, true, 0, true);
            if constexpr (sizeof(T) == 4) { case1<T>(f, x, true, 1, true); }
            ++nt;
            ++total;
        }
        // neighbourhoods of the marked points and of the domain ends
        std::vector<double> pts = f.around;
        for (auto const& s : dom) {
            pts.push_back(s.lo);
            pts.push_back(s.hi);
        }
        for (double p : pts) {
            T const center = clampT<T>(p);
            for (int d = -16; d <= 16; ++d) {
                T x = from_bits<T>(static_cast<U>(bits(center) + static_cast<U>(d)));
                if (zero_b(center)) { x = from_bits<T>(static_cast<U>(d < 0 ? (static_cast<U>(1) << (sizeof(T) * 8 - 1)) | static_cast<U>(-d) : static_cast<U>(d))); }
                if (!in_domain<T>(dom, x) || zero_b(x)) { continue; }
                case1<T>(f, x, false, 0, true);
                ++nt;
                ++total;
            }
        }
    }
    // (b) the domain, stratified by segment
    std::uint64_t const n = nsamples / static_cast<unsigned>(c.nshards) + 1;
    for (std::uint64_t i = 0; i < n; ++i) {
        auto const& s = dom[i % dom.size()];
        T const x     = sample_seg<T>(s, rng);
        if (zero_b(x) || nan_b(x) || inf_b(x)) { continue; }
        case1<T>(f, x, false, 0, true);
        if constexpr (sizeof(T) == 4) {
            if ((i & 7U) == 0) { case1<T>(f, x, false, 1, true); }
        }
        ++total;
        nt += is_nt(x);
        if ((i & 0xFFFF) == 0x1234) {
            vf::sample(f.name, [&] { return std::string(f.name) + " " + BitsOf<T>::name + " " + show_arg(x); });
        }
    }
    // (c) sin / cos / tan: neighbourhoods of k*pi/2 for large k (libm reduces the argument exactly; so must the etl path)
    if (f.name[0] == 's' || f.name[0] == 'c' || f.name[0] == 't') {
        bool const trig = std::strcmp(f.name, "sin") == 0 || std::strcmp(f.name, "cos") == 0 || std::strcmp(f.name, "tan") == 0;
        if (trig) {
            int const kbits = sizeof(T) == 4 ? 40 : 70;
            std::uint64_t big = 0;
            for (std::uint64_t i = 0; i < n / 4 + 1; ++i) {
                int const bl        = 1 + static_cast<int>(rng.below(static_cast<unsigned>(kbits)));
                long double const k = ::ldexpl(1.0L + static_cast<long double>(rng.next() >> 11) / 9007199254740992.0L, bl - 1);
                T x                 = static_cast<T>(::floorl(k) * 1.57079632679489661923132169163975144L);
                if (inf_b(x)) { continue; }
                x = from_bits<T>(static_cast<U>(bits(x) + static_cast<U>(rng.range(-2, 2))));
                if (rng.below(2) != 0) { x = -x; }
                if (inf_b(x) || nan_b(x) || zero_b(x)) { continue; }
                case1<T>(f, x, false, 0, true);
                if constexpr (sizeof(T) == 4) {
                    if ((i & 7U) == 0) { case1<T>(f, x, false, 1, true); }
                }
                ++total;
                ++nt;
                big += mag(x) > T(3.3e6);
            }
            auto& cb = vf::stats().classes[std::string("approx.") + BitsOf<T>::name + ".trig argument next to k*pi/2 beyond 2^20*pi"];
            cb.first += big;
            cb.second += n / 4 + 1;
        }
    }
    vf::nontrivial_count(nt);
    auto& cl = vf::stats().classes[std::string("approx.") + BitsOf<T>::name + ".nontrivial argument"];
    cl.first += nt;
    cl.second += total;
}

void run_int1(vf::Ctx& c, Fn1 const& f)
{
    if (c.shard != 0) { return; }
    for (int n = f.ilo; n <= f.ihi; ++n) {
        if (n == 0 && f.ilo == 0 && f.ihi == 0) { continue; }
        double const x = static_cast<double>(n);
        if (!in_domain<double>(f.d64, x) && n != 0) { continue; }
        if (excluded1(f, x)) { continue; }
        for (int w = 0; w < 2; ++w) {
            Case k{f.name, w == 0 ? "i32" : "i64", 1, static_cast<u64>(static_cast<long long>(n)), 0, 0};
            vf::Flight<Case> fl(f.name, k);
            double const e = w == 0 ? f.ei(n) : f.el(n);
            double const r = (*f.r64)(x);
            auto const d   = judge<double>(f.name, f.name, e, r, n == 0, [&] { return std::string(k.ty) + " " + std::to_string(n); });
            vf::eval(f.name);
            vf::nontrivial_count(n == 0 || n == 1 ? 1 : 0);
            if (!d.empty() && !measure_swallow(f.name, d)) { vf::mismatch(f.name, k, d); }
        }
    }
}

// ------------------------------------------------------------------ binary: pow, atan2, hypot
float (*volatile r32_pow)(float, float)     = ::powf;
double (*volatile r64_pow)(double, double)  = ::pow;
float (*volatile r32_atan2)(float, float)   = ::atan2f;
double (*volatile r64_atan2)(double, double) = ::atan2;
float (*volatile r32_hypot)(float, float)   = ::hypotf;
double (*volatile r64_hypot)(double, double) = ::hypot;
long double (*volatile rl_sqrt)(long double) = ::sqrtl;

template <typename T>
auto etl2(int which, int variant, T x, T y) -> T
{
    // which: 0 pow, 1 atan2, 2 hypot; variant: 0 plain, 1 f-suffixed (float only), 2 pow(x, int)
    if constexpr (sizeof(T) == 4) {
        if (variant == 1) { return which == 0 ? etl::powf(x, y) : which == 1 ? etl::atan2f(x, y) : etl::hypotf(x, y); }
    }
    if (variant == 2) { return etl::pow(x, static_cast<int>(y)); }
    return which == 0 ? etl::pow(x, y) : which == 1 ? etl::atan2(x, y) : etl::hypot(x, y);
}
template <typename T>
auto ref2(int which, T x, T y) -> T
{
    if constexpr (sizeof(T) == 4) {
        return which == 0 ? r32_pow(x, y) : which == 1 ? r32_atan2(x, y) : r32_hypot(x, y);
    } else {
        return which == 0 ? r64_pow(x, y) : which == 1 ? r64_atan2(x, y) : r64_hypot(x, y);
    }
}
char const* const k_fn2[]  = {"pow", "atan2", "hypot"};
char const* const k_fn2f[] = {"powf", "atan2f", "hypotf"};

template <typename T>
auto excluded2(int which, T x, T y) -> bool
{
    if (which == 1 && vf::ctx().excluded("C16.atan2.gcem") && cls_atan2(static_cast<double>(x), static_cast<double>(y), sizeof(T) == 4)) {
        vf::excluded_known("C16.atan2.gcem");
        return true;
    }
    if (which == 2 && vf::ctx().excluded("C16.hypot.naive") && cls_hypot_naive<T>(x, y)) {
        vf::excluded_known("C16.hypot.naive");
        return true;
    }
    if (which == 2 && vf::ctx().excluded("C16.sqrt.gcem") && cls_hypot<T>(x, y, T(0))) {
        vf::excluded_known("C16.sqrt.gcem");
        return true;
    }
    return false;
}

template <typename T>
auto case2(int which, int variant, T x, T y, bool special, bool run_mode) -> std::string
{
    char const* fname = variant == 1 ? k_fn2f[which] : (variant == 2 ? "pow(x,int)" : k_fn2[which]);
    Case k{variant == 1 ? k_fn2f[which] : (variant == 2 ? "pow_int" : k_fn2[which]), BitsOf<T>::name, 3, bits(x), bits(y), special ? 1ULL : 0ULL};
    vf::Flight<Case> fl(k_fn2[which], k);
    if (run_mode && excluded2<T>(which, x, y)) { return ""; }
    T const e    = etl2<T>(which, variant, x, y);
    T const r    = ref2<T>(which, x, y);
    auto const d = judge<T>(fname, k_fn2[which], e, r, special, [&] { return show_arg(x) + ", " + show_arg(y); });
    if (run_mode) {
        vf::eval(k_fn2[which]);
        if (!d.empty() && !measure_swallow(fname, d)) { vf::mismatch(k_fn2[which], k, d); }
    }
    return d;
}

// hypot(x, y, z).  Oracle: C23 / IEC 60559 rules - +inf if ANY argument is an infinity (also next to a NaN), otherwise NaN
// if any argument is a NaN, otherwise sqrt(x^2 + y^2 + z^2) formed in long double and rounded once.  (libstdc++ 12's
// three-argument std::hypot mishandles the special values, so it is not the reference.)
// special: the arguments come from the special-value table (class and sign compared exactly).
template <typename T>
auto case_hypot3(T a, T b, T cc, bool special, bool run_mode) -> std::string
{
    Case k{special ? "hypot3s" : "hypot3", BitsOf<T>::name, 3, bits(a), bits(b), bits(cc)};
    vf::Flight<Case> fl("hypot", k);
    if (run_mode && vf::ctx().excluded("C16.sqrt.gcem") && cls_hypot<T>(a, b, cc)) {
        vf::excluded_known("C16.sqrt.gcem");
        return "";
    }
    T const e = etl::hypot(a, b, cc);
    T r{};
    if (inf_b(a) || inf_b(b) || inf_b(cc)) {
        r = std::numeric_limits<T>::infinity();
    } else if (nan_b(a) || nan_b(b) || nan_b(cc)) {
        r = std::numeric_limits<T>::quiet_NaN();
    } else {
        long double const la = a, lb = b, lc = cc;
        r = static_cast<T>(rl_sqrt(la * la + lb * lb + lc * lc));
    }
    auto const d = judge<T>("hypot(x,y,z)", "hypot", e, r, special, [&] { return show_arg(a) + ", " + show_arg(b) + ", " + show_arg(cc); });
    if (run_mode) {
        vf::eval("hypot");
        if (!d.empty() && !measure_swallow("hypot3", d)) { vf::mismatch("hypot", k, d); }
    }
    return d;
}

// pow(base, int): the declared mixed overloads pow(float, int) / pow(double, int).  Oracle: libm pow on (base, T(n)).
template <typename T>
auto case_pow_int(T x, int n, bool special, bool run_mode) -> std::string
{
    Case k{special ? "pow_ints" : "pow_int", BitsOf<T>::name, 2, bits(x), static_cast<u64>(static_cast<std::uint32_t>(n)), 0};
    vf::Flight<Case> fl("pow", k);
    T const e    = etl::pow(x, n);
    T const r    = ref2<T>(0, x, static_cast<T>(n));
    auto const d = judge<T>("pow(x,int)", "pow", e, r, special, [&] { return show_arg(x) + ", int " + std::to_string(n); });
    if (run_mode) {
        vf::eval("pow");
        if (!d.empty() && !measure_swallow("pow(x,int)", d)) { vf::mismatch("pow", k, d); }
    }
    return d;
}

// atan2 / hypot called with one int argument: resolves to the (T, T) form through the implicit conversion; compared with
// libm on the converted arguments in the type etl returns.  which: 1 atan2, 2 hypot; int_first: f(n, x) instead of f(x, n)
template <typename T>
auto case_mixed2(int which, bool int_first, T x, int n, bool run_mode) -> std::string
{
    static char const* const names[2][2] = {{"atan2_xi", "atan2_ix"}, {"hypot_xi", "hypot_ix"}};
    Case k{names[which - 1][int_first ? 1 : 0], BitsOf<T>::name, 2, bits(x), static_cast<u64>(static_cast<std::uint32_t>(n)), 0};
    vf::Flight<Case> fl(k_fn2[which], k);
    T e{};
    if (which == 1) {
        e = int_first ? etl::atan2(n, x) : etl::atan2(x, n);
    } else {
        e = int_first ? etl::hypot(n, x) : etl::hypot(x, n);
    }
    T const tn   = static_cast<T>(n);
    T const r    = int_first ? ref2<T>(which, tn, x) : ref2<T>(which, x, tn);
    bool const sp = nan_b(x) || inf_b(x) || zero_b(x) || n == 0;
    auto const d = judge<T>(k.fn, k_fn2[which], e, r, sp, [&] { return show_arg(x) + " with int " + std::to_string(n); });
    if (run_mode) {
        vf::eval(k_fn2[which]);
        if (!d.empty() && !measure_swallow(k.fn, d)) { vf::mismatch(k_fn2[which], k, d); }
    }
    return d;
}

template <typename T>
void run_fn2(vf::Ctx& c, std::uint64_t nsamples, vf::Rng& rng)
{
    using L = std::numeric_limits<T>;
    T const inf = L::infinity(), nan = L::quiet_NaN();
    std::uint64_t nt = 0, total = 0;
    if (c.shard == 0) {
        // Annex F tables: the full cross product of these values is prescribed for pow, atan2 and hypot
        std::vector<T> const sv{T(0), -T(0), T(1), -T(1), T(0.5), -T(0.5), T(2), -T(2), T(3), -T(3), T(2.5), -T(2.5), inf, -inf, nan};
        for (T x : sv) {
            for (T y : sv) {
                for (int w = 0; w < 3; ++w) {
                    // hypot(+-0, +-0) = +0 etc. are all prescribed; pow(x, y) for finite x < 0 and finite non-integer y is a NaN (prescribed)
                    case2<T>(w, 0, x, y, true, true);
                    if constexpr (sizeof(T) == 4) { case2<T>(w, 1, x, y, true, true); }
                    ++nt;
                    ++total;
                }
            }
        }
    }
    if (c.shard == 0) {
        // three-argument hypot: every arrangement of {NaN, -NaN, +-inf, +-0, finite} over the three positions
        std::vector<T> const hv{nan, -nan, inf, -inf, T(0), -T(0), T(1), -T(2.5), T(3), T(0x1p-20)};
        for (T x : hv) {
            for (T y : hv) {
                for (T z : hv) {
                    case_hypot3<T>(x, y, z, true, true);
                    ++nt;
                    ++total;
                }
            }
        }
        // atan2 / hypot with an int on either side
        for (T x : {T(0), -T(0), T(1), -T(1), T(0.5), T(2.5), -T(3), T(1e-3), T(12345.678), inf, -inf, nan}) {
            for (int n2 : {0, 1, -1, 2, -3, 10, -1000, 16777217, 2147483647, -2147483647 - 1}) {
                for (int w = 1; w <= 2; ++w) {
                    case_mixed2<T>(w, false, x, n2, true);
                    case_mixed2<T>(w, true, x, n2, true);
                    ++nt;
                    ++total;
                }
            }
        }
        // pow(x, int): Annex F rows that involve an integral exponent, and the textbook subnormal / overflow results
        std::vector<T> const pb{T(0), -T(0), T(1), -T(1), T(0.5), -T(0.5), T(2), -T(2), T(10), -T(10), T(1e10), -T(1e5), inf, -inf, nan, std::numeric_limits<T>::denorm_min(), std::numeric_limits<T>::max(), -std::numeric_limits<T>::max()};
        for (T x : pb) {
            for (int n2 : {0, 1, -1, 2, -2, 3, -3, 31, -31, 38, -38, 40, -40, 45, -45, 63, -63, 64, -64, 65, -65, 127, -128, 149, -149, 308, -308, 320, -320, 1074, -1075, 2147483647, -2147483647 - 1}) {
                case_pow_int<T>(x, n2, true, true);
                ++nt;
                ++total;
            }
        }
    }
    std::uint64_t const n = nsamples / static_cast<unsigned>(c.nshards) + 1;
    // hypot is sqrt(x*x + y*y) on this tree: the ulp bound is claimed where the squares neither overflow nor underflow
    // (binary exponents within +-E); beyond that it is the known-finding class C16.hypot.naive (sampled unless excluded)
    int const E = sizeof(T) == 4 ? 62 : 510;
    using U     = typename BitsOf<T>::type;
    auto any_finite = [&]() -> T { // uniform over the bit patterns of finite non-zero values: every exponent incl. subnormals
        for (;;) {
            T const v = from_bits<T>(static_cast<U>(rng.next() >> (64 - sizeof(T) * 8)));
            if (!nan_b(v) && !inf_b(v) && !zero_b(v)) { return v; }
        }
    };
    auto mant01 = [&]() { return 1.0 + static_cast<double>(rng.next() >> 12) / 4503599627370496.0; };
    std::uint64_t pow_edge = 0, pow_near1 = 0, wide = 0;
    for (std::uint64_t i = 0; i < n; ++i) {
        // pow
        {
            T x = sample_seg<T>(Seg{1.0 / 64, 64.0, static_cast<int>(i & 1)}, rng);
            T y = sample_seg<T>(Seg{-20.0, 20.0, 1}, rng);
            auto const shape = rng.below(12);
            if (shape == 0) { y = static_cast<T>(rng.range(-20, 20)); }
            if (shape == 1) {
                y = static_cast<T>(rng.range(-20, 20));
                x = -x;
            }
            if (shape == 2) { y = static_cast<T>(rng.range(-40, 40)) / 2; }
            if (shape == 3 || shape == 4) { // any positive base, exponent chosen so that the result is 2^t with t across the over/underflow thresholds
                x               = mag(any_finite());
                double const l2 = ::log2(static_cast<double>(x));
                double const t  = sizeof(T) == 4 ? -160.0 + 300.0 * (mant01() - 1.0) : -1100.0 + 2140.0 * (mant01() - 1.0);
                if (l2 != 0) { y = static_cast<T>(t / l2); }
                ++pow_edge;
            }
            if (shape == 5 || shape == 6) { // base next to 1, huge exponent
                int const kmax = sizeof(T) == 4 ? 23 : 52;
                int const k    = 1 + static_cast<int>(rng.below(static_cast<unsigned>(kmax)));
                x              = static_cast<T>(1.0 + (rng.below(2) != 0 ? 1.0 : -1.0) * ::ldexp(mant01(), -k - 1));
                y              = static_cast<T>(::ldexp(mant01(), static_cast<int>(rng.range(0, k + 12))));
                if (rng.below(2) != 0) { y = -y; }
                ++pow_near1;
            }
            if (shape == 7) { // any base (negative too), any exponent magnitude (huge even / odd / non-integers, tiny)
                x = any_finite();
                y = any_finite();
                if (rng.below(2) != 0) { y = static_cast<T>(::nearbyint(static_cast<double>(y))); }
                if (zero_b(y)) { y = T(3); }
            }
            case2<T>(0, 0, x, y, false, true);
            if (shape <= 1) { case_pow_int<T>(x, static_cast<int>(y), false, true); } // pow(x, int)
            if constexpr (sizeof(T) == 4) {
                if ((i & 7U) == 0) { case2<T>(0, 1, x, y, false, true); }
            }
            ++total;
            nt += shape <= 7 || is_nt(x);
        }
        // atan2: both finite and non-zero, all sign combinations; every exponent incl. subnormals, occasionally nearly equal
        {
            T x = any_finite(), y = any_finite();
            auto const shape = rng.below(4);
            if (shape == 0) { y = static_cast<T>(static_cast<double>(x) * (0.5 + (mant01() - 1.0) * 1.5)); }
            if (shape == 1) {
                x = static_cast<T>(::ldexp(mant01(), static_cast<int>(rng.range(-30, 30))));
                y = static_cast<T>(::ldexp(mant01(), static_cast<int>(rng.range(-30, 30))));
                if (rng.below(2) != 0) { x = -x; }
                if (rng.below(2) != 0) { y = -y; }
            }
            if (zero_b(y) || inf_b(y)) { y = x; }
            case2<T>(1, 0, x, y, false, true);
            if constexpr (sizeof(T) == 4) {
                if ((i & 7U) == 0) { case2<T>(1, 1, x, y, false, true); }
            }
            ++total;
            nt += shape == 0 || sign_b(x) || sign_b(y);
        }
        // hypot
        {
            T x = static_cast<T>(::ldexp(mant01(), static_cast<int>(rng.range(-E, E))));
            T y = static_cast<T>(::ldexp(mant01(), static_cast<int>(rng.range(-E, E))));
            auto const shape = rng.below(4);
            if (shape == 0) { y = static_cast<T>(static_cast<double>(x) * (0.5 + (mant01() - 1.0) * 1.5)); }
            if (shape == 1) { // every exponent, subnormal to near overflow (class C16.hypot.naive when a square leaves the range)
                x = any_finite();
                y = rng.below(2) != 0 ? any_finite() : static_cast<T>(static_cast<double>(x) * (0.5 + (mant01() - 1.0) * 1.5));
                if (zero_b(y) || inf_b(y)) { y = x; }
                ++wide;
            }
            if (rng.below(2) != 0) { x = -x; }
            if (rng.below(2) != 0) { y = -y; }
            case2<T>(2, 0, x, y, false, true);
            if constexpr (sizeof(T) == 4) {
                if ((i & 7U) == 0) { case2<T>(2, 1, x, y, false, true); }
            }
            ++total;
            nt += shape <= 1 || sign_b(x) || sign_b(y);
        }
        // hypot(x, y, z): squares within the normal range
        {
            int const E3 = sizeof(T) == 4 ? 60 : 505;
            T v[3];
            for (auto& q : v) {
                q = static_cast<T>(::ldexp(1.0 + static_cast<double>(rng.next() >> 12) / 4503599627370496.0, static_cast<int>(rng.range(-E3, E3))));
                if (rng.below(2) != 0) { q = -q; }
            }
            if (rng.below(2) != 0) { v[1] = static_cast<T>(static_cast<double>(v[0]) * 0.75); }
            case_hypot3<T>(v[0], v[1], v[2], false, true);
            ++total;
        }
        // pow(x, int): every shape of base, |n| below and above 64, results aimed at the subnormal range and the overflow edge
        {
            int n = static_cast<int>(rng.range(-70, 70));
            if (rng.below(8) == 0) { n = static_cast<int>(rng.range(-2000, 2000)); }
            if (n == 0) { n = -1; }
            T x{};
            auto const shape = rng.below(4);
            if (shape == 0) {
                x = any_finite();
            } else if (shape == 1) { // result 2^t with t in the subnormal window or just below / above it
                double const t = sizeof(T) == 4 ? rng.range(-152, -120) + (mant01() - 1.0) : rng.range(-1078, -1015) + (mant01() - 1.0);
                x              = static_cast<T>(::exp2(t / n));
                ++pow_edge;
            } else if (shape == 2) { // result around the overflow threshold
                double const t = sizeof(T) == 4 ? 124.0 + 5.0 * (mant01() - 1.0) : 1020.0 + 5.0 * (mant01() - 1.0);
                x              = static_cast<T>(::exp2(t / n));
                ++pow_edge;
            } else { // powers of ten and small integers (10^-40 in float is the textbook subnormal)
                T const bases[] = {T(10), T(-10), T(1e10), T(-1e5), T(2), T(-2), T(0.5), T(3), T(1e-10), T(7), T(0.1)};
                x               = bases[rng.below(11)];
            }
            if (rng.below(4) == 0) { x = -x; }
            if (!zero_b(x) && !nan_b(x) && !inf_b(x)) { case_pow_int<T>(x, n, false, true); }
            ++total;
            ++nt;
        }
    }
    {
        auto lab = [&](char const* nm, std::uint64_t h) {
            auto& c2 = vf::stats().classes[std::string("approx2.") + BitsOf<T>::name + nm];
            c2.first += h;
            c2.second += n;
        };
        lab(".pow result across the overflow / underflow thresholds", pow_edge);
        lab(".pow base next to 1 with a huge exponent", pow_near1);
        lab(".hypot over every exponent (subnormal .. near overflow)", wide);
    }
    vf::nontrivial_count(nt);
    auto& cl = vf::stats().classes[std::string("approx2.") + BitsOf<T>::name + ".nontrivial argument pair"];
    cl.first += nt;
    cl.second += total;
}

} // namespace

void vf_run(vf::Ctx& c)
{
    g_measure = std::getenv("C16_MEASURE") != nullptr;
    vf::Rng rng(c.seed);
    std::uint64_t const n1 = c.thorough() ? 4000000ULL : 400000ULL; // per function and type, over all shards
    for (auto const& f : fns()) {
        run_fn1<float>(c, f, n1, rng);
        run_fn1<double>(c, f, n1, rng);
        run_int1(c, f);
    }
    run_fn2<float>(c, n1, rng);
    run_fn2<double>(c, n1, rng);
    vf::sample("sqrt", [] { return std::string("sqrt f32 0x3f800001  (case = function, type, argument bit patterns; specials carry a trailing 1)"); });
    if (g_measure) {
        for (auto const& [k, n] : g_measure_fails) { std::printf("MEASURE-FAILCOUNT %s : %d\n", k.c_str(), n); }
        for (auto const& [k, m] : maxima()) {
            std::printf("MEASURE-MAX %s n=%llu max_ulp=%.3Lf at %s | max_rel=%.3Le at %s\n", k.c_str(), static_cast<unsigned long long>(m.n), m.ulp, m.arg.c_str(), m.gross_rel, m.gross_arg.c_str());
        }
    }
}

std::string vf_replay(std::string const& /*sub*/, std::string const& cs)
{
    auto const p = parse_case(cs);
    // binary first
    for (int w = 0; w < 3; ++w) {
        for (int variant = 0; variant < 2; ++variant) {
            std::string const nm = variant == 1 ? k_fn2f[w] : k_fn2[w];
            if (p.fn != nm) { continue; }
            if (p.ty == "f32") { return case2<float>(w, variant, u2f(static_cast<u32>(p.a)), u2f(static_cast<u32>(p.b)), p.c != 0, false); }
            if (p.ty == "f64" && variant != 1) { return case2<double>(w, variant, u2d(p.a), u2d(p.b), p.c != 0, false); }
        }
    }
    if (p.fn == "hypot3" || p.fn == "hypot3s") {
        bool const sp = p.fn == "hypot3s";
        if (p.ty == "f32") { return case_hypot3<float>(u2f(static_cast<u32>(p.a)), u2f(static_cast<u32>(p.b)), u2f(static_cast<u32>(p.c)), sp, false); }
        return case_hypot3<double>(u2d(p.a), u2d(p.b), u2d(p.c), sp, false);
    }
    for (int w = 1; w <= 2; ++w) {
        for (int f = 0; f < 2; ++f) {
            std::string const nm = std::string(w == 1 ? "atan2" : "hypot") + (f == 0 ? "_xi" : "_ix");
            if (p.fn != nm) { continue; }
            int const n = static_cast<int>(static_cast<std::uint32_t>(p.b));
            if (p.ty == "f32") { return case_mixed2<float>(w, f == 1, u2f(static_cast<u32>(p.a)), n, false); }
            return case_mixed2<double>(w, f == 1, u2d(p.a), n, false);
        }
    }
    if (p.fn == "pow_int" || p.fn == "pow_ints") {
        bool const sp = p.fn == "pow_ints";
        int const n   = static_cast<int>(static_cast<std::uint32_t>(p.b));
        if (p.ty == "f32") { return case_pow_int<float>(u2f(static_cast<u32>(p.a)), n, sp, false); }
        return case_pow_int<double>(u2d(p.a), n, sp, false);
    }
    for (auto const& f : fns()) {
        bool const plain = p.fn == f.name;
        bool const suff  = p.fn == std::string(f.name) + "f";
        if (!plain && !suff) { continue; }
        if (p.ty == "f32") { return case1<float>(f, u2f(static_cast<u32>(p.a)), p.b != 0, suff ? 1 : 0, false); }
        if (p.ty == "f64" && plain) { return case1<double>(f, u2d(p.a), p.b != 0, 0, false); }
        if ((p.ty == "i32" || p.ty == "i64") && plain) {
            auto const n   = static_cast<long long>(p.a);
            Case k{f.name, p.ty == "i32" ? "i32" : "i64", 1, p.a, 0, 0};
            vf::Flight<Case> fl(f.name, k);
            double const e = p.ty == "i32" ? f.ei(static_cast<int>(n)) : f.el(n);
            double const r = (*f.r64)(static_cast<double>(n));
            return judge<double>(f.name, f.name, e, r, n == 0, [&] { return p.ty + " " + std::to_string(n); });
        }
    }
    return "replay: unknown case " + cs;
}
