// C20 — shared scaffolding of the enumeration-style C20 harnesses (C20_pair_tuple.cpp, C20_wrappers.cpp).
//
// Differential design: every scenario is ONE function template over a "library policy" L (EtlLib / StdLib).  It is
// executed twice — once against etl::, once against std:: — and returns an *outcome string* (result values, the
// value category / constness every instrumented callee observed, moved-from markers of the sources, and the
// spelled-out result TYPES with the namespace normalised to `L::`).  The two strings must be identical.  Result types
// are therefore compared at run time (a mismatch is a reported failure naming the obligation = family name), never
// by static_assert.  Only expressions that compile on the pinned tree are written down; everything that does not is
// listed in the "EXCLUDED" comment of the TU that would have contained it.
//
// Include AFTER the etl headers, "verif.hpp" and "tracked.hpp".
#pragma once

#include <cstddef>
#include <functional>
#include <string>
#include <tuple>
#include <type_traits>
#include <utility>
#include <vector>

namespace c20 {

namespace lt = vf::lt;
using lt::TCM;
using lt::TCO;
using lt::TMO;

#define C20_FWD(x) static_cast<decltype(x)&&>(x)

[[gnu::noinline]] inline auto replace_all(std::string s, std::string const& from, std::string const& to) -> std::string
{
    std::size_t p = 0;
    while ((p = s.find(from, p)) != std::string::npos) {
        s.replace(p, from.size(), to);
        p += to.size();
    }
    return s;
}

// spelled-out type with etl:: / std:: normalised to L:: (deterministic: comes from __PRETTY_FUNCTION__)
[[gnu::noinline]] inline auto normalise_type(char const* pretty) -> std::string
{
    std::string p = pretty;
    auto b        = p.find("T = ");
    if (b == std::string::npos) { return p; }
    b += 4;
    auto e = p.find(';', b);
    if (e == std::string::npos) { e = p.rfind(']'); }
    auto s = p.substr(b, e - b);
    s      = replace_all(s, "etl::", "L::");
    s      = replace_all(s, "std::", "L::");
    s      = replace_all(s, "vf::lt::Tracked<vf::lt::Kind::copy_move>", "TCM");
    s      = replace_all(s, "vf::lt::Tracked<vf::lt::Kind::move_only>", "TMO");
    s      = replace_all(s, "vf::lt::Tracked<vf::lt::Kind::copy_only>", "TCO");
    s      = replace_all(s, "vf::lt::Tracked<(vf::lt::Kind)0>", "TCM");
    s      = replace_all(s, "vf::lt::Tracked<(vf::lt::Kind)1>", "TMO");
    s      = replace_all(s, "vf::lt::Tracked<(vf::lt::Kind)2>", "TCO");
    s      = replace_all(s, ", ", ",");
    s      = replace_all(s, " >", ">");
    s      = replace_all(s, " ", "_"); // one blank-free token per type: "const_int&", "L::tuple<int,long_int>"
    return s;
}
template <typename T>
auto pretty_of() -> char const*
{
    return __PRETTY_FUNCTION__;
}
template <typename T>
auto type_name() -> std::string
{
    return normalise_type(pretty_of<T>());
}

// value category + constness of an expression of (reference) type T, as a callee sees it through `A&&`
template <typename T>
constexpr auto cat() -> char const*
{
    using U = std::remove_reference_t<T>;
    if constexpr (std::is_lvalue_reference_v<T>) {
        return std::is_const_v<U> ? "const&" : "&";
    } else {
        return std::is_const_v<U> ? "const&&" : "&&";
    }
}

template <typename T>
struct is_refwrap : std::false_type { };
template <typename T>
struct is_refwrap<std::reference_wrapper<T>> : std::true_type { };
template <typename T>
struct is_refwrap<etl::reference_wrapper<T>> : std::true_type { };

template <typename T>
auto val_of(T const& t) -> int
{
    if constexpr (is_refwrap<T>::value) {
        return val_of(t.get());
    } else if constexpr (requires { t.get(); }) {
        return t.get();
    } else {
        return static_cast<int>(t);
    }
}
inline auto sv(int v) -> std::string { return v == lt::moved_value ? std::string("M") : std::to_string(v); }
template <typename T>
auto svo(T const& t) -> std::string
{
    return sv(val_of(t));
}
inline auto sb(bool b) -> std::string { return b ? "1" : "0"; }

// outcome builder: non-template, out-of-line appends (keeps the sanitizer-instrumented code of the many scenario
// instantiations small — compile time is the budget here)
struct Out {
    std::string s;
    [[gnu::noinline]] auto operator<<(char const* p) -> Out&
    {
        s += p;
        return *this;
    }
    [[gnu::noinline]] auto operator<<(std::string const& p) -> Out&
    {
        s += p;
        return *this;
    }
    [[gnu::noinline]] auto operator<<(int v) -> Out&
    {
        s += sv(v);
        return *this;
    }
    [[gnu::noinline]] auto operator<<(bool b) -> Out&
    {
        s += b ? '1' : '0';
        return *this;
    }
    [[gnu::noinline]] auto operator<<(std::size_t v) -> Out&
    {
        s += std::to_string(v);
        return *this;
    }
};
// value of an element / object (Tracked, int, reference_wrapper)
template <typename T>
struct V {
    T const& t;
};
template <typename T>
V(T const&) -> V<T>;
template <typename T>
auto operator<<(Out& o, V<T> v) -> Out&
{
    return o << val_of(v.t);
}

// ------------------------------------------------------------------ library policies
// Function templates are lifted into perfectly forwarding lambdas (decltype(auto) keeps the exact result type, prvalue
// results are returned by guaranteed elision).
#define C20_LIFT(fn) [](auto&&... a) -> decltype(auto) { return fn(C20_FWD(a)...); }

struct EtlLib {
    static constexpr char const* name = "etl";
    template <typename... T>
    using tuple = etl::tuple<T...>;
    template <typename A, typename B>
    using pair = etl::pair<A, B>;
    template <typename T>
    using reference_wrapper = etl::reference_wrapper<T>;
    template <typename T>
    static constexpr std::size_t tuple_size_v = etl::tuple_size_v<T>;
    template <std::size_t I, typename T>
    using tuple_element_t = etl::tuple_element_t<I, T>;
    template <typename F, typename... A>
    using invoke_result_t = etl::invoke_result_t<F, A...>;

    static constexpr auto invoke           = C20_LIFT(etl::invoke);
    static constexpr auto apply            = C20_LIFT(etl::apply);
    static constexpr auto tuple_cat        = C20_LIFT(etl::tuple_cat);
    static constexpr auto forward_as_tuple = C20_LIFT(etl::forward_as_tuple);
    static constexpr auto tie              = C20_LIFT(etl::tie);
    static constexpr auto make_tuple       = C20_LIFT(etl::make_tuple);
    static constexpr auto make_pair        = C20_LIFT(etl::make_pair);
    static constexpr auto ref              = C20_LIFT(etl::ref);
    static constexpr auto cref             = C20_LIFT(etl::cref);
    static constexpr auto bind_front       = C20_LIFT(etl::bind_front);
    static constexpr auto not_fn           = C20_LIFT(etl::not_fn);
    template <std::size_t I>
    static constexpr auto get = [](auto&& t) -> decltype(auto) { return etl::get<I>(C20_FWD(t)); };
    template <typename T, typename Tup>
    static constexpr auto make_from_tuple(Tup&& t) -> T
    {
        return etl::make_from_tuple<T>(C20_FWD(t));
    }
    template <typename R, typename... A>
    static constexpr auto invoke_r(A&&... a) -> R
    {
        return etl::invoke_r<R>(C20_FWD(a)...);
    }
    template <typename A, typename B>
    static void swap(A& a, B& b)
    {
        using etl::swap;
        swap(a, b);
    }
};

struct StdLib {
    static constexpr char const* name = "std";
    template <typename... T>
    using tuple = std::tuple<T...>;
    template <typename A, typename B>
    using pair = std::pair<A, B>;
    template <typename T>
    using reference_wrapper = std::reference_wrapper<T>;
    template <typename T>
    static constexpr std::size_t tuple_size_v = std::tuple_size_v<T>;
    template <std::size_t I, typename T>
    using tuple_element_t = std::tuple_element_t<I, T>;
    template <typename F, typename... A>
    using invoke_result_t = std::invoke_result_t<F, A...>;

    static constexpr auto invoke           = C20_LIFT(std::invoke);
    static constexpr auto apply            = C20_LIFT(std::apply);
    static constexpr auto tuple_cat        = C20_LIFT(std::tuple_cat);
    static constexpr auto forward_as_tuple = C20_LIFT(std::forward_as_tuple);
    static constexpr auto tie              = C20_LIFT(std::tie);
    static constexpr auto make_tuple       = C20_LIFT(std::make_tuple);
    static constexpr auto make_pair        = C20_LIFT(std::make_pair);
    static constexpr auto ref              = C20_LIFT(std::ref);
    static constexpr auto cref             = C20_LIFT(std::cref);
    static constexpr auto bind_front       = C20_LIFT(std::bind_front);
    static constexpr auto not_fn           = C20_LIFT(std::not_fn);
    template <std::size_t I>
    static constexpr auto get = [](auto&& t) -> decltype(auto) { return std::get<I>(C20_FWD(t)); };
    template <typename T, typename Tup>
    static constexpr auto make_from_tuple(Tup&& t) -> T
    {
        return std::make_from_tuple<T>(C20_FWD(t));
    }
    // std::invoke_r is C++23: INVOKE<R> written out (implicit conversion of the result to R, void discards)
    template <typename R, typename... A>
    static constexpr auto invoke_r(A&&... a) -> R
    {
        if constexpr (std::is_void_v<R>) {
            std::invoke(C20_FWD(a)...);
        } else {
            return std::invoke(C20_FWD(a)...);
        }
    }
    template <typename A, typename B>
    static void swap(A& a, B& b)
    {
        using std::swap;
        swap(a, b);
    }
};

// ------------------------------------------------------------------ element kinds for pair / tuple scenarios
template <typename T>
constexpr auto tag() -> char const*
{
    if constexpr (std::is_same_v<T, int>) {
        return "i";
    } else if constexpr (std::is_same_v<T, TCM>) {
        return "cm";
    } else if constexpr (std::is_same_v<T, TMO>) {
        return "mo";
    } else if constexpr (std::is_same_v<T, TCO>) {
        return "co";
    } else if constexpr (std::is_same_v<T, int&>) {
        return "ir";
    } else if constexpr (std::is_same_v<T, int const>) {
        return "ic";
    } else if constexpr (std::is_same_v<T, short>) {
        return "s";
    } else if constexpr (std::is_same_v<T, long>) {
        return "l";
    } else {
        return "?";
    }
}
template <typename... T>
auto tags() -> std::string
{
    char const* t[] = {tag<T>()...};
    std::string s   = "<";
    for (std::size_t i = 0; i < sizeof...(T); ++i) {
        if (i != 0) { s += ","; }
        s += t[i];
    }
    return s + ">";
}

// A source object for one element of type T and the expression (fwd) an element of that type is constructed from:
// int: rvalue int; TMO: rvalue (moved); TCO: lvalue (copied); TCM: rvalue (moved); int&: lvalue; int const: rvalue int.
template <typename T>
struct Src {
    std::remove_const_t<T> v;
    explicit Src(int x) : v(x) { }
    auto fwd() -> decltype(auto)
    {
        if constexpr (std::is_same_v<T, TCO>) {
            return static_cast<TCO const&>(v);
        } else {
            return std::move(v);
        }
    }
    auto state() -> int { return val_of(v); }
};
template <>
struct Src<int&> {
    int v;
    explicit Src(int x) : v(x) { }
    auto fwd() -> int& { return v; }
    auto state() -> int { return v; }
};

template <typename T>
constexpr bool is_lref = std::is_lvalue_reference_v<T>;
template <typename T>
constexpr bool copyable_kind = !std::is_same_v<T, TMO>;

template <typename L, typename Tup, std::size_t... I>
auto show_tuple_impl(Tup const& t, std::index_sequence<I...> /*i*/) -> std::string
{
    int v[] = {val_of(L::template get<I>(t))...};
    Out o;
    o << "(";
    for (std::size_t i = 0; i < sizeof...(I); ++i) {
        if (i != 0) { o << ","; }
        o << v[i];
    }
    o << ")";
    return o.s;
}
template <typename L, typename Tup>
auto show_tuple(Tup const& t) -> std::string
{
    return show_tuple_impl<L>(t, std::make_index_sequence<L::template tuple_size_v<Tup>>{});
}
[[gnu::noinline]] inline auto show2(int a, int b) -> std::string
{
    Out o;
    o << "(" << a << "," << b << ")";
    return o.s;
}
template <typename P>
auto show_pair(P const& p) -> std::string
{
    return show2(val_of(p.first), val_of(p.second));
}

// ------------------------------------------------------------------ case / family table / driver
struct Case {
    std::string fam;
    int x{0}, y{0};
};
inline auto show_case(Case const& k) -> std::string { return k.fam + " " + std::to_string(k.x) + " " + std::to_string(k.y); }

struct Family {
    std::string name; // no blanks; identifies the obligation (element types / op / value categories)
    std::string sub;
    int nx{1}, ny{1};
    std::string (*run_etl)(int, int){nullptr};
    std::string (*run_std)(int, int){nullptr};
    bool (*nt)(int, int){nullptr}; // non-trivial rule of this family (null: every case)
    char const* label{nullptr};       // optional class label fed with nt()
};
inline auto families() -> std::vector<Family>&
{
    static std::vector<Family> f;
    return f;
}

// F is a stateless generic lambda  []<class L>(int x, int y) -> std::string  (default-constructible in C++20); plain
// function pointers keep the generated code small
template <typename F, typename L>
auto call_scenario(int x, int y) -> std::string
{
    return F{}.template operator()<L>(x, y);
}
using NtRule = bool (*)(int, int);
[[gnu::noinline]] inline void add_family_raw(std::string name, char const* sub, int nx, int ny, std::string (*fe)(int, int), std::string (*fs)(int, int), NtRule nt, char const* label)
{
    Family fam;
    fam.name    = std::move(name);
    fam.sub     = sub;
    fam.nx      = nx;
    fam.ny      = ny;
    fam.run_etl = fe;
    fam.run_std = fs;
    fam.nt      = nt;
    fam.label   = label;
    families().push_back(std::move(fam));
}
template <typename F>
void add_family(std::string name, char const* sub, int nx, int ny, F /*f*/, NtRule nt = nullptr, char const* label = nullptr)
{
    add_family_raw(std::move(name), sub, nx, ny, &call_scenario<F, EtlLib>, &call_scenario<F, StdLib>, nt, label);
}
// etl-only obligation whose oracle is a hand-written model (std facility missing in libstdc++ 12)
inline void add_family_model(std::string name, char const* sub, int nx, int ny, std::string (*fe)(int, int), std::string (*fm)(int, int))
{
    add_family_raw(std::move(name), sub, nx, ny, fe, fm, nullptr, nullptr);
}

// first blank-separated token in which two outcome strings differ (puts the failing obligation in front of the detail)
[[gnu::noinline]] inline auto first_difference(std::string const& e, std::string const& s) -> std::string
{
    auto split = [](std::string const& x) {
        std::vector<std::string> v;
        std::stringstream ss(x);
        std::string t;
        while (ss >> t) { v.push_back(t); }
        return v;
    };
    auto a = split(e);
    auto b = split(s);
    std::size_t i = 0;
    while (i < a.size() && i < b.size() && a[i] == b[i]) { ++i; }
    std::string ctx = i > 0 ? a[i - 1] + " " : std::string();
    return "first difference after `" + ctx + "`: etl `" + (i < a.size() ? a[i] : std::string("<end>")) + "` std `" + (i < b.size() ? b[i] : std::string("<end>")) + "`";
}

// "" = ok
inline auto run_one(Family const& f, int x, int y) -> std::string
{
    lt::reset();
    std::string e  = f.run_etl(x, y);
    std::string le = lt::check_empty();
    lt::reset();
    std::string s  = f.run_std(x, y);
    std::string ls = lt::check_empty();
    lt::reset();
    if (!ls.empty()) { return "HARNESS BUG: the std:: side of this scenario violates the lifetime registry: " + ls; }
    if (!le.empty()) { return le + " [etl outcome: " + e + "]"; }
    if (e != s) { return first_difference(e, s) + " || etl: " + e + " | std: " + s; }
    return "";
}

inline void run_all(vf::Ctx& c)
{
    std::uint64_t i = 0;
    for (auto const& f : families()) {
        for (int x = 0; x < f.nx; ++x) {
            for (int y = 0; y < f.ny; ++y) {
                if (!c.mine(i++)) { continue; }
                Case k{f.name, x, y};
                vf::Flight<Case> fl(f.sub.c_str(), k);
                vf::eval(f.sub.c_str());
                auto d  = run_one(f, x, y);
                bool nt = f.nt == nullptr || f.nt(x, y);
                if (nt) { vf::nontrivial_count(); }
                if (f.label != nullptr) { vf::label(f.label, nt); }
                if (nt) {
                    vf::sample(f.sub.c_str(), [&] {
                        lt::reset();
                        auto o = f.run_etl(x, y);
                        lt::reset();
                        return show_case(k) + " -> " + o;
                    });
                }
                if (!d.empty()) {
                    if (std::getenv("C20_LIST") != nullptr) { std::fprintf(stderr, "MISMATCH %s :: %s\n", show_case(k).c_str(), d.c_str()); } // debugging aid (with --memory-only)
                    vf::mismatch(f.sub.c_str(), k, d);
                    if (!c.memory_only) { return; }
                }
            }
        }
    }
}

inline auto replay_one(std::string const& cs) -> std::string
{
    Case k;
    auto p1 = cs.find(' ');
    k.fam   = cs.substr(0, p1);
    if (p1 != std::string::npos) { std::sscanf(cs.c_str() + p1, "%d %d", &k.x, &k.y); }
    for (auto const& f : families()) {
        if (f.name == k.fam) {
            if (k.x < 0 || k.x >= f.nx || k.y < 0 || k.y >= f.ny) { return "replay: arguments out of range for family " + k.fam; }
            vf::Flight<Case> fl(f.sub.c_str(), k);
            lt::reset();
            std::fprintf(stderr, "replaying %s\n  etl: %s\n", cs.c_str(), f.run_etl(k.x, k.y).c_str());
            lt::reset();
            std::fprintf(stderr, "  std: %s\n", f.run_std(k.x, k.y).c_str());
            return run_one(f, k.x, k.y);
        }
    }
    return "replay: unknown family '" + k.fam + "'";
}

} // namespace c20
