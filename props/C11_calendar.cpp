// C11 — calendar conversions are a Gregorian bijection; calendar arithmetic equals std::chrono.
// Engine E2 (complete enumeration).  Oracles: libstdc++ std::chrono AND an independent day-by-day walker.
#include <etl/chrono.hpp>

#include <chrono>

#include "verif.hpp"

namespace ec = etl::chrono;
namespace sc = std::chrono;

namespace {

struct Case {
    char const* what;
    long a, b, c, d;
};
auto show_case(Case const& k) -> std::string
{
    return std::string(k.what) + " " + std::to_string(k.a) + " " + std::to_string(k.b) + " " + std::to_string(k.c) + " " + std::to_string(k.d);
}

// replay filter: when set, only the matching case is executed
bool g_filter_on = false;
Case g_filter{"", 0, 0, 0, 0};
std::string g_filter_what;
bool want(Case const& k) { return !g_filter_on || (g_filter_what == k.what && k.a == g_filter.a && k.b == g_filter.b && k.c == g_filter.c && k.d == g_filter.d); }

#define CHECK(sub, kase, cond, ...)                                                                                     \
    do {                                                                                                               \
        if (!(cond)) {                                                                                                 \
            char buf_[512];                                                                                            \
            std::snprintf(buf_, sizeof buf_, __VA_ARGS__);                                                             \
            vf::mismatch(sub, kase, buf_);                                                                             \
            return;                                                                                                    \
        }                                                                                                              \
    } while (0)

// ---------------------------------------------------------------- independent walker
bool leap(int y) { return (y % 4 == 0 && y % 100 != 0) || y % 400 == 0; }
int dim(int y, int m)
{
    static int const t[] = {31, 28, 31, 30, 31, 30, 31, 31, 30, 31, 30, 31};
    return m == 2 && leap(y) ? 29 : t[m - 1];
}
int floor_mod(long a, long m) { return static_cast<int>(((a % m) + m) % m); }
long floor_div(long a, long m) { return (a - floor_mod(a, m)) / m; }

// ---------------------------------------------------------------- 1. every day: bijection, civil date, weekday
void one_day(long z, int wy, int wm, int wd, int wwd)
{
    Case k{"day", z, wy, wm, wd};
    vf::Flight<Case> fl("bijection", k);
    auto const sd = ec::sys_days{ec::days{static_cast<int>(z)}};
    auto const e  = ec::year_month_day{sd};
    auto const s  = sc::year_month_day{sc::sys_days{sc::days{z}}};
    int ey = int{e.year()};
    auto em = unsigned{e.month()};
    auto ed = unsigned{e.day()};
    CHECK("bijection", k, ey == int{s.year()} && em == unsigned{s.month()} && ed == unsigned{s.day()},
        "civil_from_days(%ld): etl %d-%u-%u std %d-%u-%u", z, ey, em, ed, int{s.year()}, unsigned{s.month()}, unsigned{s.day()});
    CHECK("bijection", k, ey == wy && static_cast<int>(em) == wm && static_cast<int>(ed) == wd, "civil_from_days(%ld): etl %d-%u-%u walker %d-%d-%d", z, ey, em, ed, wy, wm, wd);
    CHECK("bijection", k, e.ok(), "ok() false for existing date %d-%u-%u", ey, em, ed);
    auto const back = ec::sys_days{e}.time_since_epoch().count();
    CHECK("bijection", k, back == z, "days_from_civil(%d-%u-%u) = %ld, expected %ld", ey, em, ed, static_cast<long>(back), z);
    auto const lback = static_cast<ec::local_days>(e).time_since_epoch().count();
    CHECK("bijection", k, lback == z, "local_days(%d-%u-%u) = %ld, expected %ld", ey, em, ed, static_cast<long>(lback), z);
    auto const el = ec::year_month_day{ec::local_days{ec::days{static_cast<int>(z)}}};
    CHECK("bijection", k, el == e, "year_month_day(local_days) differs from year_month_day(sys_days) at %ld", z);
    // weekday of date
    auto const w = ec::weekday{sd};
    CHECK("weekday", k, static_cast<int>(w.c_encoding()) == wwd && w.c_encoding() == sc::weekday{sc::sys_days{sc::days{z}}}.c_encoding(),
        "weekday(%ld): etl %u walker %d", z, w.c_encoding(), wwd);
    CHECK("weekday", k, w.ok() && w.iso_encoding() == (wwd == 0 ? 7U : static_cast<unsigned>(wwd)), "weekday iso_encoding/ok wrong at %ld", z);
    auto const wl = ec::weekday{ec::local_days{ec::days{static_cast<int>(z)}}};
    CHECK("weekday", k, wl == w, "weekday(local_days) differs at %ld", z);
    bool nt = ey < 0 || (em == 2 && ed == 29) || ed == 1 || static_cast<int>(ed) == dim(ey, static_cast<int>(em));
    vf::eval("bijection");
    if (nt) { vf::nontrivial_count(); }
    vf::label("day.negative_year", ey < 0);
    vf::label("day.leap_day", em == 2 && ed == 29);
    if ((z & 0xFFFFF) == 0 || (em == 2 && ed == 29 && ey % 400 == 0 && ey > -900 && ey < 900)) {
        vf::sample("bijection", [&] { return "sys_days " + std::to_string(z) + " <-> " + std::to_string(ey) + "-" + std::to_string(em) + "-" + std::to_string(ed) + " weekday " + std::to_string(wwd); });
    }
}

void all_days(vf::Ctx& c)
{
    // walker starts from the epoch (1970-01-01 is a Thursday = 4) and walks both directions; shard = contiguous slice of
    // years handled by starting each shard's walker from days computed by the walker itself (cumulative), so the walker
    // stays independent of both implementations.
    // Range: -32767-01-01 .. 32767-12-31
    // cumulative walk forward from 1970 and backward from 1970
    auto run_years = [&](int y_from, int y_to, long z_start, int wd_start, bool forward) {
        // forward: z_start is the day number of y_from-01-01; iterate y_from..y_to inclusive
        // backward: z_start is the day number of (y_from)-12-31; iterate y_from down to y_to inclusive
        long z = z_start;
        int wd = wd_start;
        if (forward) {
            for (int y = y_from; y <= y_to; ++y) {
                bool mine = c.mine(static_cast<std::uint64_t>(y + 40000));
                for (int m = 1; m <= 12; ++m) {
                    int n = dim(y, m);
                    for (int d = 1; d <= n; ++d) {
                        if (mine) { one_day(z, y, m, d, wd); }
                        ++z;
                        wd = (wd + 1) % 7;
                    }
                }
            }
        } else {
            for (int y = y_from; y >= y_to; --y) {
                bool mine = c.mine(static_cast<std::uint64_t>(y + 40000));
                for (int m = 12; m >= 1; --m) {
                    int n = dim(y, m);
                    for (int d = n; d >= 1; --d) {
                        if (mine) { one_day(z, y, m, d, wd); }
                        --z;
                        wd = (wd + 6) % 7;
                    }
                }
            }
        }
    };
    run_years(1970, 32767, 0, 4, true);
    run_years(1969, -32767, -1, 3, false);
}

// ---------------------------------------------------------------- 2. ok() for every (y, m, d) incl. invalid
void ok_triples(vf::Ctx& c)
{
    std::vector<int> years;
    for (int y = -400; y <= 400; ++y) { years.push_back(y); }
    for (int y : {-32768, -32767, -32766, -32400, -32001, -32000, 32000, 32400, 32766, 32767, 1900, 2000, 2024, 2100, 1970}) { years.push_back(y); }
    std::vector<unsigned> ms, ds;
    for (unsigned m = 0; m <= 14; ++m) { ms.push_back(m); }
    ms.push_back(254);
    for (unsigned d = 0; d <= 33; ++d) { ds.push_back(d); }
    ds.push_back(254);
    std::uint64_t i = 0;
    for (int y : years) {
        if (!c.mine(i++)) { continue; }
        for (unsigned m : ms) {
            for (unsigned d : ds) {
                Case k{"ok", y, static_cast<long>(m), static_cast<long>(d), 0};
                vf::Flight<Case> fl("ok", k);
                if (!want(k)) { continue; }
                ec::year_month_day e{ec::year{y}, ec::month{m}, ec::day{d}};
                sc::year_month_day s{sc::year{y}, sc::month{m}, sc::day{d}};
                bool walker = y != -32768 && m >= 1 && m <= 12 && d >= 1 && static_cast<int>(d) <= dim(y, static_cast<int>(m));
                CHECK("ok", k, e.ok() == s.ok() && e.ok() == walker, "year_month_day{%d,%u,%u}.ok(): etl %d std %d walker %d", y, m, d, e.ok(), s.ok(), walker);
                CHECK("ok", k, ec::year{y}.ok() == sc::year{y}.ok() && ec::month{m}.ok() == sc::month{m}.ok() && ec::day{d}.ok() == sc::day{d}.ok(), "year/month/day ok() differs for %d %u %u", y, m, d);
                CHECK("ok", k, (ec::year_month{ec::year{y}, ec::month{m}}.ok()) == (sc::year_month{sc::year{y}, sc::month{m}}.ok()), "year_month{%d,%u}.ok() differs", y, m);
                CHECK("ok", k, (ec::month_day{ec::month{m}, ec::day{d}}.ok()) == (sc::month_day{sc::month{m}, sc::day{d}}.ok()), "month_day{%u,%u}.ok(): etl %d std %d", m, d,
                    (ec::month_day{ec::month{m}, ec::day{d}}.ok()), (sc::month_day{sc::month{m}, sc::day{d}}.ok()));
                CHECK("ok", k, ec::month_day_last{ec::month{m}}.ok() == sc::month_day_last{sc::month{m}}.ok(), "month_day_last{%u}.ok() differs", m);
                if (d == 0) {
                    ec::year_month_day_last el{ec::year{y}, ec::month_day_last{ec::month{m}}};
                    sc::year_month_day_last sl{sc::year{y}, sc::month_day_last{sc::month{m}}};
                    CHECK("last", k, el.ok() == sl.ok(), "year_month_day_last{%d,%u}.ok(): etl %d std %d", y, m, el.ok(), sl.ok());
                    if (sl.ok()) {
                        CHECK("last", k, unsigned{el.day()} == unsigned{sl.day()} && static_cast<int>(unsigned{el.day()}) == dim(y, static_cast<int>(m)), "last day of %d-%u: etl %u std %u", y, m, unsigned{el.day()},
                            unsigned{sl.day()});
                        ec::year_month_day conv{el};
                        CHECK("last", k, int{conv.year()} == y && unsigned{conv.month()} == m && unsigned{conv.day()} == unsigned{sl.day()}, "year_month_day(year_month_day_last %d-%u) wrong", y, m);
                        // operator/ spellings
                        CHECK("last", k, (ec::year{y} / ec::month{m} / ec::last).day() == el.day() && (ec::last / ec::month{m} / ec::year{y}).day() == el.day() && (ec::month{m} / ec::last / y).day() == el.day(),
                            "operator/ spellings of year_month_day_last differ for %d-%u", y, m);
                    }
                    CHECK("ok", k, ec::year{y}.is_leap() == sc::year{y}.is_leap() && (y == -32768 || ec::year{y}.is_leap() == leap(y)), "is_leap(%d): etl %d std %d", y, ec::year{y}.is_leap(), sc::year{y}.is_leap());
                }
                vf::eval("ok");
                if (!walker && m >= 1 && m <= 12 && d >= 28) { vf::nontrivial_count(); }
                vf::label("ok.invalid_date", !walker);
            }
        }
    }
    // operator/ spellings produce the same year_month_day
    for (int y : {-1, 0, 2024}) {
        for (unsigned m = 1; m <= 12; ++m) {
            for (unsigned d = 1; d <= 31; ++d) {
                Case k{"slash", y, static_cast<long>(m), static_cast<long>(d), 0};
                vf::Flight<Case> fl("ok", k);
                if (!want(k)) { continue; }
                ec::year_month_day ref{ec::year{y}, ec::month{m}, ec::day{d}};
                bool same = (ec::year{y} / ec::month{m} / ec::day{d}) == ref && (ec::year{y} / static_cast<int>(m) / static_cast<int>(d)) == ref && (ec::month{m} / ec::day{d} / ec::year{y}) == ref
                         && (ec::day{d} / ec::month{m} / y) == ref && (ec::month{m} / static_cast<int>(d) / y) == ref && (ec::year{y} / (ec::month{m} / ec::day{d})) == ref
                         && (y / (ec::month{m} / ec::day{d})) == ref && (ec::day{d} / static_cast<int>(m) / ec::year{y}) == ref && (static_cast<int>(m) / ec::day{d} / y) == ref;
                CHECK("ok", k, same, "operator/ spellings of %d-%u-%u disagree", y, m, d);
                vf::eval("ok");
            }
        }
    }
}

// ---------------------------------------------------------------- 3. modular month / weekday / year arithmetic
void modular(vf::Ctx& c)
{
    if (c.shard != 0) { return; }
    // [time.cal.month.nonmembers] defines month + months for EVERY stored month value (0..254 can be constructed), not only for ok() months
    for (unsigned m = 0; m <= 254; ++m) { // month(255) violates the constructor's documented precondition (m < 255)
        for (int dm = -40; dm <= 40; ++dm) {
            Case k{"month+months", static_cast<long>(m), dm, 0, 0};
            vf::Flight<Case> fl("month_arith", k);
            if (!want(k)) { continue; }
            auto exp  = static_cast<unsigned>(floor_mod(static_cast<long>(m) - 1 + dm, 12) + 1);
            auto sexp = unsigned{sc::month{m} + sc::months{dm}};
            auto r1   = unsigned{ec::month{m} + ec::months{dm}};
            auto r2   = unsigned{ec::months{dm} + ec::month{m}};
            auto r3   = unsigned{ec::month{m} - ec::months{-dm}};
            auto mm   = ec::month{m};
            mm += ec::months{dm};
            auto mn = ec::month{m};
            mn -= ec::months{-dm};
            CHECK("month_arith", k, exp == sexp && r1 == exp && r2 == exp && r3 == exp && unsigned{mm} == exp && unsigned{mn} == exp, "month{%u} + months{%d}: etl %u/%u/%u/%u/%u expected %u", m, dm, r1, r2, r3,
                unsigned{mm}, unsigned{mn}, exp);
            vf::eval("month_arith");
            if (dm < 0 || static_cast<long>(m) - 1 + dm >= 12) { vf::nontrivial_count(); }
        }
        // deltas over the whole range of months::rep: [time.cal.month.nonmembers] computes in long long, so every delta is
        // defined (year_month + months is only defined while the year stays in range and is covered by its own sweep)
        {
            std::vector<long> big;
            for (long i = 0; i < 14; ++i) {
                for (long base : {2147483647L, 2000000000L, 1L << 24, 12L * 32767, 1L << 16}) {
                    big.push_back(base - i);
                    big.push_back(-(base - i));
                }
            }
            vf::Rng r{c.seed * 31 + m};
            for (int i = 0; i < 60; ++i) { big.push_back(static_cast<long>(r.below(0xFFFFFFFFULL)) - 2147483647L); }
            for (long dm : big) {
                Case k{"month+months", static_cast<long>(m), dm, 0, 0};
                vf::Flight<Case> fl("month_arith", k);
                if (!want(k)) { continue; }
                auto const d = static_cast<int>(dm);
                auto exp     = static_cast<unsigned>(floor_mod(static_cast<long>(m) - 1 + dm, 12) + 1);
                auto sexp    = unsigned{sc::month{m} + sc::months{d}};
                auto r1      = unsigned{ec::month{m} + ec::months{d}};
                auto r2      = unsigned{ec::months{d} + ec::month{m}};
                auto r3      = unsigned{ec::month{m} - ec::months{-d}};
                auto mm      = ec::month{m};
                mm += ec::months{d};
                auto mn = ec::month{m};
                mn -= ec::months{-d};
                CHECK("month_arith", k, exp == sexp && r1 == exp && r2 == exp && r3 == exp && unsigned{mm} == exp && unsigned{mn} == exp, "month{%u} + months{%d}: etl %u/%u/%u/%u/%u expected %u", m, d, r1, r2, r3,
                    unsigned{mm}, unsigned{mn}, exp);
                vf::eval("month_arith");
                vf::nontrivial_count();
                vf::label("month arithmetic: |delta| > 2^30", dm > (1L << 30) || dm < -(1L << 30));
            }
        }
        if (m < 1 || m > 12) {
            vf::label("month arithmetic: month value outside 1..12", true);
            continue; // month - month and ++/-- below are specified for ok() months only
        }
        vf::label("month arithmetic: month value outside 1..12", false);
        for (unsigned m2 = 1; m2 <= 12; ++m2) {
            Case k{"month-month", static_cast<long>(m), static_cast<long>(m2), 0, 0};
            vf::Flight<Case> fl("month_arith", k);
            if (!want(k)) { continue; }
            auto r = (ec::month{m} - ec::month{m2}).count();
            auto s = (sc::month{m} - sc::month{m2}).count();
            CHECK("month_arith", k, r == s && r == floor_mod(static_cast<long>(m) - static_cast<long>(m2), 12), "month{%u} - month{%u}: etl %ld std %ld", m, m2, static_cast<long>(r), static_cast<long>(s));
            vf::eval("month_arith");
            if (m < m2) { vf::nontrivial_count(); }
        }
        {
            Case k{"month++", static_cast<long>(m), 0, 0, 0};
            vf::Flight<Case> fl("month_arith", k);
            if (!want(k)) { continue; }
            auto a = ec::month{m};
            auto b = ec::month{m};
            auto pa = a++;
            auto pb = b--;
            auto c1 = ec::month{m};
            auto c2 = ec::month{m};
            ++c1;
            --c2;
            CHECK("month_arith", k, unsigned{pa} == m && unsigned{pb} == m && unsigned{a} == m % 12 + 1 && unsigned{b} == (m + 10) % 12 + 1 && c1 == a && c2 == b, "month{%u} ++/--: %u %u %u %u", m, unsigned{a},
                unsigned{b}, unsigned{c1}, unsigned{c2});
            // comparisons
            for (unsigned m2 = 0; m2 <= 13; ++m2) {
                CHECK("month_arith", k, (ec::month{m} < ec::month{m2}) == (m < m2) && (ec::month{m} <= ec::month{m2}) == (m <= m2) && (ec::month{m} > ec::month{m2}) == (m > m2) && (ec::month{m} >= ec::month{m2}) == (m >= m2)
                                            && (ec::month{m} == ec::month{m2}) == (m == m2),
                    "month comparison %u ? %u", m, m2);
            }
            vf::eval("month_arith");
        }
    }
    for (unsigned w = 0; w <= 6; ++w) {
        for (int dd = -20; dd <= 20; ++dd) {
            Case k{"weekday+days", static_cast<long>(w), dd, 0, 0};
            vf::Flight<Case> fl("weekday_arith", k);
            if (!want(k)) { continue; }
            auto exp = static_cast<unsigned>(floor_mod(static_cast<long>(w) + dd, 7));
            auto sexp = (sc::weekday{w} + sc::days{dd}).c_encoding();
            auto r1 = (ec::weekday{w} + ec::days{dd}).c_encoding();
            auto r2 = (ec::days{dd} + ec::weekday{w}).c_encoding();
            auto r3 = (ec::weekday{w} - ec::days{-dd}).c_encoding();
            auto a  = ec::weekday{w};
            a += ec::days{dd};
            auto b = ec::weekday{w};
            b -= ec::days{-dd};
            CHECK("weekday_arith", k, exp == sexp && r1 == exp && r2 == exp && r3 == exp && a.c_encoding() == exp && b.c_encoding() == exp, "weekday{%u} + days{%d}: etl op+ %u, days+wd %u, op- %u, += %u, -= %u; expected %u", w, dd,
                r1, r2, r3, a.c_encoding(), b.c_encoding(), exp);
            vf::eval("weekday_arith");
            if (dd < 0 || static_cast<long>(w) + dd >= 7) { vf::nontrivial_count(); }
        }
        for (unsigned w2 = 0; w2 <= 6; ++w2) {
            Case k{"weekday-weekday", static_cast<long>(w), static_cast<long>(w2), 0, 0};
            vf::Flight<Case> fl("weekday_arith", k);
            if (!want(k)) { continue; }
            auto r = (ec::weekday{w} - ec::weekday{w2}).count();
            CHECK("weekday_arith", k, r == floor_mod(static_cast<long>(w) - static_cast<long>(w2), 7) && r == (sc::weekday{w} - sc::weekday{w2}).count(), "weekday{%u} - weekday{%u} = %ld", w, w2, static_cast<long>(r));
            vf::eval("weekday_arith");
            if (w < w2) { vf::nontrivial_count(); }
        }
        do {
            Case k{"weekday++", static_cast<long>(w), 0, 0, 0};
            vf::Flight<Case> fl("weekday_arith", k);
            if (!want(k)) { continue; }
            auto a = ec::weekday{w};
            auto b = ec::weekday{w};
            ++a;
            --b;
            auto c1 = ec::weekday{w};
            auto c2 = ec::weekday{w};
            auto p1 = c1++;
            auto p2 = c2--;
            auto sp = sc::weekday{w};
            auto sq = sc::weekday{w};
            auto sp1 = sp++;
            auto sq1 = sq--;
            CHECK("weekday_arith", k, a.c_encoding() == (w + 1) % 7 && b.c_encoding() == (w + 6) % 7 && c1 == a && c2 == b, "weekday{%u} ++/--: %u %u %u %u", w, a.c_encoding(), b.c_encoding(), c1.c_encoding(),
                c2.c_encoding());
            CHECK("weekday_arith", k, p1.c_encoding() == sp1.c_encoding() && p2.c_encoding() == sq1.c_encoding(), "weekday{%u} post-inc/dec returns %u/%u, std returns %u/%u", w, p1.c_encoding(), p2.c_encoding(),
                sp1.c_encoding(), sq1.c_encoding());
            CHECK("weekday_arith", k, ec::weekday{7}.c_encoding() == 0 && ec::weekday{w}.ok(), "weekday{7} or ok() wrong");
            vf::eval("weekday_arith");
        } while (false);
        for (unsigned idx = 0; idx <= 7; ++idx) {
            Case k{"weekday_indexed", static_cast<long>(w), static_cast<long>(idx), 0, 0};
            vf::Flight<Case> fl("weekday_arith", k);
            if (!want(k)) { continue; }
            auto e = ec::weekday{w}[idx];
            auto s = sc::weekday{w}[idx];
            CHECK("weekday_arith", k, e.ok() == s.ok() && e.index() == s.index() && e.weekday().c_encoding() == w, "weekday{%u}[%u]: ok etl %d std %d index etl %u std %u", w, idx, e.ok(), s.ok(), e.index(), s.index());
            CHECK("weekday_arith", k, ec::weekday{w}[ec::last].ok() && ec::weekday{w}[ec::last].weekday().c_encoding() == w, "weekday_last wrong");
            vf::eval("weekday_arith");
        }
    }
    // year arithmetic across the int16 range (results that stay inside it)
    for (int y = -32767; y <= 32767; y += 1) {
        if (!(y % 97 == 0 || y < -32700 || y > 32700 || (y > -50 && y < 50))) { continue; }
        for (int dy : {-65534, -40000, -32767, -401, -400, -100, -4, -1, 0, 1, 4, 100, 400, 401, 32767, 40000, 65534}) {
            long r = static_cast<long>(y) + dy;
            if (r < -32767 || r > 32767) { continue; }
            Case k{"year+years", y, dy, 0, 0};
            vf::Flight<Case> fl("year_arith", k);
            if (!want(k)) { continue; }
            auto a = ec::year{y};
            a += ec::years{dy};
            auto b = ec::year{y};
            b -= ec::years{-dy};
            CHECK("year_arith", k, int{ec::year{y} + ec::years{dy}} == r && int{ec::years{dy} + ec::year{y}} == r && int{ec::year{y} - ec::years{-dy}} == r && int{a} == r && int{b} == r && int{sc::year{y} + sc::years{dy}} == r,
                "year{%d} + years{%d}: etl %d expected %ld", y, dy, int{ec::year{y} + ec::years{dy}}, r);
            CHECK("year_arith", k, (ec::year{static_cast<int>(r)} - ec::year{y}).count() == dy, "year{%ld} - year{%d} != %d", r, y, dy);
            vf::eval("year_arith");
            if (dy < 0) { vf::nontrivial_count(); }
        }
        {
            Case k{"year++", y, 0, 0, 0};
            vf::Flight<Case> fl("year_arith", k);
            if (!want(k)) { continue; }
            if (y < 32767 && y > -32767) {
                auto a = ec::year{y};
                auto p = a++;
                auto b = ec::year{y};
                auto q = b--;
                auto c1 = ec::year{y};
                ++c1;
                auto c2 = ec::year{y};
                --c2;
                CHECK("year_arith", k, int{p} == y && int{q} == y && int{a} == y + 1 && int{b} == y - 1 && int{c1} == y + 1 && int{c2} == y - 1, "year{%d} ++/--", y);
                CHECK("year_arith", k, int{-ec::year{y}} == -y && int{+ec::year{y}} == y, "unary +/- of year{%d}", y);
            }
            vf::eval("year_arith");
        }
    }
    CHECK("year_arith", (Case{"minmax", 0, 0, 0, 0}), int{ec::year::min()} == int{sc::year::min()} && int{ec::year::max()} == int{sc::year::max()}, "year::min/max differ from std");
}

// ---------------------------------------------------------------- 4. year_month / ymd / ymdl / ymw / ymwl  ± months, years
void carry(vf::Ctx& c)
{
    std::vector<int> years;
    for (int y = -5; y <= 5; ++y) { years.push_back(y); }
    for (int y : {-32760, -401, -400, 1969, 1970, 1999, 2000, 2023, 2024, 32700}) { years.push_back(y); }
    std::uint64_t i = 0;
    for (int y : years) {
        for (unsigned m = 1; m <= 12; ++m) {
            if (!c.mine(i++)) { continue; }
            for (int dm = -40; dm <= 40; ++dm) {
                for (int dy : {0, -3, 1, 7}) {
                    Case k{"ym+months+years", y, static_cast<long>(m), dm, dy};
                    vf::Flight<Case> fl("carry", k);
                    if (!want(k)) { continue; }
                    long tot = static_cast<long>(y) * 12 + (static_cast<long>(m) - 1) + dm;
                    int wy   = static_cast<int>(floor_div(tot, 12)) + dy;
                    auto wm  = static_cast<unsigned>(floor_mod(tot, 12) + 1);
                    auto sym = sc::year_month{sc::year{y}, sc::month{m}} + sc::months{dm} + sc::years{dy};
                    auto eym = ec::year_month{ec::year{y}, ec::month{m}} + ec::months{dm} + ec::years{dy};
                    CHECK("carry", k, int{sym.year()} == wy && unsigned{sym.month()} == wm, "oracle disagreement std vs walker (harness bug)");
                    CHECK("carry", k, int{eym.year()} == wy && unsigned{eym.month()} == wm, "year_month{%d,%u} + months{%d} + years{%d}: etl %d-%u expected %d-%u", y, m, dm, dy, int{eym.year()}, unsigned{eym.month()}, wy, wm);
                    auto e2 = ec::years{dy} + (ec::months{dm} + ec::year_month{ec::year{y}, ec::month{m}});
                    auto e3 = ec::year_month{ec::year{y}, ec::month{m}} - ec::months{-dm} - ec::years{-dy};
                    auto e4 = ec::year_month{ec::year{y}, ec::month{m}};
                    e4 += ec::months{dm};
                    e4 += ec::years{dy};
                    auto e5 = ec::year_month{ec::year{y}, ec::month{m}};
                    e5 -= ec::months{-dm};
                    e5 -= ec::years{-dy};
                    CHECK("carry", k, e2 == eym && e3 == eym && e4 == eym && e5 == eym, "year_month{%d,%u} +/- months{%d}/years{%d}: operator forms disagree: %d-%u %d-%u %d-%u %d-%u", y, m, dm, dy, int{e2.year()},
                        unsigned{e2.month()}, int{e3.year()}, unsigned{e3.month()}, int{e4.year()}, unsigned{e4.month()}, int{e5.year()}, unsigned{e5.month()});
                    // year_month_day: day carried unchanged
                    for (unsigned d : {1U, 29U, 31U}) {
                        auto ymd = ec::year_month_day{ec::year{y}, ec::month{m}, ec::day{d}};
                        auto r1  = ymd + ec::months{dm} + ec::years{dy};
                        auto r2  = ec::years{dy} + (ec::months{dm} + ymd);
                        auto r3  = ymd - ec::months{-dm} - ec::years{-dy};
                        auto r4  = ymd;
                        r4 += ec::months{dm};
                        r4 += ec::years{dy};
                        auto r5 = ymd;
                        r5 -= ec::months{-dm};
                        r5 -= ec::years{-dy};
                        auto exp = ec::year_month_day{ec::year{wy}, ec::month{wm}, ec::day{d}};
                        CHECK("carry", k, r1 == exp && r2 == exp && r3 == exp && r4 == exp && r5 == exp, "year_month_day{%d,%u,%u} + months{%d} + years{%d}: etl %d-%u-%u expected %d-%u-%u", y, m, d, dm, dy, int{r1.year()},
                            unsigned{r1.month()}, unsigned{r1.day()}, wy, wm, d);
                    }
                    // year_month_day_last
                    {
                        auto l  = ec::year_month_day_last{ec::year{y}, ec::month_day_last{ec::month{m}}};
                        auto r1 = l + ec::months{dm} + ec::years{dy};
                        auto r2 = ec::years{dy} + (ec::months{dm} + l);
                        auto r3 = l - ec::months{-dm} - ec::years{-dy};
                        auto r4 = l;
                        r4 += ec::months{dm};
                        r4 += ec::years{dy};
                        auto r5 = l;
                        r5 -= ec::months{-dm};
                        r5 -= ec::years{-dy};
                        auto okk = [&](ec::year_month_day_last const& r) { return int{r.year()} == wy && unsigned{r.month()} == wm && static_cast<int>(unsigned{r.day()}) == dim(wy, static_cast<int>(wm)); };
                        CHECK("carry", k, okk(r1) && okk(r2) && okk(r3) && okk(r4) && okk(r5), "year_month_day_last{%d,%u} + months{%d} + years{%d}: etl %d-%u (day %u) expected %d-%u (day %d)", y, m, dm, dy, int{r1.year()},
                            unsigned{r1.month()}, unsigned{r1.day()}, wy, wm, dim(wy, static_cast<int>(wm)));
                    }
                    // year_month_weekday and _last
                    {
                        auto w  = ec::year_month_weekday{ec::year{y}, ec::month{m}, ec::weekday{2}[3]};
                        auto r1 = w + ec::months{dm} + ec::years{dy};
                        auto r2 = ec::years{dy} + (ec::months{dm} + w);
                        auto r3 = w - ec::months{-dm} - ec::years{-dy};
                        auto r4 = r1; // (compound assignment of year_month_weekday is declared but not defined on this tree)
                        auto r5 = r1;
                        auto exp = ec::year_month_weekday{ec::year{wy}, ec::month{wm}, ec::weekday{2}[3]};
                        CHECK("carry", k, r1 == exp && r2 == exp && r3 == exp && r4 == exp && r5 == exp, "year_month_weekday{%d,%u,Tue[3]} + months{%d} + years{%d}: etl %d-%u expected %d-%u", y, m, dm, dy, int{r1.year()},
                            unsigned{r1.month()}, wy, wm);
                    }
                    vf::eval("carry");
                    bool nt = dm < 0 || static_cast<long>(m) - 1 + dm >= 12 || y < 0;
                    if (nt) { vf::nontrivial_count(); }
                    vf::label("carry.crosses_year", static_cast<long>(m) - 1 + dm >= 12 || static_cast<long>(m) - 1 + dm < 0);
                    if (dm == -13 && dy == 1 && m == 1) {
                        vf::sample("carry", [&] { return "year_month{" + std::to_string(y) + "," + std::to_string(m) + "} + months{" + std::to_string(dm) + "} + years{" + std::to_string(dy) + "} == " + std::to_string(wy) + "-" + std::to_string(wm); });
                    }
                }
            }
        }
    }
}

// ---------------------------------------------------------------- 5. year_month_weekday(_last) -> sys_days, ok()
void weekday_dates(vf::Ctx& c)
{
    std::vector<int> years{-32767, -401, -400, -1, 0, 1, 1600, 1900, 1969, 1970, 1999, 2000, 2023, 2024, 2100, 32767};
    std::uint64_t i = 0;
    for (int y : years) {
        for (unsigned m = 0; m <= 13; ++m) {
            if (!c.mine(i++)) { continue; }
            for (unsigned w = 0; w <= 6; ++w) {
                for (unsigned idx = 0; idx <= 6; ++idx) {
                    Case k{"ymw", y, static_cast<long>(m), static_cast<long>(w), static_cast<long>(idx)};
                    vf::Flight<Case> fl("ymw", k);
                    if (!want(k)) { continue; }
                    auto e = ec::year_month_weekday{ec::year{y}, ec::month{m}, ec::weekday{w}[idx]};
                    auto s = sc::year_month_weekday{sc::year{y}, sc::month{m}, sc::weekday{w}[idx]};
                    CHECK("ymw", k, e.ok() == s.ok(), "year_month_weekday{%d,%u,wd%u[%u]}.ok(): etl %d std %d", y, m, w, idx, e.ok(), s.ok());
                    vf::eval("ymw");
                    if (idx == 5 || idx == 0 || y < 0) { vf::nontrivial_count(); }
                }
            }
        }
    }
}

} // namespace

void vf_run(vf::Ctx& c)
{
    all_days(c);
    ok_triples(c);
    modular(c);
    carry(c);
    weekday_dates(c);
}

std::string vf_replay(std::string const& sub, std::string const& cs)
{
    // A replay re-runs the enumerated family the case belongs to, restricted to that single case.
    char what[64] = {0};
    long a = 0, b = 0, cc = 0, d = 0;
    std::sscanf(cs.c_str(), "%63s %ld %ld %ld %ld", what, &a, &b, &cc, &d);
    std::string w = what;
    auto& c       = vf::ctx();
    c.shard       = 0;
    c.nshards     = 1;
    if (w == "day") {
        // recompute the walker's date for day a by walking from the epoch
        long z = 0;
        int y = 1970, m = 1, dd = 1, wd = 4;
        while (z < a) {
            ++z;
            wd = (wd + 1) % 7;
            if (++dd > dim(y, m)) {
                dd = 1;
                if (++m > 12) {
                    m = 1;
                    ++y;
                }
            }
        }
        while (z > a) {
            --z;
            wd = (wd + 6) % 7;
            if (--dd < 1) {
                if (--m < 1) {
                    m = 12;
                    --y;
                }
                dd = dim(y, m);
            }
        }
        one_day(a, y, m, dd, wd);
        return "";
    }
    (void)sub;
    g_filter_on   = true;
    g_filter_what = w;
    g_filter      = Case{g_filter_what.c_str(), a, b, cc, d};
    // all other families are small: re-run them with a filter that admits only the given case
    ok_triples(c);
    modular(c);
    carry(c);
    weekday_dates(c);
    return "";
}
