// C16 (part 2) — exact binary cmath functions against glibc libm, RUN-TIME path only.
//
//   fmod remainder copysign fmin fmax fdim nextafter (+ the f-suffixed spellings) for float and double must return
//   bit-identical results to glibc on
//     * the full cross product of a ~400-value boundary set per type (signed zeros, denormals and their edges, powers of
//       two +-1ulp, small integers and halves, 2^23/2^24/2^52/2^53/2^63 borders, max, infinities, quiet/signalling NaNs),
//     * seeded random pairs of six shapes (uniform bit patterns; nearly equal magnitudes; exact multiples and exact
//       half-way quotients (remainder ties); huge quotients; boundary value x random; neighbours across zero).
//   All NaNs are equal (sign / payload of a NaN result are not compared).
//   Masked because C leaves it open (and glibc's own answer differs between the inlined and the called fmax):
//   the sign of the zero returned by fmax/fmin when the arguments are zeros of opposite sign; fmax/fmin of a
//   SIGNALLING NaN (quiet NaNs are cases: the other argument must be returned).
//
//   Not present on this tree: nexttoward, remquo, nextafter(long double); long double is not claimed by the property.
//   Built with ASan+UBSan (+float-cast-overflow): the pinned tree's gcem::fmod casts the quotient to long long.
#include <etl/cmath.hpp>

#include <math.h>

#include <limits>
#include <type_traits>
#include <unordered_set>

#include "verif.hpp"

#include "C16_common.hpp"

namespace {
using namespace c16;

float (*volatile o_fmodf)(float, float)       = ::fmodf;
float (*volatile o_remainderf)(float, float)  = ::remainderf;
float (*volatile o_copysignf)(float, float)   = ::copysignf;
float (*volatile o_fminf)(float, float)       = ::fminf;
float (*volatile o_fmaxf)(float, float)       = ::fmaxf;
float (*volatile o_fdimf)(float, float)       = ::fdimf;
float (*volatile o_nextafterf)(float, float)  = ::nextafterf;
double (*volatile o_fmod)(double, double)      = ::fmod;
double (*volatile o_remainder)(double, double) = ::remainder;
double (*volatile o_copysign)(double, double)  = ::copysign;
double (*volatile o_fmin)(double, double)      = ::fmin;
double (*volatile o_fmax)(double, double)      = ::fmax;
double (*volatile o_fdim)(double, double)      = ::fdim;
double (*volatile o_nextafter)(double, double) = ::nextafter;

template <typename T>
struct Ora;
template <>
struct Ora<float> {
    static auto fmod(float x, float y) { return o_fmodf(x, y); }
    static auto remainder(float x, float y) { return o_remainderf(x, y); }
    static auto copysign(float x, float y) { return o_copysignf(x, y); }
    static auto fmin(float x, float y) { return o_fminf(x, y); }
    static auto fmax(float x, float y) { return o_fmaxf(x, y); }
    static auto fdim(float x, float y) { return o_fdimf(x, y); }
    static auto nextafter(float x, float y) { return o_nextafterf(x, y); }
};
template <>
struct Ora<double> {
    static auto fmod(double x, double y) { return o_fmod(x, y); }
    static auto remainder(double x, double y) { return o_remainder(x, y); }
    static auto copysign(double x, double y) { return o_copysign(x, y); }
    static auto fmin(double x, double y) { return o_fmin(x, y); }
    static auto fmax(double x, double y) { return o_fmax(x, y); }
    static auto fdim(double x, double y) { return o_fdim(x, y); }
    static auto nextafter(double x, double y) { return o_nextafter(x, y); }
};

template <typename T>
auto fin(T x) -> bool
{
    return !nan_b(x) && !inf_b(x);
}

template <typename T>
auto snan_b(T x) -> bool
{
    using U = typename BitsOf<T>::type;
    return nan_b(x) && ((bits(x) >> (BitsOf<T>::mant - 1)) & static_cast<U>(1)) == 0;
}

// fmax / fmin: zeros of opposite sign -> either zero is accepted.  Signalling NaN arguments are not cases: C (Annex F)
// does not define them, and glibc >= 2.25 returns NaN for fmax(1, sNaN) although it returns 1 for fmax(1, qNaN).
template <typename T>
auto cmp_minmax(T x, T y, T e, T r, Out* o) -> int
{
    if (snan_b(x) || snan_b(y)) { return 0; }
    if (zero_b(x) && zero_b(y) && sign_b(x) != sign_b(y) && zero_b(e) && zero_b(r)) { return 1; }
    return cmpf<T>(e, r, o);
}

#define C16_BIN(name, E, R)                                                                                             \
    template <typename T>                                                                                               \
    auto b_##name(T x, T y, Out* o) -> int                                                                              \
    {                                                                                                                   \
        return cmpf<T>(E, R, o);                                                                                        \
    }
C16_BIN(fmod, etl::fmod(x, y), Ora<T>::fmod(x, y))
C16_BIN(remainder, etl::remainder(x, y), Ora<T>::remainder(x, y))
C16_BIN(copysign, etl::copysign(x, y), Ora<T>::copysign(x, y))
C16_BIN(fdim, etl::fdim(x, y), Ora<T>::fdim(x, y))
C16_BIN(nextafter, etl::nextafter(x, y), Ora<T>::nextafter(x, y))
template <typename T>
auto b_fmin(T x, T y, Out* o) -> int
{
    return cmp_minmax<T>(x, y, etl::fmin(x, y), Ora<T>::fmin(x, y), o);
}
template <typename T>
auto b_fmax(T x, T y, Out* o) -> int
{
    return cmp_minmax<T>(x, y, etl::fmax(x, y), Ora<T>::fmax(x, y), o);
}
auto b_fmodf(float x, float y, Out* o) -> int { return cmpf<float>(etl::fmodf(x, y), o_fmodf(x, y), o); }
auto b_remainderf(float x, float y, Out* o) -> int { return cmpf<float>(etl::remainderf(x, y), o_remainderf(x, y), o); }
auto b_copysignf(float x, float y, Out* o) -> int { return cmpf<float>(etl::copysignf(x, y), o_copysignf(x, y), o); }
auto b_fdimf(float x, float y, Out* o) -> int { return cmpf<float>(etl::fdimf(x, y), o_fdimf(x, y), o); }
auto b_nextafterf(float x, float y, Out* o) -> int { return cmpf<float>(etl::nextafterf(x, y), o_nextafterf(x, y), o); }
auto b_fminf(float x, float y, Out* o) -> int { return cmp_minmax<float>(x, y, etl::fminf(x, y), o_fminf(x, y), o); }
auto b_fmaxf(float x, float y, Out* o) -> int { return cmp_minmax<float>(x, y, etl::fmaxf(x, y), o_fmaxf(x, y), o); }

// ------------------------------------------------------------------ known-finding classes (used only when the tag is passed with --exclude)
// gcem::fmod = x - trunc(x/y)*y: the quotient is rounded (and cast to long long, undefined above 2^63), trunc() returns
// quotients below epsilon unchanged, y = +-inf gives NaN and the sign of x = -0 is lost.  What is left of fmod when this
// tag is active are the NaN / invalid cases, x = +0 and 1 > |x/y| >= epsilon.
template <typename T>
auto cls_fmod_gcem(T x, T y) -> bool
{
    if (nan_b(x) || nan_b(y) || inf_b(x) || zero_b(y)) { return false; }
    if (inf_b(y)) { return true; }
    if (zero_b(x)) { return sign_b(x); }
    return !(mag(x) < mag(y) && static_cast<long double>(mag(x)) / static_cast<long double>(mag(y)) >= static_cast<long double>(std::numeric_limits<T>::epsilon()) * 2);
}
// remainder forwards to gcem::fmod: everything fmod gets wrong plus every |x| > |y|/2
template <typename T>
auto cls_remainder_is_fmod(T x, T y) -> bool
{
    if (cls_fmod_gcem(x, y)) { return true; }
    if (nan_b(x) || nan_b(y) || inf_b(x) || zero_b(y) || inf_b(y)) { return false; }
    return static_cast<long double>(mag(x)) * 2.0L >= static_cast<long double>(mag(y));
}
// nextafter compares the raw bit patterns as unsigned integers
template <typename T>
auto cls_nextafter_sign(T x, T y) -> bool
{
    if (nan_b(x) || nan_b(y)) { return true; }
    if (zero_b(x)) { return bits(x) != bits(y); }
    return !sign_b(x) && sign_b(y);
}
// gcem::max / gcem::min return the second argument when it is a NaN
template <typename T>
auto cls_minmax_nan(T x, T y) -> bool
{
    return nan_b(y) && !nan_b(x);
}
// fdim = fmax(x - y, 0) returns 0 for NaN arguments
template <typename T>
auto cls_fdim_nan(T x, T y) -> bool
{
    return nan_b(x) || nan_b(y);
}

template <typename T>
struct Entry {
    char const* name;
    int (*check)(T, T, Out*);
    char const* tag{nullptr};
    bool (*cls)(T, T){nullptr};
    bool act{false};
};

template <typename T>
auto table() -> std::vector<Entry<T>>&
{
    static std::vector<Entry<T>> t = [] {
        std::vector<Entry<T>> v{
            {"fmod", b_fmod<T>, "C16.fmod.gcem", cls_fmod_gcem<T>},
            {"remainder", b_remainder<T>, "C16.remainder.is_fmod", cls_remainder_is_fmod<T>},
            {"copysign", b_copysign<T>},
            {"fmin", b_fmin<T>, "C16.fminmax.nan", cls_minmax_nan<T>},
            {"fmax", b_fmax<T>, "C16.fminmax.nan", cls_minmax_nan<T>},
            {"fdim", b_fdim<T>, "C16.fdim.nan", cls_fdim_nan<T>},
            {"nextafter", b_nextafter<T>, "C16.nextafter.sign", cls_nextafter_sign<T>},
        };
        if constexpr (sizeof(T) == 4) {
            v.push_back({"fmodf", b_fmodf, "C16.fmod.gcem", cls_fmod_gcem<float>});
            v.push_back({"remainderf", b_remainderf, "C16.remainder.is_fmod", cls_remainder_is_fmod<float>});
            v.push_back({"copysignf", b_copysignf});
            v.push_back({"fminf", b_fminf, "C16.fminmax.nan", cls_minmax_nan<float>});
            v.push_back({"fmaxf", b_fmaxf, "C16.fminmax.nan", cls_minmax_nan<float>});
            v.push_back({"fdimf", b_fdimf, "C16.fdim.nan", cls_fdim_nan<float>});
            v.push_back({"nextafterf", b_nextafterf, "C16.nextafter.sign", cls_nextafter_sign<float>});
        }
        for (auto& e : v) { e.act = e.tag != nullptr && vf::ctx().excluded(e.tag); }
        return v;
    }();
    return t;
}

template <typename T>
auto detail_of(char const* fn, T x, T y, Out const& o) -> std::string
{
    return std::string(fn) + "(" + show_arg(x) + ", " + show_arg(y) + "): etl " + o.etl + ", libm " + o.ref;
}

// run every function on one pair
template <typename T>
void run_pair(T x, T y)
{
    for (auto& e : table<T>()) {
        Case k{e.name, BitsOf<T>::name, 2, bits(x), bits(y), 0};
        vf::Flight<Case> fl(e.name, k);
        if (e.act && e.cls(x, y)) {
            vf::excluded_known(e.tag);
            continue;
        }
        int const r = e.check(x, y, nullptr);
        if (r == 2) {
            Out o;
            e.check(x, y, &o);
            vf::mismatch(e.name, k, detail_of(e.name, x, y, o));
        }
    }
}

// evaluation counters are flushed in bulk (one map lookup per function and batch, not per call)
template <typename T>
void flush_evals(std::uint64_t pairs)
{
    for (auto& e : table<T>()) { vf::eval(e.name, pairs); }
}

// ------------------------------------------------------------------ boundary values
template <typename T>
auto boundary() -> std::vector<T>
{
    using U         = typename BitsOf<T>::type;
    using L         = std::numeric_limits<T>;
    constexpr int m = BitsOf<T>::mant;
    std::vector<U> b;
    auto pm = [&](U p) { // the pattern, its neighbours, both signs
        for (int d = -1; d <= 1; ++d) {
            U const q = static_cast<U>(p + static_cast<U>(d));
            b.push_back(q);
            b.push_back(q ^ (static_cast<U>(1) << (sizeof(T) * 8 - 1)));
        }
    };
    b.push_back(0);
    b.push_back(static_cast<U>(1) << (sizeof(T) * 8 - 1));
    for (U k = 1; k <= 4; ++k) { pm(k); }
    pm(bits(L::min()));
    pm(bits(L::max()));
    pm(bits(L::infinity())); // max, inf, first signalling NaN pattern
    b.push_back(bits(L::quiet_NaN()));
    b.push_back(bits(L::quiet_NaN()) | (static_cast<U>(1) << (sizeof(T) * 8 - 1)));
    b.push_back(bits(L::infinity()) | (static_cast<U>(1) << (m - 2))); // a signalling NaN with a payload
    b.push_back(~static_cast<U>(0));                                   // all ones
    int const emin = L::min_exponent - 1, emax = L::max_exponent - 1;
    for (int e : {emin, emin + 1, -100, -50, -m - 1, -m, -10, -2, -1, 0, 1, 2, 3, 10, m - 1, m, m + 1, m + 2, 31, 32, 62, 63, 64, 100, emax - 1, emax}) {
        pm(bits(static_cast<T>(::ldexp(1.0, e))));
    }
    for (int i = 1; i < 24; ++i) { // powers of two spread over the whole exponent range, and 1.5 * 2^e
        int const e = emin + (emax - emin) * i / 24;
        pm(bits(static_cast<T>(::ldexp(1.0, e))));
        b.push_back(bits(static_cast<T>(::ldexp(1.5, e))));
        b.push_back(bits(static_cast<T>(::ldexp(-1.5, e))));
    }
    for (int n = 1; n <= 12; ++n) {
        b.push_back(bits(static_cast<T>(n)));
        b.push_back(bits(static_cast<T>(-n)));
        b.push_back(bits(static_cast<T>(n) + T(0.5)));
        b.push_back(bits(-(static_cast<T>(n) + T(0.5))));
        b.push_back(bits(static_cast<T>(n) + T(0.25)));
        b.push_back(bits(-(static_cast<T>(n) - T(0.25))));
    }
    for (double v : {0.1, 1.0 / 3.0, 3.141592653589793, 2.718281828459045, 1e10, 1e-10, 0.75, 123456.789, 1e30, 1e-30, 6.02e23, 255.5, 65535.5, 16777215.0}) {
        b.push_back(bits(static_cast<T>(v)));
        b.push_back(bits(static_cast<T>(-v)));
    }
    std::sort(b.begin(), b.end());
    b.erase(std::unique(b.begin(), b.end()), b.end());
    std::vector<T> out;
    for (U p : b) { out.push_back(from_bits<T>(p)); }
    return out;
}

template <typename T>
auto pair_nt(T x, T y) -> bool
{
    if (is_nt(x) || is_nt(y) || sign_b(x) != sign_b(y)) { return true; }
    long double const q = static_cast<long double>(x) / static_cast<long double>(y);
    return q >= 0x1p24L || q <= -0x1p24L || q * 2 == ::floorl(q * 2); // huge quotient or exact (half-)integer quotient
}

template <typename T>
void grid(vf::Ctx& c)
{
    auto const b = boundary<T>();
    std::uint64_t pairs = 0, nt = 0;
    for (std::size_t i = 0; i < b.size(); ++i) {
        if (!c.mine(i)) { continue; }
        for (std::size_t j = 0; j < b.size(); ++j) {
            run_pair<T>(b[i], b[j]);
            ++pairs;
            nt += pair_nt(b[i], b[j]);
        }
    }
    flush_evals<T>(pairs);
    vf::nontrivial_count(nt * table<T>().size());
    vf::count((std::string(BitsOf<T>::name) + ".grid.boundary_values").c_str(), c.shard == 0 ? b.size() : 0);
    vf::count((std::string(BitsOf<T>::name) + ".grid.pairs").c_str(), pairs);
}

// ------------------------------------------------------------------ random pairs
template <typename T>
void randoms(vf::Ctx& c)
{
    using U         = typename BitsOf<T>::type;
    constexpr int m = BitsOf<T>::mant;
    constexpr int w = sizeof(T) * 8;
    auto const b    = boundary<T>();
    vf::Rng rng(c.seed ^ (sizeof(T) == 4 ? 0xF32ULL : 0xF64ULL));
    std::uint64_t const total = c.thorough() ? 10000000ULL : 1000000ULL;
    std::uint64_t const n     = total / static_cast<unsigned>(c.nshards) + 1;
    std::unordered_set<std::uint64_t> seen;
    std::uint64_t nt = 0, shape_n[6] = {0, 0, 0, 0, 0, 0};
    (void)shape_n;
    std::uint64_t c_tieq = 0, c_hugeq = 0, c_oppsign = 0, c_special = 0, c_smallq = 0;
    auto rbits = [&]() -> U { return static_cast<U>(rng.next() >> (64 - w)); };
    auto finite_rand = [&]() -> T {
        U p = rbits();
        while (!fin(from_bits<T>(p))) { p = rbits(); }
        return from_bits<T>(p);
    };
    for (std::uint64_t i = 0; i < n; ++i) {
        T x{}, y{};
        int const shape = static_cast<int>(i % 6);
        switch (shape) {
        case 0: // uniform bit patterns
            x = from_bits<T>(rbits());
            y = from_bits<T>(rbits());
            break;
        case 1: { // nearly equal magnitudes: same exponent or one apart, random mantissas and signs
            U const e  = static_cast<U>(rng.below((sizeof(T) == 4 ? 254 : 2046))) + 1;
            U const e2 = static_cast<U>(e - rng.below(3));
            x          = from_bits<T>((rbits() & (static_cast<U>(1) << (w - 1))) | (e << m) | (rbits() & ((static_cast<U>(1) << m) - 1)));
            y          = from_bits<T>((rbits() & (static_cast<U>(1) << (w - 1))) | ((e2 == 0 ? 1 : e2) << m) | (rbits() & ((static_cast<U>(1) << m) - 1)));
            break;
        }
        case 2: { // x = y * k/2 exactly (y has few significant bits): integer and half-way quotients
            int const yb = 1 + static_cast<int>(rng.below(sizeof(T) == 4 ? 15U : 34U));
            T const ym   = static_cast<T>(1 + (rng.next() >> (64 - yb)));
            int const ye = static_cast<int>(rng.range(-60, 60));
            y            = static_cast<T>(::ldexp(static_cast<double>(ym), ye));
            auto const k = static_cast<T>(1 + rng.below(sizeof(T) == 4 ? 255 : 100000));
            x            = y * k / 2; // exact: at most 15+8 resp. 34+17 significant bits
            if (rng.below(4) == 0) { x = from_bits<T>(static_cast<U>(bits(x) + 1 - 2 * rng.below(2))); }
            if (rng.below(2) != 0) { x = -x; }
            if (rng.below(2) != 0) { y = -y; }
            break;
        }
        case 3: { // huge quotient: |x| >> |y|
            x = finite_rand();
            y = finite_rand();
            if (mag(x) < mag(y)) { std::swap(x, y); }
            break;
        }
        case 4: // boundary value (every second time a zero, an infinity or a NaN) x random, either order
            x = b[rng.below(b.size())];
            if ((i / 6) % 2 == 0) {
                T const sp[] = {T(0), -T(0), std::numeric_limits<T>::infinity(), -std::numeric_limits<T>::infinity(), std::numeric_limits<T>::quiet_NaN(), std::numeric_limits<T>::denorm_min(), -std::numeric_limits<T>::denorm_min()};
                x            = sp[rng.below(7)];
            }
            y = from_bits<T>(rbits());
            if (rng.below(2) != 0) { std::swap(x, y); }
            break;
        default: { // neighbours: y a few ulps from x, possibly across zero
            U const p = rng.below(3) == 0 ? static_cast<U>(rng.below(8)) | (rbits() & (static_cast<U>(1) << (w - 1))) : rbits();
            x         = from_bits<T>(p);
            auto d    = static_cast<long>(rng.range(-3, 3));
            y         = from_bits<T>(static_cast<U>(p + static_cast<U>(d)));
            if (rng.below(4) == 0) { y = -y; }
            if (rng.below(8) == 0) { y = from_bits<T>(static_cast<U>(rng.below(8)) | (rbits() & (static_cast<U>(1) << (w - 1)))); }
            break;
        }
        }
        run_pair<T>(x, y);
        ++shape_n[shape];
        bool const t = pair_nt(x, y);
        if (t && (i & 0x3FFF) == 0x155) {
            vf::sample("fmod", [&] { return std::string("fmod/remainder/copysign/fmin/fmax/fdim/nextafter ") + BitsOf<T>::name + " " + show_arg(x) + " " + show_arg(y); });
        }
        if (t && seen.insert(vf::mix(vf::mix(0x16ULL, bits(x)), bits(y))).second) { ++nt; }
        if (fin(x) && fin(y) && !zero_b(y)) {
            long double const q = ::fabsl(static_cast<long double>(x) / static_cast<long double>(y));
            c_tieq += (q * 2 == ::floorl(q * 2) && q >= 0.5L && q < 0x1p24L);
            c_hugeq += q >= 0x1p24L;
            c_smallq += q >= 1 && q < 4;
        } else {
            ++c_special;
        }
        c_oppsign += sign_b(x) != sign_b(y);
    }
    flush_evals<T>(n);
    vf::nontrivial_count(nt * table<T>().size());
    std::string const p = BitsOf<T>::name;
    auto lab = [&](char const* nm, std::uint64_t h) {
        auto& cl = vf::stats().classes[p + ".random." + nm];
        cl.first += h;
        cl.second += n;
    };
    lab("exact integer or half-way quotient", c_tieq);
    lab("quotient >= 2^24", c_hugeq);
    lab("quotient in [1,4)", c_smallq);
    lab("opposite signs", c_oppsign);
    lab("inf / NaN argument or zero divisor", c_special);
}


// ------------------------------------------------------------------ mixed-argument calls: (float, int) (int, float) (double, int) (int, double)
// etl declares only the (T, T) forms, so a mixed call resolves to one of them through the implicit conversions; the result
// must be what glibc returns for the converted arguments IN THE TYPE ETL RETURNS (float for (float, int): etl does not
// promote to double as std:: does - an API difference that is not part of the value property and is not asserted here).
// The leg exists so that an added or specialised mixed overload cannot hide behind the (T, T) sweeps.
template <typename T>
auto cmp_plain(T /*x*/, T /*y*/, T e, T r, Out* o) -> int
{
    return cmpf<T>(e, r, o);
}
#define C16_MIXFN(name, CMP)                                                                                            \
    auto mix_##name(int form, u64 xb, int n, Out* o) -> int                                                             \
    {                                                                                                                   \
        switch (form) {                                                                                                 \
        case 0: {                                                                                                       \
            float const x = u2f(static_cast<u32>(xb));                                                                  \
            auto const e  = etl::name(x, n);                                                                            \
            static_assert(std::is_same_v<decltype(e), float const>);                                                    \
            return CMP<float>(x, static_cast<float>(n), e, Ora<float>::name(x, static_cast<float>(n)), o);             \
        }                                                                                                               \
        case 1: {                                                                                                       \
            float const x = u2f(static_cast<u32>(xb));                                                                  \
            auto const e  = etl::name(n, x);                                                                            \
            static_assert(std::is_same_v<decltype(e), float const>);                                                    \
            return CMP<float>(static_cast<float>(n), x, e, Ora<float>::name(static_cast<float>(n), x), o);             \
        }                                                                                                               \
        case 2: {                                                                                                       \
            double const x = u2d(xb);                                                                                   \
            auto const e   = etl::name(x, n);                                                                           \
            static_assert(std::is_same_v<decltype(e), double const>);                                                   \
            return CMP<double>(x, static_cast<double>(n), e, Ora<double>::name(x, static_cast<double>(n)), o);         \
        }                                                                                                               \
        default: {                                                                                                      \
            double const x = u2d(xb);                                                                                   \
            auto const e   = etl::name(n, x);                                                                           \
            static_assert(std::is_same_v<decltype(e), double const>);                                                   \
            return CMP<double>(static_cast<double>(n), x, e, Ora<double>::name(static_cast<double>(n), x), o);         \
        }                                                                                                               \
        }                                                                                                               \
    }
C16_MIXFN(fmod, cmp_plain)
C16_MIXFN(remainder, cmp_plain)
C16_MIXFN(copysign, cmp_plain)
C16_MIXFN(fdim, cmp_plain)
C16_MIXFN(nextafter, cmp_plain)
C16_MIXFN(fmin, cmp_minmax)
C16_MIXFN(fmax, cmp_minmax)
struct MixEntry {
    char const* name; // reported as "mix.<name>"
    char const* casename;
    int (*run)(int, u64, int, Out*);
};
MixEntry const k_mix[] = {{"fmod", "mix.fmod", mix_fmod}, {"remainder", "mix.remainder", mix_remainder}, {"copysign", "mix.copysign", mix_copysign}, {"fdim", "mix.fdim", mix_fdim},
    {"nextafter", "mix.nextafter", mix_nextafter}, {"fmin", "mix.fmin", mix_fmin}, {"fmax", "mix.fmax", mix_fmax}};
char const* const k_forms[] = {"f32,int", "int,f32", "f64,int", "int,f64"};

auto mix_case(MixEntry const& m, int form, u64 xb, int n, bool run_mode) -> std::string
{
    Case k{m.casename, k_forms[form], 2, xb, static_cast<u64>(static_cast<std::uint32_t>(n)), 0};
    vf::Flight<Case> fl(m.name, k);
    Out o;
    int const r = m.run(form, xb, n, &o);
    std::string d;
    if (r == 2) {
        std::string const xs = form < 2 ? show_arg(u2f(static_cast<u32>(xb))) : show_arg(u2d(xb));
        d = std::string(m.name) + "(" + ((form & 1) == 0 ? xs + ", int " + std::to_string(n) : "int " + std::to_string(n) + ", " + xs) + "): etl " + o.etl + ", libm on the converted arguments " + o.ref;
    }
    if (run_mode) {
        if (r != 0) { vf::eval(m.name); }
        if (r == 2) { vf::mismatch(m.name, k, d); }
    }
    return d;
}

void mixed(vf::Ctx& c)
{
    int const ns[] = {0, 1, -1, 2, -2, 3, -3, 7, -7, 10, 100, -1000, 16777217, -16777217, 2147483647, -2147483647 - 1};
    auto const bf = boundary<float>();
    auto const bd = boundary<double>();
    std::uint64_t idx = 0, cases = 0;
    for (auto const& m : k_mix) {
        for (int form = 0; form < 4; ++form) {
            std::size_t const nb = form < 2 ? bf.size() : bd.size();
            for (std::size_t i = 0; i < nb; i += 3) {
                if (!c.mine(idx++)) { continue; }
                u64 const xb = form < 2 ? static_cast<u64>(bits(bf[i])) : bits(bd[i]);
                for (int n : ns) {
                    mix_case(m, form, xb, n, true);
                    ++cases;
                }
            }
        }
    }
    vf::nontrivial_count(cases);
    vf::count("mixed-argument calls (T,int)/(int,T)", cases);
}

auto replay_one(Parsed const& p, auto tag) -> std::string
{
    using T = decltype(tag);
    for (auto& e : table<T>()) {
        if (p.fn == e.name) {
            T const x = from_bits<T>(p.a);
            T const y = from_bits<T>(p.b);
            Case k{e.name, BitsOf<T>::name, 2, p.a, p.b, 0};
            vf::Flight<Case> fl(e.name, k);
            Out o;
            int const r = e.check(x, y, &o);
            return r == 2 ? detail_of(e.name, x, y, o) : std::string();
        }
    }
    return "replay: unknown function " + p.fn;
}

} // namespace

void vf_run(vf::Ctx& c)
{
    grid<float>(c);
    grid<double>(c);
    randoms<float>(c);
    randoms<double>(c);
    mixed(c);
    vf::sample("remainder", [] { return std::string("remainder f32 0x40200000 0x3f800000  (= remainder(2.5f, 1.0f), a half-way quotient; every listed function is called on every pair)"); });
}

std::string vf_replay(std::string const& /*sub*/, std::string const& cs)
{
    auto const p = parse_case(cs);
    if (p.fn.rfind("mix.", 0) == 0) {
        for (auto const& m : k_mix) {
            if (p.fn == m.casename) {
                for (int form = 0; form < 4; ++form) {
                    if (p.ty == k_forms[form]) { return mix_case(m, form, p.a, static_cast<int>(static_cast<std::uint32_t>(p.b)), false); }
                }
            }
        }
        return "replay: unknown mixed case " + cs;
    }
    if (p.ty == "f32") { return replay_one(p, float{}); }
    if (p.ty == "f64") { return replay_one(p, double{}); }
    return "replay: unknown type " + p.ty;
}
