// C04 — searches, compare overloads, starts_with/ends_with/contains, relational operators (included by props/C04_strings.cpp).
// Search positions take every value (std defines all of them): 0, 1, size-1, size, size+1, npos, random.
// compare() positions are <= size (std throws beyond).  Only the SIGN of a comparison is compared.
// Not part of the check: rfind(p,pos,n) — declared, but does not compile on this tree (strings::rfind has no such overload).
#pragma once

namespace c04 {

template <typename Char, std::size_t N, typename Tr>
auto Run<Char, N, Tr>::do_query(std::uint32_t code) -> void
{
    E const& cx     = *x;
    M const& m      = *mx;
    auto const size = m.size();
    auto pos        = qpos(op.a, size);
    nt_edge |= (pos >= size);

    auto report = [&](char const* what, std::size_t got, std::size_t exp, std::string const& ndl, std::size_t p, std::size_t n) {
        nt_hit |= (exp != knpos);
        if (got == exp || tolerated(what)) { return; }
        std::string d = std::string(what) + ": haystack " + show(m) + " needle " + ndl;
        if (p != knpos - 1) { d += " pos " + num(p); }
        if (n != knpos - 1) { d += " n " + num(n); }
        fail(d + ": expected " + num(exp) + " got " + num(got));
    };
    constexpr std::size_t none = knpos - 1; // "argument not passed" marker for report()

    auto as_E = [&](M s) {
        if (s.size() > N) { s.resize(N); }
        return s;
    };

    switch (code) {
    // ------------------------------------------------------------------ find / rfind
    case FIND_STR: {
        auto nd = as_E(needle(op.b));
        E t(nd.data(), nd.size());
        report("find(str,pos)", cx.find(t, pos), m.find(nd, pos), show(nd), pos, none);
        break;
    }
    case FIND_PTR_N: {
        auto nd = needle(op.b);
        auto b  = pbuf(nd);
        report("find(p,pos,n)", cx.find(b.get(), pos, b.n), m.find(nd.data(), pos, nd.size()), show(nd), pos, b.n);
        break;
    }
    case FIND_CSTR: {
        auto nd = no_nul(needle(op.b));
        auto b  = cbuf(nd);
        report("find(cstr,pos)", cx.find(b.get(), pos), m.find(nd.c_str(), pos), show(nd), pos, none);
        break;
    }
    case FIND_CH: report("find(ch,pos)", cx.find(ch, pos), m.find(ch, pos), show_ch(ch), pos, none); break;
    case RFIND_STR: {
        auto nd = as_E(needle(op.b));
        E t(nd.data(), nd.size());
        report("rfind(str,pos)", cx.rfind(t, pos), m.rfind(nd, pos), show(nd), pos, none);
        break;
    }
    case RFIND_CSTR: {
        auto nd = no_nul(needle(op.b));
        auto b  = cbuf(nd);
        report("rfind(cstr,pos)", cx.rfind(b.get(), pos), m.rfind(nd.c_str(), pos), show(nd), pos, none);
        break;
    }
    case RFIND_CH: report("rfind(ch,pos)", cx.rfind(ch, pos), m.rfind(ch, pos), show_ch(ch), pos, none); break;

    // ------------------------------------------------------------------ find_first_of / find_first_not_of
    case FFO_STR:
    case FFNO_STR:
    case FLO_STR:
    case FLNO_STR: {
        auto nd = as_E(needle(op.b));
        E t(nd.data(), nd.size());
        if (code == FFO_STR) { report("find_first_of(str,pos)", cx.find_first_of(t, pos), m.find_first_of(nd, pos), show(nd), pos, none); }
        if (code == FFNO_STR) { report("find_first_not_of(str,pos)", cx.find_first_not_of(t, pos), m.find_first_not_of(nd, pos), show(nd), pos, none); }
        if (code == FLO_STR) { report("find_last_of(str,pos)", cx.find_last_of(t, pos), m.find_last_of(nd, pos), show(nd), pos, none); }
        if (code == FLNO_STR) { report("find_last_not_of(str,pos)", cx.find_last_not_of(t, pos), m.find_last_not_of(nd, pos), show(nd), pos, none); }
        break;
    }
    case FFO_PTR_N:
    case FFNO_PTR_N:
    case FLO_PTR_N:
    case FLNO_PTR_N: {
        auto nd = needle(op.b);
        auto b  = pbuf(nd);
        if (code == FFO_PTR_N) { report("find_first_of(p,pos,n)", cx.find_first_of(b.get(), pos, b.n), m.find_first_of(nd.data(), pos, nd.size()), show(nd), pos, b.n); }
        if (code == FFNO_PTR_N) { report("find_first_not_of(p,pos,n)", cx.find_first_not_of(b.get(), pos, b.n), m.find_first_not_of(nd.data(), pos, nd.size()), show(nd), pos, b.n); }
        if (code == FLO_PTR_N) { report("find_last_of(p,pos,n)", cx.find_last_of(b.get(), pos, b.n), m.find_last_of(nd.data(), pos, nd.size()), show(nd), pos, b.n); }
        if (code == FLNO_PTR_N) { report("find_last_not_of(p,pos,n)", cx.find_last_not_of(b.get(), pos, b.n), m.find_last_not_of(nd.data(), pos, nd.size()), show(nd), pos, b.n); }
        break;
    }
    case FFO_CSTR:
    case FFNO_CSTR:
    case FLO_CSTR:
    case FLNO_CSTR: {
        auto nd = no_nul(needle(op.b));
        auto b  = cbuf(nd);
        if (code == FFO_CSTR) { report("find_first_of(cstr,pos)", cx.find_first_of(b.get(), pos), m.find_first_of(nd.c_str(), pos), show(nd), pos, none); }
        if (code == FFNO_CSTR) { report("find_first_not_of(cstr,pos)", cx.find_first_not_of(b.get(), pos), m.find_first_not_of(nd.c_str(), pos), show(nd), pos, none); }
        if (code == FLO_CSTR) { report("find_last_of(cstr,pos)", cx.find_last_of(b.get(), pos), m.find_last_of(nd.c_str(), pos), show(nd), pos, none); }
        if (code == FLNO_CSTR) { report("find_last_not_of(cstr,pos)", cx.find_last_not_of(b.get(), pos), m.find_last_not_of(nd.c_str(), pos), show(nd), pos, none); }
        break;
    }
    case FFO_CH: report("find_first_of(ch,pos)", cx.find_first_of(ch, pos), m.find_first_of(ch, pos), show_ch(ch), pos, none); break;
    case FFNO_CH: report("find_first_not_of(ch,pos)", cx.find_first_not_of(ch, pos), m.find_first_not_of(ch, pos), show_ch(ch), pos, none); break;
    case FLO_CH: report("find_last_of(ch,pos)", cx.find_last_of(ch, pos), m.find_last_of(ch, pos), show_ch(ch), pos, none); break;
    case FLNO_CH: report("find_last_not_of(ch,pos)", cx.find_last_not_of(ch, pos), m.find_last_not_of(ch, pos), show_ch(ch), pos, none); break;
    case FFO_VIEW: {
        auto nd = needle(op.b);
        auto b  = pbuf(nd);
        report("find_first_of(view,pos)", cx.find_first_of(SV(b.get(), b.n), pos), m.find_first_of(SSV(nd), pos), show(nd), pos, none);
        break;
    }

    // ------------------------------------------------------------------ searches called without a position
    case DEFAULT_POS_FWD: {
        auto nd  = as_E(needle(op.b));
        auto cnd = no_nul(nd);
        E t(nd.data(), nd.size());
        auto b  = cbuf(cnd);
        auto pb = pbuf(nd);
        switch (op.a % 9) {
        case 0: report("find(str)", cx.find(t), m.find(nd), show(nd), none, none); break;
        case 1: report("find(cstr)", cx.find(b.get()), m.find(cnd.c_str()), show(cnd), none, none); break;
        case 2: report("find(ch)", cx.find(ch), m.find(ch), show_ch(ch), none, none); break;
        case 3: report("find_first_of(str)", cx.find_first_of(t), m.find_first_of(nd), show(nd), none, none); break;
        case 4: report("find_first_of(cstr)", cx.find_first_of(b.get()), m.find_first_of(cnd.c_str()), show(cnd), none, none); break;
        case 5: report("find_first_of(ch)", cx.find_first_of(ch), m.find_first_of(ch), show_ch(ch), none, none); break;
        case 6: report("find_first_of(view)", cx.find_first_of(SV(pb.get(), pb.n)), m.find_first_of(SSV(nd)), show(nd), none, none); break;
        case 7: report("find_first_not_of(str)", cx.find_first_not_of(t), m.find_first_not_of(nd), show(nd), none, none); break;
        default: report("find_first_not_of(ch)", cx.find_first_not_of(ch), m.find_first_not_of(ch), show_ch(ch), none, none); break;
        }
        break;
    }
    case DEFAULT_POS_REV: {
        auto nd  = as_E(needle(op.b));
        auto cnd = no_nul(nd);
        E t(nd.data(), nd.size());
        auto b = cbuf(cnd);
        if (ex_rfind && op.a % 9 <= 2) {
            // known finding string.rfind.default_pos: rfind's default position is 0 instead of npos (pinned by the unit
            // tests) -> the three rfind overloads are always called with an explicit position
            vf::excluded_known(tag_rfind);
            switch (op.a % 9) {
            case 0: report("rfind(str,npos)", cx.rfind(t, knpos), m.rfind(nd), show(nd), knpos, none); break;
            case 1: report("rfind(cstr,npos)", cx.rfind(b.get(), knpos), m.rfind(cnd.c_str()), show(cnd), knpos, none); break;
            default: report("rfind(ch,npos)", cx.rfind(ch, knpos), m.rfind(ch), show_ch(ch), knpos, none); break;
            }
            break;
        }
        switch (op.a % 9) {
        case 0: report("rfind(str)", cx.rfind(t), m.rfind(nd), show(nd), none, none); break;
        case 1: report("rfind(cstr)", cx.rfind(b.get()), m.rfind(cnd.c_str()), show(cnd), none, none); break;
        case 2: report("rfind(ch)", cx.rfind(ch), m.rfind(ch), show_ch(ch), none, none); break;
        case 3: report("find_last_of(str)", cx.find_last_of(t), m.find_last_of(nd), show(nd), none, none); break;
        case 4: report("find_last_of(ch)", cx.find_last_of(ch), m.find_last_of(ch), show_ch(ch), none, none); break;
        case 5: report("find_last_of(cstr)", cx.find_last_of(b.get()), m.find_last_of(cnd.c_str()), show(cnd), none, none); break;
        case 6: report("find_last_not_of(str)", cx.find_last_not_of(t), m.find_last_not_of(nd), show(nd), none, none); break;
        case 7: report("find_last_not_of(ch)", cx.find_last_not_of(ch), m.find_last_not_of(ch), show_ch(ch), none, none); break;
        default: report("find_last_not_of(cstr)", cx.find_last_not_of(b.get()), m.find_last_not_of(cnd.c_str()), show(cnd), none, none); break;
        }
        break;
    }

    // ------------------------------------------------------------------ compare
    case COMPARE_STR:
    case COMPARE_OTHERCAP:
    case COMPARE_POS_N_STR:
    case COMPARE_POS_N_STR_POS_N:
    case COMPARE_POS_N_STR_POS:
    case COMPARE_CSTR:
    case COMPARE_POS_N_CSTR:
    case COMPARE_POS_N_PTR_N:
    case COMPARE_VIEW:
    case COMPARE_POS_N_VIEW:
    case COMPARE_POS_N_VIEW_POS_N:
    case COMPARE_POS_N_VIEW_POS: {
        auto o   = cmp_other(op.b); // size <= N
        auto p1  = vpos(op.a, size);
        auto n1  = qc(op.a / 8, size - p1, p1);
        auto p2  = vpos(op.c >> 4, o.size());
        auto n2  = qc(op.c >> 7, o.size() - p2, p2);
        // aligned mode (a quarter of the cases): the other string embeds the selected part of this string behind a
        // short prefix and in front of a short suffix, and (pos2, count2) select exactly that part (or one more / one
        // less): independent random operands almost never compare equal, and only (near-)equal selections tell a
        // wrong clamp of count2 from a right one
        if (spread(op.b ^ 0x5bd1e995U) % 4 == 0) {
            M part            = m.substr(p1, std::min<std::size_t>(n1, size - p1));
            std::size_t pre   = spread(op.c ^ 0x27d4eb2fU) % 3;
            std::size_t post  = spread(op.c ^ 0x165667b1U) % 3;
            Char const ch2    = ch == std::numeric_limits<Char>::max() ? static_cast<Char>(ch - 1) : static_cast<Char>(ch + 1); // wchar_t is a signed int here
            M cand            = M(pre, ch) + part + M(post, ch2);
            if (cand.size() <= N) {
                o  = cand;
                p2 = pre;
                switch (spread(op.a ^ 0x85ebca6bU) % 4) {
                case 0: n2 = part.size() + 1; break;
                case 1: n2 = part.empty() ? 0 : part.size() - 1; break;
                default: n2 = part.size(); break;
                }
            }
        }
        auto co  = no_nul(o);
        nt_edge |= (p1 == size);
        int got = 0, exp = 0;
        std::string what;
        E t(o.data(), o.size());
        auto pb = pbuf(o);
        auto cb = cbuf(co);
        SV v(pb.get(), pb.n);
        switch (code) {
        case COMPARE_STR: got = cx.compare(t), exp = m.compare(o), what = "compare(" + show(o) + ")"; break;
        case COMPARE_OTHERCAP: {
            EO to(o.data(), o.size());
            got = cx.compare(to), exp = m.compare(o), what = "compare(other capacity " + show(o) + ")";
            break;
        }
        case COMPARE_POS_N_STR: got = cx.compare(p1, n1, t), exp = m.compare(p1, n1, o), what = "compare(" + num(p1) + "," + num(n1) + "," + show(o) + ")"; break;
        case COMPARE_POS_N_STR_POS_N: got = cx.compare(p1, n1, t, p2, n2), exp = m.compare(p1, n1, o, p2, n2), what = "compare(" + num(p1) + "," + num(n1) + "," + show(o) + "," + num(p2) + "," + num(n2) + ")"; break;
        case COMPARE_POS_N_STR_POS: got = cx.compare(p1, n1, t, p2), exp = m.compare(p1, n1, o, p2), what = "compare(" + num(p1) + "," + num(n1) + "," + show(o) + "," + num(p2) + ")"; break;
        case COMPARE_CSTR: got = cx.compare(cb.get()), exp = m.compare(co.c_str()), what = "compare(cstr " + show(co) + ")"; break;
        case COMPARE_POS_N_CSTR: got = cx.compare(p1, n1, cb.get()), exp = m.compare(p1, n1, co.c_str()), what = "compare(" + num(p1) + "," + num(n1) + ",cstr " + show(co) + ")"; break;
        case COMPARE_POS_N_PTR_N: {
            auto c2 = std::min(n2, o.size()); // the pointer overload reads exactly count2 characters: stay inside the buffer
            got = cx.compare(p1, n1, pb.get(), c2), exp = m.compare(p1, n1, o.data(), c2), what = "compare(" + num(p1) + "," + num(n1) + ",p " + show(o) + "," + num(c2) + ")";
            break;
        }
        case COMPARE_VIEW: got = cx.compare(v), exp = m.compare(SSV(o)), what = "compare(view " + show(o) + ")"; break;
        case COMPARE_POS_N_VIEW: got = cx.compare(p1, n1, v), exp = m.compare(p1, n1, SSV(o)), what = "compare(" + num(p1) + "," + num(n1) + ",view " + show(o) + ")"; break;
        case COMPARE_POS_N_VIEW_POS_N: got = cx.compare(p1, n1, v, p2, n2), exp = m.compare(p1, n1, SSV(o), p2, n2), what = "compare(" + num(p1) + "," + num(n1) + ",view " + show(o) + "," + num(p2) + "," + num(n2) + ")"; break;
        default: got = cx.compare(p1, n1, v, p2), exp = m.compare(p1, n1, SSV(o), p2), what = "compare(" + num(p1) + "," + num(n1) + ",view " + show(o) + "," + num(p2) + ")"; break;
        }
        if (sgn(got) != sgn(exp)) { fail(show(m) + "." + what + ": expected sign " + std::to_string(sgn(exp)) + " got " + std::to_string(sgn(got))); }
        break;
    }

    // ------------------------------------------------------------------ starts_with / ends_with / contains
    case PREFIX_SUFFIX: {
        M nd;
        switch (op.b % 4) {
        case 0: nd = m.substr(0, (op.b / 4) % (size + 1)); break;              // a prefix
        case 1: nd = m.substr(size - (op.b / 4) % (size + 1)); break;          // a suffix
        case 2: nd = needle(op.b / 4); break;
        default: nd = m.substr((op.b / 4) % (size + 1), (op.b / 64) % 4); break; // an infix
        }
        nt_empty |= nd.empty();
        auto cnd = no_nul(nd);
        auto pb  = pbuf(nd);
        auto cb  = cbuf(cnd);
        SV v(pb.get(), pb.n);
        auto chk = [&](char const* what, bool got, bool exp, std::string const& arg) {
            if (got != exp && !tolerated(what)) { fail(show(m) + "." + what + "(" + arg + "): expected " + (exp ? "true" : "false") + " got " + (got ? "true" : "false")); }
        };
        chk("starts_with", cx.starts_with(v), m.starts_with(SSV(nd)), "view " + show(nd));
        chk("starts_with", cx.starts_with(ch), m.starts_with(ch), show_ch(ch));
        chk("starts_with", cx.starts_with(cb.get()), m.starts_with(cnd.c_str()), "cstr " + show(cnd));
        chk("ends_with", cx.ends_with(v), m.ends_with(SSV(nd)), "view " + show(nd));
        chk("ends_with", cx.ends_with(ch), m.ends_with(ch), show_ch(ch));
        chk("ends_with", cx.ends_with(cb.get()), m.ends_with(cnd.c_str()), "cstr " + show(cnd));
        // std::basic_string::contains is C++23: contains(x) == (find(x) != npos) by definition
        chk("contains", cx.contains(v), m.find(SSV(nd)) != M::npos, "view " + show(nd));
        chk("contains", cx.contains(ch), m.find(ch) != M::npos, show_ch(ch));
        chk("contains", cx.contains(cb.get()), m.find(cnd.c_str()) != M::npos, "cstr " + show(cnd));
        break;
    }

    // ------------------------------------------------------------------ relational operators
    case RELOPS_STR: {
        auto o = cmp_other(op.b);
        EO t(o.data(), o.size());
        E s(o.data(), o.size());
        bool g[18] = {cx == t, cx != t, cx < t, cx <= t, cx > t, cx >= t, t == cx, t != cx, t < cx, t <= cx, t > cx, t >= cx, cx == s, cx != s, cx < s, cx <= s, cx > s, cx >= s};
        bool e[18] = {m == o, m != o, m < o, m <= o, m > o, m >= o, o == m, o != m, o < m, o <= m, o > m, o >= m, m == o, m != o, m < o, m <= o, m > o, m >= o};
        char const* const nm[18] = {"a==b", "a!=b", "a<b", "a<=b", "a>b", "a>=b", "b==a", "b!=a", "b<a", "b<=a", "b>a", "b>=a", "a==c", "a!=c", "a<c", "a<=c", "a>c", "a>=c"};
        for (int i = 0; i < 18; ++i) {
            if (g[i] != e[i]) {
                fail(std::string("operator ") + nm[i] + " with a=" + show(m) + " b,c=" + show(o) + " (b: other capacity, c: same capacity): expected " + (e[i] ? "true" : "false") + " got " + (g[i] ? "true" : "false"));
                break;
            }
        }
        break;
    }
    case RELOPS_CSTR: {
        auto o  = no_nul(cmp_other(op.b));
        auto cb = cbuf(o);
        auto const* p = cb.get();
        auto const* q = o.c_str();
        bool g[12] = {cx == p, cx != p, cx < p, cx <= p, cx > p, cx >= p, p == cx, p != cx, p < cx, p <= cx, p > cx, p >= cx};
        bool e[12] = {m == q, m != q, m < q, m <= q, m > q, m >= q, q == m, q != m, q < m, q <= m, q > m, q >= m};
        char const* const nm[12] = {"a==p", "a!=p", "a<p", "a<=p", "a>p", "a>=p", "p==a", "p!=a", "p<a", "p<=a", "p>a", "p>=a"};
        for (int i = 0; i < 12; ++i) {
            if (g[i] != e[i]) {
                fail(std::string("operator ") + nm[i] + " with a=" + show(m) + " p=cstr " + show(o) + ": expected " + (e[i] ? "true" : "false") + " got " + (g[i] ? "true" : "false"));
                break;
            }
        }
        // string x string_view in both orders (through the string's conversion to basic_string_view), where it compiles
        auto pb = pbuf(o);
        SV v(pb.get(), pb.n);
        SSV w(o);
        if constexpr (requires { cx == v; cx != v; cx < v; cx <= v; cx > v; cx >= v; v == cx; v != cx; v < cx; v <= cx; v > cx; v >= cx; }) {
            bool gv[12] = {cx == v, cx != v, cx < v, cx <= v, cx > v, cx >= v, v == cx, v != cx, v < cx, v <= cx, v > cx, v >= cx};
            bool ev[12] = {m == w, m != w, m < w, m <= w, m > w, m >= w, w == m, w != m, w < m, w <= m, w > m, w >= m};
            for (int i = 0; i < 12; ++i) {
                if (gv[i] != ev[i]) {
                    fail(std::string("operator ") + nm[i] + " with a=" + show(m) + " p=string_view " + show(o) + ": expected " + (ev[i] ? "true" : "false") + " got " + (gv[i] ? "true" : "false"));
                    break;
                }
            }
            vf::count("relops.string_x_string_view.compiled");
        }
        break;
    }
    default: break;
    }
}

} // namespace c04
