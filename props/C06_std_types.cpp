// C06 (element types from namespace std) — the algorithms, numeric algorithms, iterator helpers and functional wrappers
// called on std::string / std::complex elements with every relevant standard header included: argument-dependent lookup
// then also finds the std:: algorithms, so any internal call the library makes unqualified is ambiguous (the harness
// would not build: exit 2, "no verdict" — on the current tree it builds).  Every result is compared with the std::
// algorithm on a copy.  Engine E2: all sequences of length 0..5 over a 4-string alphabet.
#include <algorithm>
#include <complex>
#include <functional>
#include <iterator>
#include <memory>
#include <numeric>
#include <string>
#include <utility>
#include <vector>

#include <etl/algorithm.hpp>
#include <etl/array.hpp>
#include <etl/functional.hpp>
#include <etl/iterator.hpp>
#include <etl/memory.hpp>
#include <etl/numeric.hpp>
#include <etl/span.hpp>
#include <etl/tuple.hpp>
#include <etl/utility.hpp>
#include <etl/vector.hpp>

#include "verif.hpp"

namespace {
using S = std::string;
using V = std::vector<S>;

struct Case {
    std::uint32_t seq; // length = seq % 6, then base-4 digits
    std::uint32_t arg;
};
auto show_case(Case const& k) -> std::string { return std::to_string(k.seq) + " " + std::to_string(k.arg); }

auto decode(std::uint32_t a) -> V
{
    static S const alpha[4] = {S("pear"), S("apple, a long string that does not fit the small-string buffer"), S(""), S("fig")};
    V out;
    auto len = a % 6;
    a /= 6;
    for (std::uint32_t i = 0; i < len; ++i) {
        out.push_back(alpha[a % 4]);
        a /= 4;
    }
    return out;
}
auto show(V const& v) -> std::string
{
    std::string o = "[";
    for (auto const& s : v) { o += (s.size() > 5 ? s.substr(0, 5) + "~" : s) + ","; }
    return o + "]";
}

#define CMP_SEQ(what, E, R)                                                                                            \
    if ((E) != (R)) { return std::string(what) + ": etl " + show(E) + " std " + show(R) + " for input " + show(in); }
#define CMP_VAL(what, E, R)                                                                                            \
    if (!((E) == (R))) { return std::string(what) + ": result differs from std:: for input " + show(in); }

auto run(Case const& k) -> std::string
{
    V const in  = decode(k.seq);
    auto const n = in.size();
    S const val  = decode(6 * (k.arg % 4) + 1).empty() ? S() : decode(6 * (k.arg % 4) + 1)[0];
    auto const mid = n == 0 ? 0 : k.arg % (n + 1);
    auto isfig = [](S const& x) { return x == "fig"; };
    auto gt    = [](S const& x, S const& y) { return x > y; };
    {
        V e = in, r = in;
        etl::sort(e.data(), e.data() + n);
        std::sort(r.begin(), r.end());
        CMP_SEQ("sort", e, r);
        CMP_VAL("lower_bound", etl::lower_bound(e.data(), e.data() + n, val) - e.data(), std::lower_bound(r.begin(), r.end(), val) - r.begin());
        CMP_VAL("upper_bound", etl::upper_bound(e.data(), e.data() + n, val) - e.data(), std::upper_bound(r.begin(), r.end(), val) - r.begin());
        CMP_VAL("binary_search", etl::binary_search(e.data(), e.data() + n, val), std::binary_search(r.begin(), r.end(), val));
        auto ue = etl::unique(e.data(), e.data() + n) - e.data();
        auto ur = std::unique(r.begin(), r.end()) - r.begin();
        CMP_VAL("unique (returned position)", ue, ur);
        e.resize(static_cast<std::size_t>(ue));
        r.resize(static_cast<std::size_t>(ur));
        CMP_SEQ("unique", e, r);
    }
    {
        V e = in, r = in;
        etl::sort(e.data(), e.data() + n, gt);
        std::sort(r.begin(), r.end(), gt);
        CMP_SEQ("sort(greater)", e, r);
        etl::stable_sort(e.data(), e.data() + n);
        std::stable_sort(r.begin(), r.end());
        CMP_SEQ("stable_sort", e, r);
    }
    {
        V e = in, r = in;
        auto pe = etl::remove(e.data(), e.data() + n, val) - e.data();
        auto pr = std::remove(r.begin(), r.end(), val) - r.begin();
        CMP_VAL("remove (returned position)", pe, pr);
        e.resize(static_cast<std::size_t>(pe));
        r.resize(static_cast<std::size_t>(pr));
        CMP_SEQ("remove", e, r);
    }
    {
        V e = in, r = in;
        auto pe = etl::remove_if(e.data(), e.data() + n, isfig) - e.data();
        auto pr = std::remove_if(r.begin(), r.end(), isfig) - r.begin();
        CMP_VAL("remove_if (returned position)", pe, pr);
        e.resize(static_cast<std::size_t>(pe));
        r.resize(static_cast<std::size_t>(pr));
        CMP_SEQ("remove_if", e, r);
    }
    {
        V e = in, r = in;
        etl::reverse(e.data(), e.data() + n);
        std::reverse(r.begin(), r.end());
        CMP_SEQ("reverse", e, r);
        (void)etl::rotate(e.data(), e.data() + mid, e.data() + n);
        (void)std::rotate(r.begin(), r.begin() + static_cast<std::ptrdiff_t>(mid), r.end());
        CMP_SEQ("rotate", e, r);
        etl::replace(e.data(), e.data() + n, val, S("kiwi"));
        std::replace(r.begin(), r.end(), val, S("kiwi"));
        CMP_SEQ("replace", e, r);
        auto se = etl::stable_partition(e.data(), e.data() + n, isfig) - e.data();
        auto sr = std::stable_partition(r.begin(), r.end(), isfig) - r.begin();
        CMP_VAL("stable_partition (returned position)", se, sr);
        CMP_SEQ("stable_partition", e, r);
    }
    {
        V e(n), r(n);
        (void)etl::copy(in.data(), in.data() + n, e.data());
        (void)std::copy(in.begin(), in.end(), r.begin());
        CMP_SEQ("copy", e, r);
        V e2(n), r2(n);
        (void)etl::move(e.data(), e.data() + n, e2.data());
        (void)std::move(r.begin(), r.end(), r2.begin());
        CMP_SEQ("move", e2, r2);
        etl::fill(e.data(), e.data() + n, val);
        std::fill(r.begin(), r.end(), val);
        CMP_SEQ("fill", e, r);
        (void)etl::transform(in.data(), in.data() + n, e.data(), [](S const& x) { return x + "!"; });
        (void)std::transform(in.begin(), in.end(), r.begin(), [](S const& x) { return x + "!"; });
        CMP_SEQ("transform", e, r);
        (void)etl::partial_sum(in.data(), in.data() + n, e.data());
        (void)std::partial_sum(in.begin(), in.end(), r.begin());
        CMP_SEQ("partial_sum", e, r);
    }
    CMP_VAL("find", etl::find(in.data(), in.data() + n, val) - in.data(), std::find(in.begin(), in.end(), val) - in.begin());
    CMP_VAL("find_if", etl::find_if(in.data(), in.data() + n, isfig) - in.data(), std::find_if(in.begin(), in.end(), isfig) - in.begin());
    CMP_VAL("count", etl::count(in.data(), in.data() + n, val), std::count(in.begin(), in.end(), val));
    CMP_VAL("count_if", etl::count_if(in.data(), in.data() + n, isfig), std::count_if(in.begin(), in.end(), isfig));
    CMP_VAL("adjacent_find", etl::adjacent_find(in.data(), in.data() + n) - in.data(), std::adjacent_find(in.begin(), in.end()) - in.begin());
    CMP_VAL("all_of/any_of/none_of", (etl::all_of(in.data(), in.data() + n, isfig) * 4 + etl::any_of(in.data(), in.data() + n, isfig) * 2 + etl::none_of(in.data(), in.data() + n, isfig)),
        (std::all_of(in.begin(), in.end(), isfig) * 4 + std::any_of(in.begin(), in.end(), isfig) * 2 + std::none_of(in.begin(), in.end(), isfig)));
    CMP_VAL("is_sorted", etl::is_sorted(in.data(), in.data() + n), std::is_sorted(in.begin(), in.end()));
    CMP_VAL("min_element", etl::min_element(in.data(), in.data() + n) - in.data(), std::min_element(in.begin(), in.end()) - in.begin());
    CMP_VAL("max_element", etl::max_element(in.data(), in.data() + n) - in.data(), std::max_element(in.begin(), in.end()) - in.begin());
    CMP_VAL("accumulate", etl::accumulate(in.data(), in.data() + n, S("^")), std::accumulate(in.begin(), in.end(), S("^")));
    CMP_VAL("reduce", etl::reduce(in.data(), in.data() + n, S("^")), std::accumulate(in.begin(), in.end(), S("^")));
    {
        V const other = decode(k.arg);
        auto const m  = other.size();
        CMP_VAL("equal (4 iterators)", etl::equal(in.data(), in.data() + n, other.data(), other.data() + m), std::equal(in.begin(), in.end(), other.begin(), other.end()));
        CMP_VAL("lexicographical_compare", etl::lexicographical_compare(in.data(), in.data() + n, other.data(), other.data() + m), std::lexicographical_compare(in.begin(), in.end(), other.begin(), other.end()));
        auto me = etl::mismatch(in.data(), in.data() + std::min(n, m), other.data());
        auto mr = std::mismatch(in.begin(), in.begin() + static_cast<std::ptrdiff_t>(std::min(n, m)), other.begin());
        CMP_VAL("mismatch", me.first - in.data(), mr.first - in.begin());
        CMP_VAL("search", etl::search(in.data(), in.data() + n, other.data(), other.data() + m) - in.data(), std::search(in.begin(), in.end(), other.begin(), other.end()) - in.begin());
        CMP_VAL("is_permutation", n == m && etl::is_permutation(in.data(), in.data() + n, other.data()), n == m && std::is_permutation(in.begin(), in.end(), other.begin()));
    }
    {
        // iterator helpers on a built-in array and on a static_vector of strings
        S arr[3] = {S("b"), val, S("a")};
        CMP_VAL("begin/end/size/rbegin of an array", (etl::end(arr) - etl::begin(arr)) + static_cast<long>(etl::size(arr)) + (*etl::rbegin(arr) == S("a")) + (*etl::cbegin(arr) == S("b")) + (etl::crend(arr).base() == arr), 3 + 3 + 1 + 1 + 1);
        etl::static_vector<S, 8> sv;
        for (auto const& x : in) { *etl::back_inserter(sv) = x; }
        V back;
        for (auto it = etl::rbegin(sv); it != etl::rend(sv); ++it) { back.push_back(*it); }
        V r(in.rbegin(), in.rend());
        CMP_SEQ("back_inserter + rbegin/rend over static_vector<std::string>", back, r);
        if (n > 0) { CMP_VAL("static_vector<std::string>::operator[] / front / back", sv[n - 1] + sv.front() + sv.back(), in[n - 1] + in.front() + in.back()); }
        auto cnt = etl::erase_if(sv, isfig);
        CMP_VAL("erase_if(static_vector<std::string>)", static_cast<long>(cnt), std::count_if(in.begin(), in.end(), isfig));
        auto rw = etl::ref(isfig);
        CMP_VAL("reference_wrapper::operator()", rw(val), isfig(val));
        CMP_VAL("bind_front / not_fn / invoke", (etl::bind_front(gt, val)(S("a")) * 4 + etl::not_fn(isfig)(val) * 2 + etl::invoke(isfig, val)), (gt(val, S("a")) * 4 + !isfig(val) * 2 + isfig(val)));
    }
    {
        using C = std::complex<double>;
        C ca[3] = {{1, 2}, {3, 4}, {static_cast<double>(k.arg % 5), 6}}, ce[3], cr[3];
        CMP_VAL("accumulate(complex)", etl::accumulate(ca, ca + 3, C{}), std::accumulate(ca, ca + 3, C{}));
        (void)etl::partial_sum(ca, ca + 3, ce);
        (void)std::partial_sum(ca, ca + 3, cr);
        CMP_VAL("partial_sum(complex)", ce[2], cr[2]);
        (void)etl::adjacent_difference(ca, ca + 3, ce);
        (void)std::adjacent_difference(ca, ca + 3, cr);
        CMP_VAL("adjacent_difference(complex)", ce[2], cr[2]);
        CMP_VAL("inner_product(complex)", etl::inner_product(ca, ca + 3, ca, C{}), std::inner_product(ca, ca + 3, ca, C{}));
    }
    return "";
}
} // namespace

void vf_run(vf::Ctx& c)
{
    std::uint64_t item = 0;
    std::uint32_t const nseq = 6 * 4 * 4 * 4 * 4 * 4;
    for (std::uint32_t s = 0; s < nseq; ++s) {
        if (!c.mine(item++)) { continue; }
        for (std::uint32_t a = 0; a < (c.thorough() ? 96U : 24U); ++a) {
            Case k{s, a * 7 + 1};
            vf::Flight<Case> fl("std_types", k);
            vf::eval("std_types");
            auto d = run(k);
            if (!d.empty()) {
                vf::mismatch("std_types", k, d);
                if (!c.memory_only) { return; }
            }
            if (s % 6 >= 2) { vf::nontrivial_count(); }
            vf::label("std_types: sequence of 3+ strings", s % 6 >= 3);
            if (s % 997 == 5 && a == 1) { vf::sample("std_types", [&] { return "algorithms on " + show(decode(s)); }); }
        }
    }
}

std::string vf_replay(std::string const&, std::string const& cs)
{
    Case k{0, 0};
    unsigned a = 0, b = 0;
    if (std::sscanf(cs.c_str(), "%u %u", &a, &b) != 2) { return "harness: cannot parse case string"; }
    k.seq = a;
    k.arg = b;
    vf::Flight<Case> fl("replay", k);
    return run(k);
}
