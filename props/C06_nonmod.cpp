// C06 (part 1/6) — non-modifying sequence operations of etl/algorithm.hpp against std:: on a copy.
// Engine E2 (exhaustive small-scope enumeration) + seeded random longer inputs.  See C06_common.cpp.
//
// Covered here: all_of any_of none_of for_each for_each_n count count_if mismatch(3-it,4-it,+-pred)
// equal(3-it,4-it,+-pred) find find_if find_if_not find_end find_first_of adjacent_find search(+-pred, searcher)
// search_n is_permutation(3-it,4-it) lexicographical_compare.
#include "C06_common.cpp"

namespace c06 {
namespace {

auto len(Case const& c) -> int { return static_cast<int>(c.a.size()); }
auto lenb(Case const& c) -> int { return static_cast<int>(c.b.size()); }
auto bs(bool v) -> std::string { return v ? "true" : "false"; }

// ------------------------------------------------------------------ all_of / any_of / none_of
template <typename K>
auto a_quant(Case const& c) -> std::string
{
    V a = mk(c.a, 0);
    Pred p{c.pred};
    auto s = bs(std::all_of(a.begin(), a.end(), p)) + "/" + bs(std::any_of(a.begin(), a.end(), p)) + "/" + bs(std::none_of(a.begin(), a.end(), p));
    Buf A("a", a, c.pad, padn(c));
    std::string e;
    long calls[3] = {0, 0, 0};
    {
        Scope sc;
        e += bs(etl::all_of(at<K>(A, 0), at<K>(A, len(c)), p)) + "/";
        calls[0] = g().pcalls;
        e += bs(etl::any_of(at<K>(A, 0), at<K>(A, len(c)), p)) + "/";
        calls[1] = g().pcalls - calls[0];
        e += bs(etl::none_of(at<K>(A, 0), at<K>(A, len(c)), p));
        calls[2] = g().pcalls - calls[0] - calls[1];
    }
    for (long k : calls) {
        if (k > len(c)) { return "predicate applied " + num(k) + " times to a range of " + num(len(c)) + " elements (the standard allows at most last - first)"; }
    }
    return verdict(e + " " + ren(A), s + " " + ren(a));
}

// ------------------------------------------------------------------ for_each / for_each_n
struct Visit {
    int count{0};
    void operator()(Elem& e)
    {
        touch(&e, "function applied to");
        g().order.push_back(e.tag);
        e.key += 10;
        ++count;
    }
};
auto order_str() -> std::string
{
    std::string s = "order";
    for (int t : g().order) { s += " " + num(t); }
    return s;
}
template <typename K>
auto a_for_each(Case const& c) -> std::string
{
    V a = mk(c.a, 0);
    g().order.clear();
    auto fs = std::for_each(a.begin(), a.end(), Visit{});
    auto s  = order_str() + " f.count=" + num(fs.count) + " " + ren(a);
    Buf A("a", mk(c.a, 0), c.pad, padn(c));
    std::string e;
    {
        Scope sc;
        auto fe = etl::for_each(at<K>(A, 0), at<K>(A, len(c)), Visit{});
        e       = order_str() + " f.count=" + num(fe.count) + " " + ren(A);
    }
    return verdict(e, s);
}
template <typename K>
auto a_for_each_n(Case const& c) -> std::string
{
    if (c.n < 0 || c.n > len(c)) { return SKIP; } // [alg.foreach]: n >= 0, [first, first+n) valid
    V a = mk(c.a, 0);
    g().order.clear();
    auto rs = std::for_each_n(a.begin(), c.n, Visit{});
    auto s  = "ret=" + num(rs - a.begin()) + " " + order_str() + " " + ren(a);
    Buf A("a", mk(c.a, 0), c.pad, padn(c));
    std::string e;
    {
        Scope sc;
        auto re = etl::for_each_n(at<K>(A, 0), c.n, Visit{});
        e       = "ret=" + num(off(A, re)) + " " + order_str() + " " + ren(A);
    }
    return verdict(e, s);
}

// ------------------------------------------------------------------ count / count_if / find / find_if / find_if_not
template <typename K>
auto a_count(Case const& c) -> std::string
{
    V a = mk(c.a, 0);
    Elem v{c.val, 900};
    auto s = num(std::count(a.begin(), a.end(), v)) + "," + num(std::count_if(a.begin(), a.end(), Pred{c.pred}));
    Buf A("a", a, c.pad, padn(c));
    std::string e;
    {
        Scope sc;
        auto r1 = etl::count(at<K>(A, 0), at<K>(A, len(c)), v); // one call per statement: single-pass traversals must not overlap
        auto r2 = etl::count_if(at<K>(A, 0), at<K>(A, len(c)), Pred{c.pred});
        e       = num(r1) + "," + num(r2);
    }
    return verdict(e + " " + ren(A), s + " " + ren(a));
}
template <typename K>
auto a_find(Case const& c) -> std::string
{
    V a = mk(c.a, 0);
    Elem v{c.val, 900};
    auto s = num(std::find(a.begin(), a.end(), v) - a.begin()) + "," + num(std::find_if(a.begin(), a.end(), Pred{c.pred}) - a.begin()) + "," + num(std::find_if_not(a.begin(), a.end(), Pred{c.pred}) - a.begin());
    Buf A("a", a, c.pad, padn(c));
    std::string e;
    {
        Scope sc;
        auto r1 = off(A, etl::find(at<K>(A, 0), at<K>(A, len(c)), v));
        auto r2 = off(A, etl::find_if(at<K>(A, 0), at<K>(A, len(c)), Pred{c.pred}));
        auto r3 = off(A, etl::find_if_not(at<K>(A, 0), at<K>(A, len(c)), Pred{c.pred}));
        e       = num(r1) + "," + num(r2) + "," + num(r3);
    }
    return verdict(e + " " + ren(A), s + " " + ren(a));
}

// ------------------------------------------------------------------ mismatch / equal (3-iterator and 4-iterator forms)
template <typename K>
auto a_mismatch3(Case const& c) -> std::string
{
    if (lenb(c) < len(c)) { return SKIP; } // the 3-iterator form requires a second range at least as long
    V a = mk(c.a, 0);
    V b = mk(c.b, 100);
    auto rs = c.eq == 0 ? std::mismatch(a.begin(), a.end(), b.begin()) : std::mismatch(a.begin(), a.end(), b.begin(), Eq{c.eq});
    auto s  = num(rs.first - a.begin()) + "," + num(rs.second - b.begin());
    Buf A("a", a, c.pad, padn(c));
    Buf B("b", b, c.pad, padn(c));
    std::string e;
    {
        Scope sc;
        auto re = c.eq == 0 ? etl::mismatch(at<K>(A, 0), at<K>(A, len(c)), at2<K>(B, 0)) : etl::mismatch(at<K>(A, 0), at<K>(A, len(c)), at2<K>(B, 0), Eq{c.eq});
        e       = num(off(A, re.first)) + "," + num(off(B, re.second));
    }
    return verdict(e, s);
}
template <typename K>
auto a_mismatch4(Case const& c) -> std::string
{
    V a = mk(c.a, 0);
    V b = mk(c.b, 100);
    auto rs = c.eq == 0 ? std::mismatch(a.begin(), a.end(), b.begin(), b.end()) : std::mismatch(a.begin(), a.end(), b.begin(), b.end(), Eq{c.eq});
    auto s  = num(rs.first - a.begin()) + "," + num(rs.second - b.begin());
    Buf A("a", a, c.pad, padn(c));
    Buf B("b", b, c.pad, padn(c));
    std::string e;
    {
        Scope sc;
        auto re = c.eq == 0 ? etl::mismatch(at<K>(A, 0), at<K>(A, len(c)), at2<K>(B, 0), at2<K>(B, lenb(c))) : etl::mismatch(at<K>(A, 0), at<K>(A, len(c)), at2<K>(B, 0), at2<K>(B, lenb(c)), Eq{c.eq});
        e       = num(off(A, re.first)) + "," + num(off(B, re.second));
    }
    return verdict(e, s);
}
template <typename K>
auto a_equal3(Case const& c) -> std::string
{
    if (lenb(c) < len(c)) { return SKIP; }
    V a = mk(c.a, 0);
    V b = mk(c.b, 100);
    auto s = bs(c.eq == 0 ? std::equal(a.begin(), a.end(), b.begin()) : std::equal(a.begin(), a.end(), b.begin(), Eq{c.eq}));
    Buf A("a", a, c.pad, padn(c));
    Buf B("b", b, c.pad, padn(c));
    std::string e;
    {
        Scope sc;
        e = bs(c.eq == 0 ? etl::equal(at<K>(A, 0), at<K>(A, len(c)), at2<K>(B, 0)) : etl::equal(at<K>(A, 0), at<K>(A, len(c)), at2<K>(B, 0), Eq{c.eq}));
    }
    return verdict(e, s);
}
template <typename K>
auto a_equal4(Case const& c) -> std::string
{
    V a = mk(c.a, 0);
    V b = mk(c.b, 100);
    auto s = bs(c.eq == 0 ? std::equal(a.begin(), a.end(), b.begin(), b.end()) : std::equal(a.begin(), a.end(), b.begin(), b.end(), Eq{c.eq}));
    Buf A("a", a, c.pad, padn(c));
    Buf B("b", b, c.pad, padn(c));
    std::string e;
    {
        Scope sc;
        e = bs(c.eq == 0 ? etl::equal(at<K>(A, 0), at<K>(A, len(c)), at2<K>(B, 0), at2<K>(B, lenb(c))) : etl::equal(at<K>(A, 0), at<K>(A, len(c)), at2<K>(B, 0), at2<K>(B, lenb(c)), Eq{c.eq}));
    }
    return verdict(e, s);
}

// ------------------------------------------------------------------ is_permutation (no predicate overloads on this tree)
template <typename K>
auto a_is_perm3(Case const& c) -> std::string
{
    if (lenb(c) < len(c)) { return SKIP; }
    V a = mk(c.a, 0);
    V b = mk(c.b, 100);
    auto s = bs(std::is_permutation(a.begin(), a.end(), b.begin()));
    Buf A("a", a, c.pad, padn(c));
    Buf B("b", b, c.pad, padn(c));
    std::string e;
    {
        Scope sc;
        e = bs(etl::is_permutation(at<K>(A, 0), at<K>(A, len(c)), at2<K>(B, 0)));
    }
    return verdict(e, s);
}
template <typename K>
auto a_is_perm4(Case const& c) -> std::string
{
    V a = mk(c.a, 0);
    V b = mk(c.b, 100);
    auto s = bs(std::is_permutation(a.begin(), a.end(), b.begin(), b.end()));
    Buf A("a", a, c.pad, padn(c));
    Buf B("b", b, c.pad, padn(c));
    std::string e;
    {
        Scope sc;
        e = bs(etl::is_permutation(at<K>(A, 0), at<K>(A, len(c)), at2<K>(B, 0), at2<K>(B, lenb(c))));
    }
    return verdict(e, s);
}

// ------------------------------------------------------------------ find_end / find_first_of / search / adjacent_find
template <typename K>
auto a_find_end(Case const& c) -> std::string
{
    V a = mk(c.a, 0);
    V b = mk(c.b, 100);
    auto s = num((c.eq == 0 ? std::find_end(a.begin(), a.end(), b.begin(), b.end()) : std::find_end(a.begin(), a.end(), b.begin(), b.end(), Eq{c.eq})) - a.begin());
    Buf A("a", a, c.pad, padn(c));
    Buf B("b", b, c.pad, padn(c));
    std::string e;
    {
        Scope sc;
        e = num(off(A, c.eq == 0 ? etl::find_end(at<K>(A, 0), at<K>(A, len(c)), at2<K>(B, 0), at2<K>(B, lenb(c))) : etl::find_end(at<K>(A, 0), at<K>(A, len(c)), at2<K>(B, 0), at2<K>(B, lenb(c)), Eq{c.eq})));
    }
    return verdict(e, s);
}
template <typename K>
auto a_find_first_of(Case const& c) -> std::string
{
    V a = mk(c.a, 0);
    V b = mk(c.b, 100);
    auto s = num((c.eq == 0 ? std::find_first_of(a.begin(), a.end(), b.begin(), b.end()) : std::find_first_of(a.begin(), a.end(), b.begin(), b.end(), Eq{c.eq})) - a.begin());
    Buf A("a", a, c.pad, padn(c));
    Buf B("b", b, c.pad, padn(c));
    std::string e;
    {
        Scope sc;
        e = num(off(A, c.eq == 0 ? etl::find_first_of(at<K>(A, 0), at<K>(A, len(c)), at2<K>(B, 0), at2<K>(B, lenb(c))) : etl::find_first_of(at<K>(A, 0), at<K>(A, len(c)), at2<K>(B, 0), at2<K>(B, lenb(c)), Eq{c.eq})));
    }
    return verdict(e, s);
}
template <typename K>
auto a_search(Case const& c) -> std::string
{
    V a = mk(c.a, 0);
    V b = mk(c.b, 100);
    auto s = num((c.eq == 0 ? std::search(a.begin(), a.end(), b.begin(), b.end()) : std::search(a.begin(), a.end(), b.begin(), b.end(), Eq{c.eq})) - a.begin());
    Buf A("a", a, c.pad, padn(c));
    Buf B("b", b, c.pad, padn(c));
    std::string e;
    {
        Scope sc;
        e = num(off(A, c.eq == 0 ? etl::search(at<K>(A, 0), at<K>(A, len(c)), at2<K>(B, 0), at2<K>(B, lenb(c))) : etl::search(at<K>(A, 0), at<K>(A, len(c)), at2<K>(B, 0), at2<K>(B, lenb(c)), Eq{c.eq})));
    }
    return verdict(e, s);
}
template <typename K>
auto a_search_searcher(Case const& c) -> std::string
{
    V a = mk(c.a, 0);
    V b = mk(c.b, 100);
    auto s = c.eq == 0 ? num(std::search(a.begin(), a.end(), std::default_searcher(b.begin(), b.end())) - a.begin()) : num(std::search(a.begin(), a.end(), std::default_searcher(b.begin(), b.end(), Eq{c.eq})) - a.begin());
    // the searcher itself: pair(first match, end of match) or (last, last)
    auto ps = c.eq == 0 ? std::default_searcher(b.begin(), b.end())(a.begin(), a.end()) : std::default_searcher(b.begin(), b.end(), Eq{c.eq})(a.begin(), a.end());
    s += " pair=" + num(ps.first - a.begin()) + "," + num(ps.second - a.begin());
    Buf A("a", a, c.pad, padn(c));
    Buf B("b", b, c.pad, padn(c));
    std::string e;
    {
        Scope sc;
        if (c.eq == 0) {
            auto srch = etl::default_searcher(at2<K>(B, 0), at2<K>(B, lenb(c)));
            e         = num(off(A, etl::search(at<K>(A, 0), at<K>(A, len(c)), srch)));
            auto pe   = srch(at<K>(A, 0), at<K>(A, len(c)));
            e += " pair=" + num(off(A, pe.first)) + "," + num(off(A, pe.second));
        } else {
            auto srch = etl::default_searcher(at2<K>(B, 0), at2<K>(B, lenb(c)), Eq{c.eq});
            e         = num(off(A, etl::search(at<K>(A, 0), at<K>(A, len(c)), srch)));
            auto pe   = srch(at<K>(A, 0), at<K>(A, len(c)));
            e += " pair=" + num(off(A, pe.first)) + "," + num(off(A, pe.second));
        }
    }
    return verdict(e, s);
}
template <typename K>
auto a_adjacent_find(Case const& c) -> std::string
{
    V a = mk(c.a, 0);
    auto s = num((c.eq == 0 ? std::adjacent_find(a.begin(), a.end()) : std::adjacent_find(a.begin(), a.end(), Eq{c.eq})) - a.begin());
    Buf A("a", a, c.pad, padn(c));
    std::string e;
    {
        Scope sc;
        e = num(off(A, c.eq == 0 ? etl::adjacent_find(at<K>(A, 0), at<K>(A, len(c))) : etl::adjacent_find(at<K>(A, 0), at<K>(A, len(c)), Eq{c.eq})));
    }
    return verdict(e, s);
}
// search_n: etl's template only instantiates with pointers (`ForwardIt found = nullptr`) -> pointer only
template <typename K>
auto a_search_n(Case const& c) -> std::string
{
    V a = mk(c.a, 0);
    Elem v{c.val, 900};
    auto s = num((c.eq == 0 ? std::search_n(a.begin(), a.end(), c.n, v) : std::search_n(a.begin(), a.end(), c.n, v, Eq{c.eq})) - a.begin());
    Buf A("a", a, c.pad, padn(c));
    std::string e;
    {
        Scope sc;
        e = num(off(A, c.eq == 0 ? etl::search_n(at<K>(A, 0), at<K>(A, len(c)), c.n, v) : etl::search_n(at<K>(A, 0), at<K>(A, len(c)), c.n, v, Eq{c.eq})));
    }
    return verdict(e, s);
}

// ------------------------------------------------------------------ lexicographical_compare
template <typename K>
auto a_lex(Case const& c) -> std::string
{
    V a = mk(c.a, 0);
    V b = mk(c.b, 100);
    auto s = bs(c.cmp == 0 ? std::lexicographical_compare(a.begin(), a.end(), b.begin(), b.end()) : std::lexicographical_compare(a.begin(), a.end(), b.begin(), b.end(), Cmp{c.cmp}));
    Buf A("a", a, c.pad, padn(c));
    Buf B("b", b, c.pad, padn(c));
    std::string e;
    {
        Scope sc;
        e = bs(c.cmp == 0 ? etl::lexicographical_compare(at<K>(A, 0), at<K>(A, len(c)), at2<K>(B, 0), at2<K>(B, lenb(c))) : etl::lexicographical_compare(at<K>(A, 0), at<K>(A, len(c)), at2<K>(B, 0), at2<K>(B, lenb(c)), Cmp{c.cmp}));
    }
    return verdict(e, s);
}

} // namespace

auto table() -> std::vector<Entry> const&
{
    static std::vector<Entry> const t = {
        C06_REG(a_quant, "all_any_none_of", D_PRED, KP),
        C06_REG(a_quant, "all_any_none_of", D_PRED, KI),
        C06_REG(a_for_each, "for_each", 0, KP),
        C06_REG(a_for_each, "for_each", 0, KI),
        C06_REG(a_for_each_n, "for_each_n", D_N, KP),
        C06_REG(a_for_each_n, "for_each_n", D_N, KI),
        C06_REG(a_count, "count_count_if", D_VAL | D_PRED, KP),
        C06_REG(a_count, "count_count_if", D_VAL | D_PRED, KI),
        C06_REG(a_find, "find_find_if_find_if_not", D_VAL | D_PRED, KP),
        C06_REG(a_find, "find_find_if_find_if_not", D_VAL | D_PRED, KI),
        C06_REG(a_mismatch3, "mismatch3", D_BSAME | D_EQ, KP),
        C06_REG(a_mismatch3, "mismatch3", D_BSAME | D_EQ, KI),
        C06_REG(a_mismatch3, "mismatch3", D_BSAME | D_EQ, Kpi),
        C06_REG(a_mismatch3, "mismatch3", D_BSAME | D_EQ, Kip),
        C06_REG(a_mismatch3, "mismatch3", D_BSAME | D_EQ, Kfi),
        C06_REG(a_mismatch3, "mismatch3", D_BSAME | D_EQ, Kpf),
        C06_REG(a_mismatch3, "mismatch3", D_BSAME | D_EQ, Kbp),
        C06_REG(a_mismatch4, "mismatch4", D_B | D_EQ, KP),
        C06_REG(a_mismatch4, "mismatch4", D_B | D_EQ, KI),
        C06_REG(a_mismatch4, "mismatch4", D_B | D_EQ, Kpi),
        C06_REG(a_mismatch4, "mismatch4", D_B | D_EQ, Kip),
        C06_REG(a_mismatch4, "mismatch4", D_B | D_EQ, Kfi),
        C06_REG(a_mismatch4, "mismatch4", D_B | D_EQ, Kpf),
        C06_REG(a_mismatch4, "mismatch4", D_B | D_EQ, Kbp),
        C06_REG(a_equal3, "equal3", D_BSAME | D_EQ, KP),
        C06_REG(a_equal3, "equal3", D_BSAME | D_EQ, KI),
        C06_REG(a_equal3, "equal3", D_BSAME | D_EQ, Kpi),
        C06_REG(a_equal3, "equal3", D_BSAME | D_EQ, Kip),
        C06_REG(a_equal3, "equal3", D_BSAME | D_EQ, Kfi),
        C06_REG(a_equal3, "equal3", D_BSAME | D_EQ, Kpf),
        C06_REG(a_equal3, "equal3", D_BSAME | D_EQ, Kbp),
        C06_REG(a_equal4, "equal4", D_B | D_EQ, KP),
        C06_REG(a_equal4, "equal4", D_B | D_EQ, KI),
        C06_REG(a_equal4, "equal4", D_B | D_EQ, Kpi),
        C06_REG(a_equal4, "equal4", D_B | D_EQ, Kip),
        C06_REG(a_equal4, "equal4", D_B | D_EQ, Kfi),
        C06_REG(a_equal4, "equal4", D_B | D_EQ, Kpf),
        C06_REG(a_equal4, "equal4", D_B | D_EQ, Kbp),
        C06_REG(a_is_perm3, "is_permutation3", D_BSAME, KP),
        C06_REG(a_is_perm3, "is_permutation3", D_BSAME, KF),
        C06_REG(a_is_perm3, "is_permutation3", D_BSAME, Kpf),
        C06_REG(a_is_perm3, "is_permutation3", D_BSAME, Kbp),
        C06_REG(a_is_perm3, "is_permutation3", D_BSAME, Kfp),
        C06_REG(a_is_perm4, "is_permutation4", D_B, KP),
        C06_REG(a_is_perm4, "is_permutation4", D_B, KF),
        C06_REG(a_is_perm4, "is_permutation4", D_B, Kpf),
        C06_REG(a_is_perm4, "is_permutation4", D_B, Kbp),
        C06_REG(a_is_perm4, "is_permutation4", D_B, Kfp),
        C06_REG(a_find_end, "find_end", D_B | D_EQ, KP),
        C06_REG(a_find_end, "find_end", D_B | D_EQ, KF),
        C06_REG(a_find_end, "find_end", D_B | D_EQ, Kpf),
        C06_REG(a_find_end, "find_end", D_B | D_EQ, Kbp),
        C06_REG(a_find_end, "find_end", D_B | D_EQ, Kfp),
        C06_REG(a_find_first_of, "find_first_of", D_B | D_EQ, KP),
        C06_REG(a_find_first_of, "find_first_of", D_B | D_EQ, Kif),
        C06_REG(a_find_first_of, "find_first_of", D_B | D_EQ, Kpf),
        C06_REG(a_find_first_of, "find_first_of", D_B | D_EQ, Kbp),
        C06_REG(a_find_first_of, "find_first_of", D_B | D_EQ, Kip),
        C06_REG(a_search, "search", D_B | D_EQ, KP),
        C06_REG(a_search, "search", D_B | D_EQ, KF),
        C06_REG(a_search, "search", D_B | D_EQ, Kpf),
        C06_REG(a_search, "search", D_B | D_EQ, Kbp),
        C06_REG(a_search, "search", D_B | D_EQ, Kfp),
        C06_REG(a_search_searcher, "search_searcher", D_B | D_EQ, KP),
        C06_REG(a_search_searcher, "search_searcher", D_B | D_EQ, KF),
        C06_REG(a_adjacent_find, "adjacent_find", D_EQ, KP),
        C06_REG(a_adjacent_find, "adjacent_find", D_EQ, KF),
        C06_REG(a_search_n, "search_n", D_N | D_VAL | D_EQ, KP),
        C06_REG(a_lex, "lexicographical_compare", D_B | D_CMP, KP),
        C06_REG(a_lex, "lexicographical_compare", D_B | D_CMP, KI),
        C06_REG(a_lex, "lexicographical_compare", D_B | D_CMP, Kpi),
        C06_REG(a_lex, "lexicographical_compare", D_B | D_CMP, Kip),
        C06_REG(a_lex, "lexicographical_compare", D_B | D_CMP, Kfi),
        C06_REG(a_lex, "lexicographical_compare", D_B | D_CMP, Kpf),
        C06_REG(a_lex, "lexicographical_compare", D_B | D_CMP, Kbp),
    };
    return t;
}

} // namespace c06

void vf_run(vf::Ctx& c) { c06::run_table(c); }
std::string vf_replay(std::string const& sub, std::string const& cs) { return c06::replay_table(sub, cs); }
